"""C16 (minor, only reachable through Router.getRoute/TestClient, not through the HTTP
request line): the regular expression ends in '$', which also matches before a trailing
newline, so the path '/abc\\n' (segment 'abc\\n') matches the literal route '/abc', and
'/u/x\\n' binds differently from what was sent.  're.fullmatch' / '\\Z' would not."""
import sys, os
sys.path.insert(0, os.getcwd())
from mpgameserver.http_server import Router, Route
r = Router()
r.registerRoutes([Route("lit", "GET", "/abc", None)])
res = r.getRoute("GET", "/abc\n")
if res is not None:
    print("VIOLATION: path %r matched literal route /abc: %r (segment 'abc\\n' != 'abc'; expected no match -> 404)" % ("/abc\n", res))
    sys.exit(1)
sys.exit(0)

"""C20: register(resource) is not atomic.  When it is refused because one of the resource's
message classes already has a handler, the handlers that sort before the offending one (dir()
order) stay registered.  After the refused registration the dispatcher invokes a handler of
the resource whose registration failed."""
import sys, os
sys.path.insert(0, os.getcwd())
sys.path.insert(0, os.path.join(os.getcwd(), "_audit"))
from mpgameserver import ServerMessageDispatcher, ClientMessageDispatcher, server_event, client_event
from mpgameserver.dispatch import DispatchError
from c20pkg import msgs

class A:
    def __init__(self): self.calls = []
    @server_event
    def on_move(self, client, seqnum, msg: msgs.AuditMove): self.calls.append("A.move")

class B:
    def __init__(self): self.calls = []
    @server_event
    def a_login(self, client, seqnum, msg: msgs.AuditLogin): self.calls.append("B.login")
    @server_event
    def b_move(self, client, seqnum, msg: msgs.AuditMove): self.calls.append("B.move")

d = ServerMessageDispatcher()
a, b = A(), B()
d.register(a)
before = dict(d.registered_events)
try:
    d.register(b)
    print("registration of B unexpectedly accepted")
    sys.exit(0)
except DispatchError:
    raise
except Exception as e:
    print("register(B) refused:", e)

failed = False
if d.registered_events != before:
    failed = True
    print("VIOLATION: refused register() changed the table: %r" % sorted(d.registered_events))
try:
    d.dispatch(None, None, msgs.AuditLogin())
    failed = True
    print("VIOLATION: dispatch(AuditLogin) invoked %r of the resource whose registration was refused "
          "(expected DispatchError: no handler registered)" % b.calls)
except DispatchError:
    print("dispatch(AuditLogin) -> DispatchError (ok)")
sys.exit(1 if failed else 0)

"""C20: with postponed (string) annotations the handler is stored under the annotation TEXT,
while dispatch looks up type(msg).__name__.  As soon as the annotation is written in the
usual qualified form - 'msg: msgs.AuditLogin' after 'from . import msgs' - the key is
'msgs.AuditLogin' and dispatch(AuditLogin()) raises DispatchError although a handler for
exactly that class is registered.  The same source without 'from __future__ import
annotations' works.  In addition a second handler for the same class (written with the
other spelling) is not refused."""
import sys, os
sys.path.insert(0, os.getcwd())
sys.path.insert(0, os.path.join(os.getcwd(), "_audit"))
from mpgameserver import ServerMessageDispatcher, ClientMessageDispatcher, SeqNum
from mpgameserver.dispatch import DispatchError
from c20pkg import msgs, res_str

failed = False
msg = msgs.AuditLogin(name="x")

d = ServerMessageDispatcher()
r = res_str.ServerRes()
d.register(r)
print("server dispatcher keys:", list(d.registered_events))
try:
    d.dispatch("client", SeqNum(1), msg)
except DispatchError as e:
    failed = True
    print("VIOLATION (server): handler for msgs.AuditLogin is registered, dispatch raised DispatchError(%s), calls=%r" % (e, r.calls))

c = ClientMessageDispatcher()
rc = res_str.ClientRes()
c.register(rc)
try:
    c.dispatch(SeqNum(1), msg)
except DispatchError as e:
    failed = True
    print("VIOLATION (client): handler for msgs.AuditLogin is registered, dispatch raised DispatchError(%s), calls=%r" % (e, rc.calls))

# a second handler for the same class is accepted
r2 = res_str.ServerResBare()
try:
    d.register(r2)
    failed = True
    print("VIOLATION: second handler for class AuditLogin was not refused; keys:", list(d.registered_events))
except Exception as e:
    print("second registration refused:", e)

sys.exit(1 if failed else 0)

"""C19 (borderline - the result is a syntactically well-formed hash with other parameters):
scrypt's output of length L is a prefix of its output of any greater length (the last step
is PBKDF2 with dkLen=L).  A stored hash whose digest is truncated to 16..23 bytes, with the
digest-length parameter edited to agree, still verifies as True for the right password.
The check 'length >= 16 and len(data) == salt_length + length' accepts it."""
import sys, os, base64, struct
sys.path.insert(0, os.getcwd())
from mpgameserver.auth import Auth

pw = b"correct horse"
h = Auth.hash_password(pw)
kind, ver, params, data = h.split(":")
N, r, p, sl, dl = struct.unpack(">HBBBB", base64.b64decode(params))
raw = base64.b64decode(data)
failed = False
for newlen in (16, 20, 23):
    edited = "scrypt:1:%s:%s" % (
        base64.b64encode(struct.pack(">HBBBB", N, r, p, sl, newlen)).decode(),
        base64.b64encode(raw[:sl + newlen]).decode())
    res = Auth.verify_password(pw, edited)
    print("digest truncated %d -> %d bytes, length parameter edited: verify -> %s" % (dl, newlen, res))
    failed |= res is True
if failed:
    print("VIOLATION: a truncated hash with an edited length parameter verifies as True")
sys.exit(1 if failed else 0)

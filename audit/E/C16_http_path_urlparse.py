"""C16: at the HTTP level the request target is run through urllib.parse.urlparse
(parse_url), which is not a path parser.  Two legal origin-form request targets are
rewritten before they reach the route matcher:

  GET //a/b      (segments '', 'a', 'b')  -> 'a' is taken as a network location, path
                                            becomes '/b' and the literal route '/b' answers
  GET /abc;zzz   (one segment 'abc;zzz')  -> ';zzz' is split off as "params", path becomes
                                            '/abc' and the literal route '/abc' answers

The property requires literal segments to equal the path's segments in full and a path
that matches nothing to yield 404.  No sockets: the Twisted channel is driven through a
StringTransport.
"""
import sys, os
sys.path.insert(0, os.getcwd())
from twisted.internet.testing import StringTransport
from mpgameserver.http_server import Resource, Router, HTTPFactory, JsonResponse, get

calls = []

class R(Resource):
    @get("/b")
    def lit_b(self, request):
        calls.append(("/b", request.path))
        return JsonResponse({"route": "/b"})

    @get("/abc")
    def lit_abc(self, request):
        calls.append(("/abc", request.path))
        return JsonResponse({"route": "/abc"})

    @get("/u/:name")
    def one(self, request):
        calls.append(("/u/:name", request.path, dict(request.matches)))
        return JsonResponse({"route": "/u/:name"})

router = Router()
router.registerRoutes(R())
factory = HTTPFactory(router=router)

def http_get(target):
    proto = factory.buildProtocol(None)
    tr = StringTransport()
    proto.makeConnection(tr)
    del calls[:]
    proto.dataReceived(b"GET " + target + b" HTTP/1.1\r\nHost: x\r\nConnection: close\r\n\r\n")
    status = int(tr.value().split(b"\r\n")[0].split()[1])
    return status, list(calls)

failed = False
# sanity
assert http_get(b"/b")[0] == 200 and http_get(b"/nothing")[0] == 404

# the matcher itself refuses these paths ...
assert router.getRoute("GET", "//a/b") is None
assert router.getRoute("GET", "/abc;zzz") is None

# ... but over HTTP they are answered by a literal route
for target, why in [(b"//a/b", "segments ['', 'a', 'b'] do not equal literal pattern /b"),
                    (b"/abc;zzz", "segment 'abc;zzz' does not equal literal 'abc'")]:
    status, c = http_get(target)
    if status != 404:
        failed = True
        print("VIOLATION: GET %s -> status %d, handler called: %r; expected 404 (%s)" % (
            target.decode(), status, c, why))

# bound value loses the ';...' tail of the segment
status, c = http_get(b"/u/bob;x=1")
if c and c[0][2].get("name") != "bob;x=1":
    failed = True
    print("VIOLATION: GET /u/bob;x=1 -> :name bound to %r, the segment is 'bob;x=1'" % c[0][2].get("name"))

sys.exit(1 if failed else 0)

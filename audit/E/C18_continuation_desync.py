"""C18: a client that fragments a message (RFC 6455 5.4: first frame FIN=0 opcode Text,
following frames opcode 0x0 Continuation) breaks the server side for good.

WebSocketOpCode has no member for 0x0, so parseHeader raises ValueError(0) AFTER
readHeader has already taken the two header bytes out of the buffer.  The exception escapes
from the handler, the continuation frame is never delivered, and the buffer now starts in the
middle of a frame (at the masking key), so every later, perfectly ordinary frame on that
connection is mis-parsed or never delivered.  The property requires every client frame to
be delivered exactly once, in order."""
import sys, os, struct
sys.path.insert(0, os.getcwd())
from mpgameserver.http_server import (WebSocketTemporaryHandler,
    WebSocketTemporaryRingBuffer, WebSocketOpCode)

class Req:
    chunked = 0
    def write(self, d): pass

class Endpt:
    def __init__(self): self.got = []
    def callback(self, h, op, payload): self.got.append((op, payload))

def client_frame(op, payload, fin=1, key=b"\x11\x22\x33\x44"):
    return struct.pack("!BB", (fin << 7) | op, 0x80 | len(payload)) + key + \
        bytes(c ^ key[i % 4] for i, c in enumerate(payload))

e = Endpt()
h = WebSocketTemporaryHandler(("h", 1), {}, {}, WebSocketTemporaryRingBuffer(Req()), e)

sent = [("Text fin=0", client_frame(0x1, b"Hel", fin=0)),
        ("Continuation fin=1", client_frame(0x0, b"lo", fin=1)),
        ("Text", client_frame(0x1, b"second message")),
        ("Binary", client_frame(0x2, b"third message"))]
errors = []
for name, data in sent:               # one frame per TCP read
    try:
        h(data)
    except Exception as ex:
        errors.append((name, repr(ex)))

print("frames sent     :", [n for n, _ in sent])
print("delivered       :", e.got)
print("exceptions      :", errors)
print("left in buffer  :", h._buffer.buf)
delivered_payloads = [p if isinstance(p, str) else bytes(p).decode("latin1") for _, p in e.got]
if "second message" not in delivered_payloads or "third message" not in delivered_payloads or errors:
    print("VIOLATION: after a continuation frame (opcode 0) the handler raised and the stream is "
          "desynchronised; the following ordinary Text and Binary frames were never delivered")
    sys.exit(1)
sys.exit(0)

"""C16: the value bound by a :name* parameter contains the tolerated trailing slash.

For the path '/f/a/b/' the pattern '/f/:p+' reports p='a/b' but '/f/:p*' reports p='a/b/'
(and '/f/a/' gives 'a/' instead of 'a').  The trailing slash is supposed to be tolerated,
i.e. not be part of any segment; the segments bound by * are 'a','b'.
"""
import sys, os
sys.path.insert(0, os.getcwd())
from mpgameserver.http_server import Router, Route

failed = False
for path, expect in [("/f/a/", "a"), ("/f/a/b/", "a/b"), ("/f/a/b", "a/b")]:
    got = {}
    for pat in ("/f/:p+", "/f/:p*"):
        r = Router()
        r.registerRoutes([Route("n", "GET", pat, None)])
        got[pat] = r.getRoute("GET", path)[1]["p"]
    print(path, got)
    if got["/f/:p*"] != expect:
        failed = True
        print("VIOLATION: pattern /f/:p* on %r binds p=%r; the trailing segments are %r (pattern /f/:p+ binds %r)" % (
            path, got["/f/:p*"], expect, got["/f/:p+"]))
sys.exit(1 if failed else 0)

"""C18: a frame built by the library with the mask flag set and a non-zero masking key is
written with the payload in clear (writeData sends self.payload unchanged) although the
header announces MASK=1 and carries the key.  RFC 6455 5.3 requires the payload octets on
the wire to be XORed with the key.  The library's own parser (and any RFC parser) therefore
reads back a different payload: the frame does not round-trip."""
import sys, os
sys.path.insert(0, os.getcwd())
from mpgameserver.http_server import WebSocketFrame, readFrameFactory, writeFrameFactory

class Sock:
    def __init__(self): self.buf = b""
    def sendall(self, d): self.buf += bytes(d)
    def recv(self, n):
        d, self.buf = self.buf[:n], self.buf[n:]
        return d

failed = False
for n in (0, 5, 125, 126, 65535, 65536):
    payload = bytes((i * 7 + 3) & 0xFF for i in range(n))
    key = b"\x01\x02\x03\x04"
    f = WebSocketFrame.Binary(payload)
    f.flags.mask = 1
    f.masking_key = key
    s = Sock()
    writeFrameFactory(s)(f)
    wire = s.buf
    hdrlen = len(wire) - n
    expect_wire_payload = bytes(c ^ key[i % 4] for i, c in enumerate(payload))
    g = readFrameFactory(s)()
    same = bytes(g.payload) == payload
    rfc = wire[hdrlen:] == expect_wire_payload
    if not (same and rfc):
        if n:
            failed = True
        print("len=%d: MASK bit=%d key=%r; wire payload masked per RFC: %s; parses back to same payload: %s" % (
            n, (wire[1] >> 7), g.masking_key, rfc, same))
if failed:
    print("VIOLATION: masked frames are serialized with an unmasked payload; parse(serialize(frame)).payload != frame.payload")
sys.exit(1 if failed else 0)

"""C17 (minor; needs an unusual but legal POSIX root): path_join_safe rewrites every
backslash in the ROOT to a slash before anything else.  On POSIX a backslash is an ordinary
file-name character, so for a root directory whose name contains one the function returns
a path that is not beneath the root it was given - it can even lie above it."""
import sys, os, tempfile
sys.path.insert(0, os.getcwd())
from mpgameserver.http_server import path_join_safe

failed = False
base = tempfile.mkdtemp()
for rootname in ["www\\..", "user\\files"]:
    root = os.path.join(base, rootname)
    os.makedirs(root, exist_ok=True)          # a real directory with a backslash in its name
    got = path_join_safe(root, "secret.txt")
    real_root = os.path.abspath(root)
    ok = got == real_root or got.startswith(real_root + os.sep)
    print("root=%r -> %r" % (root, got))
    if not ok:
        failed = True
        print("VIOLATION: returned path is not beneath the root directory %r" % real_root)
sys.exit(1 if failed else 0)

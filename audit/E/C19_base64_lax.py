"""C19: verify_password decodes both base64 fields with base64.b64decode(..) in its
default non-validating mode, which silently throws away every character outside the
base64 alphabet and everything after the padding, and ignores the unused low bits of the
last symbol.  Many damaged hash strings therefore still verify as True instead of raising
ValueError (or at least returning False)."""
import sys, os
sys.path.insert(0, os.getcwd())
from mpgameserver.auth import Auth

pw = b"correct horse"
h = Auth.hash_password(pw)
assert Auth.verify_password(pw, h) is True
kind, ver, params, data = h.split(":")
assert data.endswith("==")
alphabet = "ABCDEFGHIJKLMNOPQRSTUVWXYZabcdefghijklmnopqrstuvwxyz0123456789+/"
# the last symbol before '==' carries 4 unused bits: flip one of them
flipped = data[:-3] + alphabet[alphabet.index(data[-3]) ^ 1] + "=="

damaged = [
    ("'!' inserted into the salt+digest field", ":".join([kind, ver, params, data[:10] + "!" + data[10:]])),
    ("space inserted into the parameter field", ":".join([kind, ver, params[:3] + " " + params[3:], data])),
    ("'AAAA' appended after the padding", h + "AAAA"),
    ("'%%%' appended", h + "%%%"),
    ("newline + junk appended", h + "\n$$$"),
    ("last base64 symbol changed (different string, unused bits)", ":".join([kind, ver, params, flipped])),
]
failed = False
for label, s in damaged:
    assert s != h
    try:
        r = Auth.verify_password(pw, s)
    except (ValueError, TypeError) as e:
        r = "raised %s" % type(e).__name__
    print("%-62s -> %s" % (label, r))
    if r is True:
        failed = True
if failed:
    print("VIOLATION: malformed hash strings verify as True (required: ValueError/TypeError, never True)")
sys.exit(1 if failed else 0)

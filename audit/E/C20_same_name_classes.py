"""C20 (acknowledged by a TODO comment in register_function, but contrary to the property as
stated): handlers are keyed by the class NAME.  Two different message classes with the same
__name__ (different modules / scopes) are confused: dispatch of an instance of the class for
which NO handler is registered calls the other class's handler instead of raising
DispatchError, and registering a handler for the second class is refused as 'duplicate'.
(Serializable subclasses are forced to have unique names, plain message classes are not.)"""
import sys, os
sys.path.insert(0, os.getcwd())
from mpgameserver import ServerMessageDispatcher, server_event
from mpgameserver.dispatch import DispatchError

def make(tag):
    class Ping(object):          # two distinct classes, both named 'Ping'
        origin = tag
    return Ping
PingA, PingB = make("A"), make("B")
assert PingA is not PingB

class ResA:
    def __init__(self): self.calls = []
    @server_event
    def on_ping(self, client, seqnum, msg: PingA): self.calls.append(msg)

class ResB:
    def __init__(self): self.calls = []
    @server_event
    def on_ping(self, client, seqnum, msg: PingB): self.calls.append(msg)

failed = False
d = ServerMessageDispatcher()
ra = ResA()
d.register(ra)
try:
    d.dispatch(None, None, PingB())
    failed = True
    print("VIOLATION: no handler is registered for class PingB, yet dispatch(PingB()) called ResA.on_ping "
          "(registered for PingA) with %r" % [m.origin for m in ra.calls])
except DispatchError:
    print("DispatchError (ok)")
try:
    d.register(ResB())
    print("handler for PingB accepted (ok)")
except Exception as e:
    failed = True
    print("VIOLATION: first handler for class PingB refused: %s" % e)
sys.exit(1 if failed else 0)

from mpgameserver import Serializable
class AuditLogin(Serializable):
    name: str = ""
class AuditMove(Serializable):
    x: int = 0

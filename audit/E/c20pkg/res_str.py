from __future__ import annotations          # postponed (string) annotations
from mpgameserver import server_event, client_event, SeqNum
from . import msgs

class ServerRes:
    def __init__(self):
        self.calls = []

    @server_event
    def on_login(self, client, seqnum: SeqNum, msg: msgs.AuditLogin):
        self.calls.append((client, seqnum, msg))

class ClientRes:
    def __init__(self):
        self.calls = []

    @client_event
    def on_login(self, seqnum: SeqNum, msg: msgs.AuditLogin):
        self.calls.append((seqnum, msg))

class ServerResBare:
    def __init__(self):
        self.calls = []

    @server_event
    def on_login(self, client, seqnum: SeqNum, msg: "AuditLogin"):
        self.calls.append((client, seqnum, msg))

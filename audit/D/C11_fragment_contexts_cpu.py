"""
C11: "No datagram or sequence of datagrams from any source ... valid headers
with garbage bodies ... stops the server loop or disturbs service to
established clients."

One peer that completed the handshake (no credentials needed) sends 60
ordinary sized datagrams (88 kB in total, at the normal rate of 60 datagrams
per second).  Each datagram carries 119 one-byte APP_FRAGMENT messages with
fresh fragment ids.

  ConnectionBase._recvAppFragment keeps one FragmentReceiver per fragment id
  (no limit on their number, lifetime 1 + 0.5*count seconds with `count` taken
  from the wire) and, for EVERY fragment message received, walks over ALL
  pending receivers calling expired() on each.  The work per datagram is
  119 * (number of pending contexts): quadratic in the traffic of one peer.

The single server thread (which serves every client and runs every handler
event) is busy for seconds; meanwhile an honest, established client gets no
answer and the 60 Hz tick (EventHandler.update) does not run.

The datagrams go through TwistedServer.datagramReceived and the real
UdpServerThread loop; only the UDP transport is replaced.
"""
import os, sys, time, struct
sys.path.insert(0, os.getcwd())
import logging
logging.disable(logging.CRITICAL)

from mpgameserver import ServerContext, EventHandler
from mpgameserver.twisted import TwistedServer
from mpgameserver.connection import Packet, PacketHeader, PacketType, RetryMode, \
    ClientServerConnection, ConnectionStatus


class Echo(EventHandler):
    def __init__(self):
        self.ticks = []
    def update(self, delta_t):
        self.ticks.append(time.perf_counter())
    def handle_message(self, client, seqnum, msg=b''):
        client.send(msg)


class Peer(object):
    """ a client connection wired to the server entry point (as in tests/server_test.py) """
    def __init__(self, server, outbox, addr):
        self.server = server
        self.outbox = outbox
        self.addr = addr
        self.conn = ClientServerConnection(addr)
        self.conn._sendClientHello()
        self.sent_sizes = []

    def pump(self):
        while self.outbox.get(self.addr):
            datagram = self.outbox[self.addr].pop(0)
            self.conn._recv_datagram(PacketHeader.from_bytes(False, datagram), datagram)
        pkt = self.conn._build_packet()
        if pkt is not None:
            datagram = self.conn._encode_packet(pkt)
            self.sent_sizes.append(len(datagram))
            self.server.datagramReceived(datagram, self.addr)


def max_gap(ts, lo, hi):
    ts = [lo] + [t for t in ts if lo <= t <= hi] + [hi]
    return max(b - a for a, b in zip(ts, ts[1:]))


def main():
    handler = Echo()
    ctxt = ServerContext(handler)
    server = TwistedServer(ctxt, ("0.0.0.0", 1474), install_signals=False)
    outbox = {}
    def send(seq):
        for pkt, key, addr in seq:
            outbox.setdefault(addr, []).append(pkt.to_bytes(key))
    server.thread.send = send
    server.thread.start()

    honest = Peer(server, outbox, ("192.0.2.1", 40001))
    hostile = Peer(server, outbox, ("198.51.100.9", 50000))
    t0 = time.time()
    while not all(p.addr in ctxt.connections and p.conn.status == ConnectionStatus.CONNECTED for p in (honest, hostile)):
        honest.pump(); hostile.pump()
        time.sleep(1/60)
        if time.time() - t0 > 5:
            print("could not connect")
            return 2

    pings = {}     # n -> send time
    rtts = []      # (send time, rtt)
    def frame(n_ping):
        honest.pump(); hostile.pump()
        for seq, msg in honest.conn.incoming_messages:
            k = int(msg)
            if k in pings:
                rtts.append((pings[k], time.perf_counter() - pings.pop(k)))
        honest.conn.incoming_messages = []

    # phase A: 2 quiet seconds, the honest client pings every 3rd frame
    n = 0
    a0 = time.perf_counter()
    for i in range(120):
        if i % 3 == 0:
            n += 1; pings[n] = time.perf_counter(); honest.conn.send(b"%d" % n)
        frame(n)
        time.sleep(1/60)
    a1 = time.perf_counter()

    # phase B: the hostile peer sends 60 datagrams in 60 frames (1 s)
    fid = 0
    mark = len(hostile.sent_sizes)
    b0 = time.perf_counter()
    for i in range(60):
        for k in range(119):
            fid += 1
            hostile.conn._send_type(PacketType.APP_FRAGMENT, struct.pack(">HHH", fid, 2, 200) + b"x", RetryMode.NONE, None)
        if i % 3 == 0:
            n += 1; pings[n] = time.perf_counter(); honest.conn.send(b"%d" % n)
        frame(n)
        time.sleep(1/60)
    sizes = hostile.sent_sizes[mark:]
    # keep the honest client running until its pings are answered (at most 40 s)
    while pings and time.perf_counter() - b0 < 40:
        frame(n)
        time.sleep(1/60)
    b1 = time.perf_counter()

    ctxt.shutdown()
    server.thread._wake()
    server.thread.join()

    rtt_a = max([r for t, r in rtts if t < a1] or [0])
    rtt_b = max([r for t, r in rtts if t >= b0] or [0])
    unanswered = len(pings)
    gap_a = max_gap(handler.ticks, a0, a1)
    gap_b = max_gap(handler.ticks, b0, b1)
    print("hostile traffic: %d datagrams, %d bytes in total, largest %d bytes" % (len(sizes), sum(sizes), max(sizes)))
    print("quiet phase : longest pause of the server tick %.3f s, worst echo round trip of the honest client %.3f s" % (gap_a, rtt_a))
    print("attack phase: longest pause of the server tick %.3f s, worst echo round trip of the honest client %.3f s (unanswered pings: %d)" % (gap_b, rtt_b, unanswered))
    if gap_b > 1.0 and gap_b > 10 * gap_a:
        print()
        print("FAIL: %d bytes from one peer blocked the server loop for %.1f s (%d ticks of 1/60 s); "
              "the established honest client waited %.1f s for its echo"
              % (sum(sizes), gap_b, int(gap_b * 60), rtt_b))
        return 1
    print("no violation shown")
    return 0

if __name__ == '__main__':
    sys.exit(main())

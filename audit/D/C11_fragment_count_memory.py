"""
C11: "No datagram or sequence of datagrams from any source ... valid headers
with garbage bodies ... stops the server loop or disturbs service to
established clients."

Any peer may complete the handshake (no credentials are involved).  After that
ONE ordinary sized datagram (about 1.46 kB) makes the server allocate more
than 60 MB which it keeps for 9 hours:

  ConnectionBase._recvAppFragment creates a FragmentReceiver for every unknown
  fragment id and allocates `[None] * count` with the 16 bit `count` taken
  from the wire (the sender side limit Packet.MAX_FRAGMENTS = 0x2000 is never
  checked by the receiver), and the context only expires after
  1.0 + 0.5 * count seconds = 32768.5 s.  About 119 tiny fragment messages with
  distinct ids fit in one datagram -> 119 * 65535 * 8 bytes.

A few hundred such datagrams (a fraction of a second of traffic at the normal
packet rate) exhaust the memory of the server process, i.e. stop the server for
every client.

The datagrams go through TwistedServer.datagramReceived and the real
UdpServerThread loop; only the UDP transport is replaced.
"""
import os, sys, time, struct, tracemalloc
sys.path.insert(0, os.getcwd())
import logging
logging.disable(logging.CRITICAL)

from mpgameserver import ServerContext, EventHandler
from mpgameserver.twisted import TwistedServer
from mpgameserver.connection import Packet, PacketHeader, PacketType, RetryMode, \
    ClientServerConnection, ConnectionStatus


class Peer(object):
    """ a client connection wired to the server entry point (as in tests/server_test.py) """
    def __init__(self, server, outbox, addr):
        self.server = server
        self.outbox = outbox
        self.addr = addr
        self.conn = ClientServerConnection(addr)
        self.conn._sendClientHello()
        self.sent_sizes = []

    def pump(self):
        while self.outbox.get(self.addr):
            datagram = self.outbox[self.addr].pop(0)
            self.conn._recv_datagram(PacketHeader.from_bytes(False, datagram), datagram)
        pkt = self.conn._build_packet()
        if pkt is not None:
            datagram = self.conn._encode_packet(pkt)
            self.sent_sizes.append(len(datagram))
            self.server.datagramReceived(datagram, self.addr)


def main():
    handler = EventHandler()
    ctxt = ServerContext(handler)
    server = TwistedServer(ctxt, ("0.0.0.0", 1474), install_signals=False)
    outbox = {}
    def send(seq):
        for pkt, key, addr in seq:
            outbox.setdefault(addr, []).append(pkt.to_bytes(key))
    server.thread.send = send
    server.thread.start()

    peer = Peer(server, outbox, ("198.51.100.9", 50000))
    t0 = time.time()
    while not (peer.addr in ctxt.connections and peer.conn.status == ConnectionStatus.CONNECTED):
        peer.pump()
        time.sleep(1/60)
        if time.time() - t0 > 5:
            print("could not connect")
            return 2
    for i in range(10):
        peer.pump()
        time.sleep(1/60)

    tracemalloc.start()
    before = tracemalloc.get_traced_memory()[0]

    # one datagram: 119 fragment messages, distinct fragment ids, index 2 of 65535, 1 byte each
    n = 119
    for i in range(n):
        payload = struct.pack(">HHH", 1000 + i, 2, 0xFFFF) + b"x"
        peer.conn._send_type(PacketType.APP_FRAGMENT, payload, RetryMode.NONE, None)
    mark = len(peer.sent_sizes)
    time.sleep(2/60)
    peer.pump()
    hostile = peer.sent_sizes[mark:]
    t0 = time.time()
    srv_conn = ctxt.connections[peer.addr]
    while len(srv_conn.received_fragments) < n and time.time() - t0 < 5:
        time.sleep(0.01)

    after = tracemalloc.get_traced_memory()[0]
    contexts = len(srv_conn.received_fragments)
    lifetime = max(1.0 + .5 * r.frag_count for r in srv_conn.received_fragments.values()) if contexts else 0
    still_connected = peer.addr in ctxt.connections

    ctxt.shutdown()
    server.thread._wake()
    server.thread.join()

    grown = after - before
    print("hostile datagrams sent: %d (sizes %r bytes, MTU limit %d)" % (len(hostile), hostile, Packet.MAX_SIZE))
    print("fragment contexts held by the server for this peer: %d" % contexts)
    print("memory allocated by the server because of it: %.1f MB" % (grown / 1e6))
    print("the contexts expire after %.1f s (%.1f hours); peer still connected: %s" % (lifetime, lifetime / 3600, still_connected))
    if len(hostile) == 1 and grown > 50e6 and lifetime > 3600:
        print()
        print("FAIL: one %d byte datagram from a peer makes the server hold %.0f MB for %.1f hours; "
              "%d such datagrams need %.0f GB -> the server process dies for all clients"
              % (hostile[0], grown / 1e6, lifetime / 3600, 500, 500 * grown / 1e9))
        return 1
    print("no violation shown")
    return 0

if __name__ == '__main__':
    sys.exit(main())

"""
C11: "the server never sends more bytes to an address that has not completed
the handshake than it has received from that address ... for every block list
and MTU"

Packet.setMTU() shrinks the mandatory padding of the CLIENT_HELLO together
with the MTU, but the SERVER_HELLO (two DER public keys + salt + token + ECDSA
signature, ~327 bytes on the wire) has a fixed size.  For every MTU from the
smallest one at which the handshake still works (about 368) up to about 390 the answer is
LARGER than the request: an address that never completes the handshake (and
may be forged) receives more bytes than it sent.

The datagram goes through the real entry point TwistedServer.datagramReceived
and the real UdpServerThread loop; only the UDP transport is replaced.
"""
import os, sys, time
sys.path.insert(0, os.getcwd())
import logging
logging.disable(logging.CRITICAL)

from mpgameserver import ServerContext, EventHandler
from mpgameserver.twisted import TwistedServer
from mpgameserver.connection import Packet, PacketHeader, ClientServerConnection, ConnectionStatus


def trial(mtu):
    Packet.setMTU(mtu)
    ctxt = ServerContext(EventHandler())
    server = TwistedServer(ctxt, ("0.0.0.0", 1474), install_signals=False)
    sent = []   # (addr, datagram) leaving the server
    def send(seq):
        for pkt, key, addr in seq:
            sent.append((addr, pkt.to_bytes(key)))
    server.thread.send = send
    server.thread.start()

    victim = ("203.0.113.7", 40000)          # never answers: has not completed the handshake
    attacker_conn = ClientServerConnection(victim)
    attacker_conn._sendClientHello()
    hello = attacker_conn._encode_packet(attacker_conn._build_packet())

    server.datagramReceived(hello, victim)
    t0 = time.time()
    while not sent and time.time() - t0 < 2.0:
        time.sleep(0.01)
    time.sleep(0.1)
    ctxt.shutdown()
    server.thread._wake()
    server.thread.join()

    received = len(hello)
    replied = sum(len(d) for a, d in sent if a == victim)

    # is it a working configuration? (a real client completes the handshake with this answer)
    works = False
    if sent:
        reply = sent[0][1]
        attacker_conn._recv_datagram(PacketHeader.from_bytes(False, reply), reply)
        works = attacker_conn.status == ConnectionStatus.CONNECTED
    in_connections = victim in ctxt.connections
    return received, replied, works, in_connections


def main():
    bad = []
    for mtu in (1500, 576, 400, 385, 380, 375, 370, 360):
        received, replied, works, established = trial(mtu)
        flag = "VIOLATION" if replied > received else "ok"
        print("MTU %4d: server received %4d bytes from the address, sent %4d bytes to it "
              "(handshake possible at this MTU: %s, address completed handshake: %s)  %s"
              % (mtu, received, replied, works, established, flag))
        if replied > received and not established:
            bad.append((mtu, received, replied))
    Packet.setMTU(1500)
    if bad:
        print()
        print("FAIL: for MTU %s the server sent more bytes to an address that never completed "
              "the handshake than it received from it (e.g. MTU %d: %d in, %d out)"
              % ([b[0] for b in bad], bad[-1][0], bad[-1][1], bad[-1][2]))
        return 1
    print("no amplification found")
    return 0

if __name__ == '__main__':
    sys.exit(main())

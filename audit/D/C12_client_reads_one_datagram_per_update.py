"""
C12: "When the peer goes silent ... the client reports DROPPED after 5 s ...
for every keep-alive interval, connection/handshake/message timeout and tick
rate with keep-alive < timeout, every idle duration, every moment at which the
link is cut"

UdpClient.update() reads AT MOST ONE datagram from the socket per call.  When
the server emits datagrams faster than the application calls update() - an
idle server emits 8.6 keep-alives per second with the default settings, more
with a smaller ServerContext.setKeepAliveInterval() - the unread datagrams
pile up in the socket.  When the link is then cut the client keeps consuming
the old datagrams one per frame; every one of them refreshes last_recv_time,
so the client goes on reporting CONNECTED and says DROPPED only
5 s + (backlog / frame rate) after the server went silent: tens of seconds
instead of 5.  (All the time before, everything the client reads is as old as
the backlog.)

Everything below is the real library code: UdpServerThread.run, the
TwistedServer datagram entry point, UdpClient.  Only the clock, the socket,
select() and the sleeping of the server thread are replaced so that the run is
deterministic.  The fake socket holds at most 256 unread datagrams (a real UDP
socket with the default Linux receive buffer holds about that many small
datagrams) and drops the rest.
"""
import os, sys
sys.path.insert(0, os.getcwd())
import logging
logging.disable(logging.CRITICAL)

import mpgameserver.server as m_server
import mpgameserver.connection as m_conn
import mpgameserver.client as m_client
from mpgameserver import ServerContext, EventHandler
from mpgameserver.twisted import TwistedServer
from mpgameserver.client import UdpClient
from mpgameserver.connection import ConnectionStatus


class FakeTime(object):
    def __init__(self):
        self.t = 1700000000.25
    def time(self): return self.t
    def monotonic(self): return self.t
    def perf_counter(self): return self.t
    def sleep(self, d): self.t += d

class FakeSelect(object):
    @staticmethod
    def select(r, w, x, timeout=None):
        return [s for s in r if s.inbox], list(w), []

class FakeSocket(object):
    LIMIT = 256
    def __init__(self, world, addr):
        self.world, self.addr, self.inbox = world, addr, []
    def sendto(self, datagram, dst):
        if self.world.link_up:
            self.world.server.datagramReceived(datagram, self.addr)
    def recvfrom(self, n):
        return self.inbox.pop(0), self.world.server_addr
    def close(self):
        pass

class Transport(object):
    def __init__(self, world): self.world = world
    def write(self, datagram, addr):
        sock = self.world.sock
        if self.world.link_up and addr == sock.addr and len(sock.inbox) < FakeSocket.LIMIT:
            sock.inbox.append(datagram)
        self.world.server_emitted.append(self.world.clock.t)

class World(object):
    def __init__(self, ctxt_setup, fps):
        self.clock = FakeTime()
        m_server.time = m_conn.time = m_client.time = self.clock
        m_client.select = FakeSelect
        m_server.sleep = lambda duration, *a: self.advance(duration)
        self.server_addr = ("10.0.0.1", 1474)
        self.ctxt = ServerContext(EventHandler())
        ctxt_setup(self.ctxt)
        self.server = TwistedServer(self.ctxt, self.server_addr, install_signals=False)
        self.server.transport = Transport(self)
        self.thread = self.server.thread
        self.thread.send = self.server.sendPacketsUnsafe
        def wait(timeout=None):
            self.thread.lk_queue.release()
            try: self.advance(self.ctxt.interval)
            finally: self.thread.lk_queue.acquire()
        self.thread.cv_queue.wait = wait
        self.link_up = True
        self.server_emitted = []
        self.sock = FakeSocket(self, ("10.0.0.2", 5000))
        self.client = UdpClient()
        self.client._make_socket = lambda addr: self.sock
        self.fps = fps
        self.next_frame = 0
        self.status_log = []
        self.cut_at = None
        self.stop_at = None
        self.backlog_at_cut = None

    def advance(self, duration):
        remaining = max(duration, 0)
        while True:
            dt = min(remaining, 1/240)
            remaining -= dt
            self.clock.t += dt
            self.step()
            if remaining <= 1e-12:
                break
        if self.clock.t >= self.stop_at:
            self.ctxt._active = False

    def step(self):
        now = self.clock.t
        if self.cut_at is not None and self.link_up and now >= self.cut_at:
            self.link_up = False
            self.backlog_at_cut = len(self.sock.inbox)
        if now >= self.next_frame:
            self.next_frame = now + 1.0 / self.fps
            self.client.update()          # the application calls update() once per frame ...
            self.client.getMessages()     # ... and takes whatever arrived
            st = self.client.status()
            if not self.status_log or self.status_log[-1][1] != st:
                self.status_log.append((now, st))


def scenario(name, ctxt_setup, fps, idle=60.0):
    w = World(ctxt_setup, fps)
    w.client.connect(w.server_addr)
    t0 = w.clock.t
    w.cut_at = t0 + idle
    w.stop_at = t0 + idle + 90
    w.thread.run()
    emitted = [t for t in w.server_emitted if t0 + 1 < t < w.cut_at]
    rate = len(emitted) / (w.cut_at - t0 - 1)
    before = [s for t, s in w.status_log if t < w.cut_at]
    dropped = [t for t, s in w.status_log if s == ConnectionStatus.DROPPED]
    delay = (dropped[0] - w.cut_at) if dropped else None
    print("%s" % name)
    print("   server emitted %.1f datagrams/s while idle, application calls update() %g times/s" % (rate, fps))
    print("   client status before the cut: %s; unread datagrams in the socket when the link was cut after %.0f s idle: %d"
          % (before[-1], idle, w.backlog_at_cut))
    if delay is None:
        print("   client did not report DROPPED within 90 s after the server went silent (status %s)" % w.client.status())
    else:
        print("   client reported DROPPED %.2f s after the server went silent" % delay)
    ok = delay is not None and delay <= 5.0 + 2.0 / fps + 0.05
    return ok, delay


def main():
    results = []
    results.append(scenario("control: default settings, 60 updates per second",
                            lambda ctxt: None, 60))
    results.append(scenario("A: default settings on both sides, application polls update() 5 times per second",
                            lambda ctxt: None, 5))
    results.append(scenario("B: ServerContext.setKeepAliveInterval(0.02), game running at 20 frames per second",
                            lambda ctxt: ctxt.setKeepAliveInterval(0.02), 20))
    if not results[0][0]:
        print("control scenario failed - harness problem")
        return 2
    bad = [r for r in results[1:] if not r[0]]
    if bad:
        print()
        print("FAIL: the client must report DROPPED 5 s after the peer goes silent; it took %s"
              % ", ".join("%.1f s" % d if d is not None else "more than 90 s" for ok, d in bad))
        return 1
    print("no violation shown")
    return 0

if __name__ == '__main__':
    sys.exit(main())

"""
C10: "For every client the event handler sees connect exactly once, after that
client completed the handshake, then only that client's messages, then
disconnect exactly once ... and simultaneously connected clients carry distinct
tokens ... for every interleaving of many clients ... mixed with duplicated,
stale and garbage datagrams ... and every outcome of the token generator's
randomness"

ConnectionBase._recv_datagram only looks at the packet type in the HEADER to
refuse a CLIENT_HELLO on a connection that already has a session key.  A
datagram with more than one message carries a type per message, and
_recv_message dispatches on that: an established peer can put a CLIENT_HELLO
message next to an APP message (header type APP).  ServerClientConnection.
_recvClientHello then runs on the CONNECTED client: it draws a NEW token,
replaces the session key and sets the status back to CONNECTING - while the
client stays in ctxt.connections and no disconnect / connect event is raised.

Seen from the event handler:
  * the client whose connect event announced token T1 delivers its messages
    and its disconnect event under a token T2 that no connect event announced;
  * T1 is no longer "in use" for ServerContext.get_token, so (for a suitable
    outcome of the random generator) the next client is connected with T1
    while the first client is still connected: two connect events with the same
    token and no disconnect in between.  A handler that keeps `token -> client`
    (the pattern recommended in EventHandler.connect's documentation) now has
    the second client stored over the first one and fails on the disconnect of
    the first.

The datagrams go through TwistedServer.datagramReceived and the real
UdpServerThread loop; only the UDP transport is replaced, and the four random
bytes used by ServerContext.get_token are scripted.
"""
import os, sys, time, struct
sys.path.insert(0, os.getcwd())
import logging
logging.disable(logging.CRITICAL)

import mpgameserver.context as m_context
from mpgameserver import ServerContext, EventHandler
from mpgameserver.twisted import TwistedServer
from mpgameserver.connection import Packet, PacketHeader, PacketType, RetryMode, \
    ClientServerConnection, ConnectionStatus, HandshakeClientHelloMessage


class Registry(EventHandler):
    """ the bookkeeping recommended by the documentation: token -> client """
    def __init__(self):
        self.clients = {}
        self.log = []
        self.errors = []
    def connect(self, client):
        self.log.append(('connect', client.addr, client.token))
        self.clients[client.token] = client
    def disconnect(self, client):
        self.log.append(('disconnect', client.addr, client.token))
        try:
            del self.clients[client.token]
        except KeyError as e:
            self.errors.append("disconnect of %s:%d: token %d was never announced by a connect event" % (client.addr + (client.token,)))
            raise
    def handle_message(self, client, seqnum, msg=b''):
        self.log.append(('message', client.addr, client.token, msg))


class Peer(object):
    """ a client connection wired to the server entry point (as in tests/server_test.py) """
    def __init__(self, server, outbox, addr):
        self.server = server
        self.outbox = outbox
        self.addr = addr
        self.conn = ClientServerConnection(addr)
        self.conn._sendClientHello()

    def pump(self):
        while self.outbox.get(self.addr):
            datagram = self.outbox[self.addr].pop(0)
            hdr = PacketHeader.from_bytes(False, datagram)
            if hdr.pkt_type == PacketType.SERVER_HELLO and self.conn.session_key_bytes:
                continue
            self.conn._recv_datagram(hdr, datagram)
        pkt = self.conn._build_packet()
        if pkt is not None:
            self.server.datagramReceived(self.conn._encode_packet(pkt), self.addr)


def connect(peer, ctxt):
    t0 = time.time()
    while not (peer.addr in ctxt.connections and peer.conn.status == ConnectionStatus.CONNECTED):
        peer.pump()
        time.sleep(1/60)
        if time.time() - t0 > 5:
            raise SystemExit("could not connect")


def main():
    # script the outcome of the token generator (4 random bytes per draw)
    script = [0x11111111, 0x22222222, 0x11111111]
    class OsShim(object):
        def __getattr__(self, name):
            return getattr(os, name)
        @staticmethod
        def urandom(n):
            if n == 4 and script:
                return struct.pack(">L", script.pop(0))
            return os.urandom(n)
    m_context.os = OsShim()

    handler = Registry()
    ctxt = ServerContext(handler)
    server = TwistedServer(ctxt, ("0.0.0.0", 1474), install_signals=False)
    outbox = {}
    def send(seq):
        for pkt, key, addr in seq:
            outbox.setdefault(addr, []).append(pkt.to_bytes(key))
    server.thread.send = send
    server.thread.start()

    x = Peer(server, outbox, ("198.51.100.9", 50000))
    connect(x, ctxt)
    sx = ctxt.connections[x.addr]
    t1 = sx.token
    print("X connected; connect event announced token %d, client side token %d" % (t1, x.conn.token))

    # X: one datagram with two messages: an APP message and a CLIENT_HELLO message
    hello = HandshakeClientHelloMessage()
    hello.client_pubkey = ClientServerConnection(x.addr).session_key.getPublicKey()
    hello.client_version = 1
    x.conn._send_type(PacketType.APP, b"hi", RetryMode.NONE, None)
    x.conn._send_type(PacketType.CLIENT_HELLO, hello.dumpb(), RetryMode.NONE, None)
    time.sleep(2/60)
    x.pump()
    t0 = time.time()
    while sx.token == t1 and time.time() - t0 < 2:
        time.sleep(0.01)
    print("after X's datagram [APP, CLIENT_HELLO]: X is still in ctxt.connections: %s, status %s, token %d"
          % (x.addr in ctxt.connections, sx.status, sx.token))

    # Y, an ordinary honest client
    y = Peer(server, outbox, ("192.0.2.1", 40001))
    connect(y, ctxt)
    sy = ctxt.connections[y.addr]
    both = x.addr in ctxt.connections and y.addr in ctxt.connections
    print("Y connected with token %d; X and Y both connected: %s" % (sy.token, both))

    ctxt.shutdown()
    server.thread._wake()
    server.thread.join()

    print()
    for ev in handler.log:
        print("   handler event:", ev)
    for e in handler.errors:
        print("   handler error:", e)

    # evaluate what the handler saw
    failures = []
    announced = {}      # addr -> token announced at connect
    live = {}           # addr -> token announced, for clients without disconnect event yet
    for ev in handler.log:
        kind, addr, token = ev[0], ev[1], ev[2]
        if kind == 'connect':
            for other, tok in live.items():
                if tok == token:
                    failures.append("connect of %s:%d announced token %d which was announced for %s:%d, still connected"
                                    % (addr + (token,) + other))
            announced[addr] = token
            live[addr] = token
        else:
            if announced.get(addr) != token:
                failures.append("%s event of %s:%d carries token %d, its connect event announced %d"
                                % ((kind,) + addr + (token, announced.get(addr))))
            if kind == 'disconnect':
                live.pop(addr, None)
    if failures:
        print()
        for f in failures:
            print("FAIL:", f)
        return 1
    print("no violation shown")
    return 0

if __name__ == '__main__':
    sys.exit(main())

"""
C13: user classes must round trip (decode(encode(v)) == v), values that cannot
be encoded must be refused, never silently mis-encoded.

SerializableType computes cls._fields from cls.__dict__ only, so a class that
derives from another Serializable subclass (the metaclass explicitly supports
this: it compares type_id with the parent's) encodes only the fields declared
in its own body.  The inherited fields are silently left out of dumpb()/dumps()
and come back with their default values.
"""
import sys, os
sys.path.insert(0, os.getcwd())
from mpgameserver.serializable import Serializable

class Entity(Serializable):
    uid: int = 0
    name: str = ""

class Player(Entity):
    score: int = 0

p = Player(score=7)
p.uid = 1234
p.name = "alice"

q = Serializable.loadb(p.dumpb())
r = Player.loads(p.dumps())
print("Player._fields =", Player._fields)
print("original : uid=%r name=%r score=%r" % (p.uid, p.name, p.score))
print("binary   : uid=%r name=%r score=%r" % (q.uid, q.name, q.score))
print("json     : uid=%r name=%r score=%r   (%s)" % (r.uid, r.name, r.score, p.dumps()))

if (q.uid, q.name, q.score) != (p.uid, p.name, p.score):
    print("VIOLATION: inherited fields uid/name were silently dropped by the encoding")
    sys.exit(1)

"""
C14: decoding hostile bytes must not allocate / iterate beyond a small multiple
of the input size.

A peer that merely completed the (unauthenticated) handshake sends ONE datagram
(<= MTU-28 bytes) holding many tiny APP_FRAGMENT messages. Each message is only
the 6 byte fragment header (frag_id, index, count) with count=65535 and a
different frag_id.  ConnectionBase._recvAppFragment trusts `count`:
FragmentReceiver.__init__ allocates [None]*count per frag_id, the sender side
limit Packet.MAX_FRAGMENTS (0x2000) is never checked on receive, and such a
context lives 1.0 + 0.5*count seconds (about 9 hours).  In addition every
received fragment message walks over every stored context (expired() scan).
"""
import sys, os, struct, time, tracemalloc, logging
sys.path.insert(0, os.getcwd())
logging.disable(logging.CRITICAL)

from mpgameserver.connection import ClientServerConnection, ServerClientConnection, \
    ServerContext, PacketHeader, Packet, PacketType, RetryMode, ConnectionStatus
from mpgameserver.handler import EventHandler

now = [time.time()]
clock = lambda: now[0]

ctxt = ServerContext(EventHandler(), None)
client = ClientServerConnection(('10.0.0.1', 4000)); client.clock = clock
server = ServerClientConnection(ctxt, ('10.0.0.1', 4000)); server.clock = clock
ctxt.temp_connections[server.addr] = server

def c2s():
    now[0] += 0.02
    pkt = client._build_packet()
    d = client._encode_packet(pkt)
    assert len(d) <= Packet.MTU - 28
    server._recv_datagram(PacketHeader.from_bytes(True, d), d)
    return d
def s2c():
    now[0] += 0.02
    pkt = server._build_packet()
    d = server._encode_packet(pkt)
    client._recv_datagram(PacketHeader.from_bytes(False, d), d)

# regular three way handshake, nothing forged
client._sendClientHello(); c2s(); s2c(); c2s()
assert server.status == ConnectionStatus.CONNECTED and client.status == ConnectionStatus.CONNECTED

# the hostile datagram: as many 6 byte fragment headers as fit in one datagram
n = 0
while Packet.overhead(n + 2) + 6 * (n + 1) <= Packet.MAX_PAYLOAD_SIZE + 2 and n < 255:
    n += 1
for frag_id in range(1, n + 1):
    client._send_type(PacketType.APP_FRAGMENT, struct.pack(">HHH", frag_id, 2, 65535), RetryMode.NONE, None)

tracemalloc.start()
before = tracemalloc.get_traced_memory()[0]
t0 = time.perf_counter()
datagram = c2s()
dt = time.perf_counter() - t0
after = tracemalloc.get_traced_memory()[0]
tracemalloc.stop()

held = after - before
slots = sum(len(r.fragments) for r in server.received_fragments.values())
lifetime = max(1.0 + .5 * r.frag_count for r in server.received_fragments.values())
print("hostile datagram: %d bytes, %d fragment messages" % (len(datagram), n))
print("server now holds %d reassembly contexts with %d slots, %.1f MB retained (%.0f x the datagram size)" % (
    len(server.received_fragments), slots, held / 1e6, held / len(datagram)))
print("contexts are kept for %.0f s; messages delivered to the application: %d" % (lifetime, len(server.incoming_messages)))
print("receive took %.3f s" % dt)

if held > 100 * len(datagram):
    print("VIOLATION: decoding one %d byte datagram allocated and retained %d bytes" % (len(datagram), held))
    sys.exit(1)
print("ok")

"""
C09: encoding then decoding any packet (all header field values, encrypted or
CRC form) returns the same header and messages.

Packet.to_bytes(key) writes the CRC form only for SERVER_HELLO; a packet of type
CLIENT_HELLO is AES-GCM encrypted when a key is given.  Packet.from_bytes(hdr,
key, datagram) however treats BOTH hello types as CRC form.  A CLIENT_HELLO
packet encoded with a key therefore cannot be decoded with the same key
("crc error"); every other packet type round trips.

Second, smaller asymmetry: PacketHeader.isServer is documented as "True when it
is the server constructing the header" but from_bytes() sets it to "the datagram
is addressed to the server", so the field never survives a round trip.
"""
import sys, os
sys.path.insert(0, os.getcwd())
from mpgameserver.connection import Packet, PacketHeader, PacketType, PendingMessage, SeqNum

key = b"0123456789abcdef"
failed = False
for name in ("UNKNOWN", "CLIENT_HELLO", "SERVER_HELLO", "CHALLENGE_RESP", "KEEP_ALIVE", "DISCONNECT", "APP", "APP_FRAGMENT"):
    pt = getattr(PacketType, name)
    for k in (None, key):
        hdr = PacketHeader.create(False, 1700000000, pt, SeqNum(7), SeqNum(3), 0x80000001)
        msgs = [PendingMessage(SeqNum(9), pt, b"payload", None, 0)]
        pkt = Packet.create(hdr, msgs)
        datagram = pkt.to_bytes(k)
        try:
            h2 = PacketHeader.from_bytes(True, datagram)
            p2 = Packet.from_bytes(h2, k, datagram)
            ok = [(m.seq, m.type.value, m.payload) for m in p2.msgs] == [(9, pt.value, b"payload")]
            res = "ok" if ok else "MISMATCH"
        except Exception as e:
            ok = False
            res = "decode raised %s: %s" % (type(e).__name__, e)
        if not ok:
            failed = True
            print("VIOLATION %-14s %-9s -> %s" % (name, "key" if k else "no key", res))

hdr = PacketHeader.create(True, 1, PacketType.APP, SeqNum(1), SeqNum(1), 0)
back = PacketHeader.from_bytes(False, Packet.create(hdr, []).to_bytes(key))
print("header created with isServer=%r decodes with isServer=%r" % (hdr.isServer, back.isServer))
if back.isServer != hdr.isServer:
    failed = True
    print("VIOLATION: header field isServer is not preserved by to_bytes/from_bytes")
sys.exit(1 if failed else 0)

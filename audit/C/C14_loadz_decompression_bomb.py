"""
C14: decoding hostile bytes never allocates beyond a small multiple of the
input size.

Serializable.loadz() (the counterpart of dumpz()) wraps the input in
gzip.open() and runs the ordinary decoder on the decompressed stream.  The
per-string limit (1 MiB) and per-sequence limit (16384 items) apply to the
DECOMPRESSED data, there is no limit on the total, so a few kilobytes of input
decode into tens of megabytes (up to 16384 x 1 MiB per sequence level).
(loadz/dumpz are tagged 'private' in their docstring, they are nevertheless
public methods of Serializable.)
"""
import sys, os, gzip, struct, tracemalloc
sys.path.insert(0, os.getcwd())
from io import BytesIO
from mpgameserver.serializable import Serializable, SerializableBaseTypes as T

N = 48                      # number of strings (limit would be 16384)
L = 2**20                   # each exactly at the 1 MiB string limit
raw = BytesIO()
raw.write(struct.pack(">H", T.seq_t) + struct.pack(">Hb", T.int8_t, N))
for i in range(N):
    raw.write(struct.pack(">H", T.bytes_t) + struct.pack(">Hl", T.int32_t, L))
    raw.write(b"\x00" * L)
bomb = gzip.compress(raw.getvalue(), 9)
del raw

tracemalloc.start()
value = Serializable.loadz(bomb)
cur, peak = tracemalloc.get_traced_memory()
tracemalloc.stop()
size = sum(len(v) for v in value)
print("input %d bytes -> decoded value holds %d bytes (peak traced memory %d), factor %.0f" % (
    len(bomb), size, peak, size / len(bomb)))
if size > 100 * len(bomb):
    print("VIOLATION: loadz allocated %.0f times the size of its input" % (size / len(bomb)))
    sys.exit(1)

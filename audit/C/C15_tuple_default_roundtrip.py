"""
C15: fromJson(toJson(x)) / loads(dumps(x)) must reproduce x, including empty
containers.

Serializable.__init__ replaces every Tuple[...] annotated field by an empty
tuple (the class level default, e.g. (0, 0) in the documented PlayerPosition
example, is discarded).  toJson() pads the empty tuple to [None, None] and
fromJson() then feeds None to the element constructor: int(None) raises
TypeError, an enum element raises AttributeError and a str element silently
becomes the text 'None'.  So a freshly constructed object does not survive the
typed JSON round trip.
"""
import sys, os
sys.path.insert(0, os.getcwd())
from typing import Tuple
from mpgameserver.serializable import Serializable, SerializableEnum

class Direction(SerializableEnum):
    LEFT = 1
    RIGHT = 2

# the example class of the module documentation
class PlayerPosition(Serializable):
    position: Tuple[int, int] = (0, 0)
    facing: Direction = Direction.LEFT

class Label(Serializable):
    parts: Tuple[str, str] = None

class Facing(Serializable):
    pair: Tuple[Direction, Direction] = None

failed = False
for cls, field in ((PlayerPosition, 'position'), (Label, 'parts'), (Facing, 'pair')):
    x = cls()
    print("%s(): %s = %r, toJson() = %r" % (cls.__name__, field, getattr(x, field), x.toJson()))
    for name, fn in (("fromJson(toJson(x))", lambda: cls.fromJson(x.toJson())),
                     ("loads(dumps(x))", lambda: cls.loads(x.dumps()))):
        try:
            y = fn()
        except Exception as e:
            print("  VIOLATION %s raised %s: %s" % (name, type(e).__name__, e))
            failed = True
            continue
        if getattr(y, field) != getattr(x, field):
            print("  VIOLATION %s changed %s: %r -> %r" % (name, field, getattr(x, field), getattr(y, field)))
            failed = True

sys.exit(1 if failed else 0)

"""
C13: decode(encode(v)) == v for user classes with any field mix.

The metaclass collects every public, non-callable name of the class body as a
field.  A read-only @property is not callable, so it is recorded in _fields:
encode writes the computed value as if it was a field and decode then fails for
every instance with AttributeError (setattr on a property without a setter).
"""
import sys, os
sys.path.insert(0, os.getcwd())
from mpgameserver.serializable import Serializable

class Box(Serializable):
    w: int = 1
    h: int = 1

    @property
    def area(self):
        return self.w * self.h

b = Box(w=3, h=4)
print("Box._fields =", Box._fields)
data = b.dumpb()
try:
    c = Serializable.loadb(data)
    assert (c.w, c.h) == (3, 4)
    print("ok")
except Exception as e:
    print("VIOLATION: Box(w=3, h=4) encodes to %d bytes but cannot be decoded: %s: %s" % (len(data), type(e).__name__, e))
    sys.exit(1)

"""
C13: decode(encode(v)) == v for SerializableEnum members.

An enum member is encoded as its underlying value and SerializableEnum.deserialize
stores whatever comes back without mapping it to a member.  For a member whose
value is a tuple (comes back as a list) or a float that is not exactly
representable in float32 the decoded object is not equal to the member, is not a
member of the enum at all, and name()/repr()/hash() raise on it.
"""
import sys, os
sys.path.insert(0, os.getcwd())
from io import BytesIO
from mpgameserver.serializable import Serializable, SerializableEnum, serialize_value, deserialize_value

class Step(SerializableEnum):
    UP = (0, -1)
    DOWN = (0, 1)

class Ratio(SerializableEnum):
    HALF = 0.5
    TENTH = 0.1

class Move(Serializable):
    step: Step = Step.UP
    ratio: Ratio = Ratio.HALF

def roundtrip(v):
    s = BytesIO(); serialize_value(s, v)
    s.seek(0)
    return deserialize_value(s)

failed = False
for member in (Step.UP, Step.DOWN, Ratio.HALF, Ratio.TENTH):
    d = roundtrip(member)
    ok = type(d) is type(member) and d.value == member.value and d == member
    print("%r -> value %r  equal=%s" % (member, d.value, ok))
    if not ok:
        failed = True
        for op in (repr, hash, lambda e: e.name()):
            try:
                op(d)
            except Exception as e:
                print("    decoded member unusable: %s: %s" % (type(e).__name__, e))

m = Move(step=Step.DOWN, ratio=Ratio.TENTH)
d = Serializable.loadb(m.dumpb())
if not (d.step == m.step and d.ratio == m.ratio):
    print("VIOLATION: Move(step=DOWN, ratio=TENTH) decoded with step.value=%r ratio.value=%r" % (d.step.value, d.ratio.value))
    failed = True

sys.exit(1 if failed else 0)

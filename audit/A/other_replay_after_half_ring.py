"""
OUT OF SCOPE of C01-C03 (the datagram IS produced with the session key), noted
because it was found while auditing C01: replay of a recorded genuine datagram
after the sender has emitted more than 32767 further datagrams (about 9 minutes
at the 60 Hz send rate).

SeqNum.diff() wraps at half the 16-bit ring, so the old datagram looks NEWER
than the current one.  _recv_datagram accepts it, its message is delivered to
the application a second time, the datagram window jumps back to the old
number, and from then on every genuine datagram looks >32 datagrams too old and
is dropped: one replayed datagram wedges the connection until it times out.

run: cd /tmp/wta-A && /venv/bin/python _audit/other_replay_after_half_ring.py
"""
import os, sys, logging
sys.path.insert(0, os.getcwd())
logging.disable(logging.CRITICAL)
from mpgameserver import ServerContext, EventHandler
from mpgameserver.connection import (ClientServerConnection, ServerClientConnection,
    PacketHeader, ConnectionStatus)

class Clock:
    def __init__(self): self.t = 1000.0
    def __call__(self): return self.t
clock = Clock()
ctxt = ServerContext(EventHandler())
client = ClientServerConnection(("10.0.0.2", 1474))
client.setServerPublicKey(ctxt.server_root_key.getPublicKey())
server = ServerClientConnection(ctxt, ("10.0.0.1", 5000))
client.clock = server.clock = clock
ctxt.temp_connections[server.addr] = server

def from_client():
    clock.t += 1/50
    return client._encode_packet(client._build_packet())
def from_server():
    pkt, key, addr = server.update()
    return pkt.to_bytes(key)
def to_server(d): return server._recv_datagram(PacketHeader.from_bytes(True, d), d)
def to_client(d): return client._recv_datagram(PacketHeader.from_bytes(False, d), d)

client._sendClientHello()
to_server(from_client()); clock.t += .02
to_client(from_server()); to_server(from_client())
assert client.status == server.status == ConnectionStatus.CONNECTED

client.send(b"BUY 1 SWORD")
recorded = from_client()
assert to_server(recorded) and server.incoming_messages == [(3, b"BUY 1 SWORD")]
server.incoming_messages = []

for i in range(33000):                  # ordinary traffic, one message per datagram
    client.send(b"pos %d" % i)
    assert to_server(from_client())
    server.incoming_messages = []
    r = server.update()
    if r: to_client(r[0].to_bytes(r[1])); client.incoming_messages = []
print("session age %.0f s, server datagram window at %d" % (clock.t - 1000, server.bitfield_pkt.current_seqnum))

accepted = to_server(recorded)
print("replay of the recorded datagram accepted:", accepted, " delivered again:", server.incoming_messages)
print("server datagram window now at", int(server.bitfield_pkt.current_seqnum))
server.incoming_messages = []
ok = 0
for i in range(100):
    client.send(b"pos %d" % i)
    ok += bool(to_server(from_client()))
print("genuine datagrams accepted after the replay: %d of 100" % ok)
if accepted or ok != 100:
    print("FAIL: an old recorded datagram is accepted as new and wedges the connection")
    sys.exit(1)
print("ok")

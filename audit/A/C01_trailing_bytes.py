"""
C01 - a genuine datagram EXTENDED with attacker bytes is accepted.

Property C01 requires that every extension of a genuine datagram (bytes that
were not produced with the session key) is discarded without delivering a
message, acknowledging a send, or moving the receive windows / liveness clock.

Packet.from_bytes() only decrypts datagram[20 : 20+hdr.length+16]; everything
after the GCM tag is neither authenticated nor rejected.  An on-path attacker
who intercepts a genuine datagram D can therefore deliver D + <anything> and
the endpoint processes it exactly like D (and counts the forged bytes in its
statistics).

run: cd /tmp/wta-A && /venv/bin/python _audit/C01_trailing_bytes.py
"""
import os, sys, logging
sys.path.insert(0, os.getcwd())
logging.disable(logging.CRITICAL)

from mpgameserver import ServerContext, EventHandler
from mpgameserver.connection import (ClientServerConnection, ServerClientConnection,
    PacketHeader, ConnectionStatus, RetryMode)

class Clock:
    def __init__(self): self.t = 1000.0
    def __call__(self): return self.t

clock = Clock()
ctxt = ServerContext(EventHandler())
client = ClientServerConnection(("10.0.0.2", 1474))
client.setServerPublicKey(ctxt.server_root_key.getPublicKey())
server = ServerClientConnection(ctxt, ("10.0.0.1", 5000))
client.clock = server.clock = clock
ctxt.temp_connections[server.addr] = server

def from_client():
    clock.t += 0.02
    return client._encode_packet(client._build_packet())

def from_server():
    clock.t += 0.02
    pkt, key, addr = server.update()
    return pkt.to_bytes(key)

def to_server(d):
    return server._recv_datagram(PacketHeader.from_bytes(True, d), d)

def to_client(d):
    return client._recv_datagram(PacketHeader.from_bytes(False, d), d)

def snap(conn):
    return dict(
        key=conn.session_key_bytes, status=conn.status,
        liveness_clock=conn.last_recv_time,
        datagram_window=(int(conn.bitfield_pkt.current_seqnum), conn.bitfield_pkt.bits),
        message_window=(int(conn.bitfield_msg.current_seqnum), conn.bitfield_msg.bits),
        delivered=list(conn.incoming_messages),
        unacked_sends=sorted(conn.pending_acks),
        acked=conn.stats.acked, timeouts=conn.stats.timeouts,
        bytes_recv=sum(conn.stats.bytes_recv),
    )

# honest handshake
client._sendClientHello()
to_server(from_client())
to_client(from_server())
to_server(from_client())
assert client.status == server.status == ConnectionStatus.CONNECTED
assert client.session_key_bytes == server.session_key_bytes

failures = []

# ---- towards the server ------------------------------------------------
acks = []
client.send(b"client-order-1", retry=RetryMode.NONE)
D = from_client()                      # intercepted by the attacker, never delivered
forged = D + b"\x00"                   # one attacker byte appended
before = snap(server)
accepted = to_server(forged)
after = snap(server)
changed = {k: (before[k], after[k]) for k in before if before[k] != after[k]}
print("server: genuine datagram of %d bytes + 1 attacker byte -> _recv_datagram returned %r" % (len(D), accepted))
for k, v in changed.items():
    print("   server.%s: %r -> %r" % (k, v[0], v[1]))
if accepted or changed:
    failures.append("server accepted an extended datagram")

# ---- towards the client (also acknowledges the client's pending send) ----
client.send(b"client-order-2", retry=RetryMode.BEST_EFFORT, callback=acks.append)
to_server(from_client())
server.incoming_messages = []
server.send(b"server-state-1")
D2 = from_server()                     # intercepted
forged2 = D2 + os.urandom(600)         # 600 attacker bytes appended
before = snap(client)
accepted = to_client(forged2)
after = snap(client)
changed = {k: (before[k], after[k]) for k in before if before[k] != after[k]}
print("client: genuine datagram of %d bytes + 600 attacker bytes -> _recv_datagram returned %r" % (len(D2), accepted))
for k, v in changed.items():
    print("   client.%s: %r -> %r" % (k, v[0], v[1]))
print("   client send callback results:", acks)
if accepted or changed:
    failures.append("client accepted an extended datagram")

# control: any other modification of the same datagram is rejected
clock.t += 0.02
server.send(b"server-state-2")
D3 = from_server()
assert to_client(D3[:-1]) is False and to_client(D3[:-1] + b"\x00") is False

if failures:
    print("FAIL (C01): " + "; ".join(failures))
    print("expected: an extension of a genuine datagram is discarded; nothing is delivered, "
          "acknowledged, and neither the windows nor the liveness clock move")
    sys.exit(1)
print("ok")

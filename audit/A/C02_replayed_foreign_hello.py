"""
C02 - a server-hello recorded from ANOTHER handshake connects a client.

The root-key signature in the server-hello covers only (server ephemeral key,
salt, token).  It is not bound to the client-hello it answers (no client key,
no nonce, no time).  A hello that the server once issued to somebody else -
here to the attacker's own, perfectly ordinary connection - can be replayed to
any client configured with the server's public key, at any later time, without
the server taking part at all:

  * UdpClient reports connected()==True and calls the connect callback with True
  * it adopts a session key that no server-side connection holds
  * it adopts the token of the attacker's session
  * the server never saw the victim and never reported it as connected

Property C02: "an altered, re-signed or foreign hello leaves it unconnected
with no key.  After an honest handshake both ends hold the same 16-byte key
and token" - must hold under every substitution/duplication of handshake
datagrams by an active attacker who knows everything but the private keys.

run: cd /tmp/wta-A && /venv/bin/python _audit/C02_replayed_foreign_hello.py
"""
import os, sys, logging
sys.path.insert(0, os.getcwd())
logging.disable(logging.CRITICAL)

import mpgameserver.client as client_module
from mpgameserver import ServerContext, EventHandler, UdpClient
from mpgameserver.crypto import EllipticCurvePrivateKey
from mpgameserver.connection import (ClientServerConnection, ServerClientConnection,
    PacketHeader, PacketType, ConnectionStatus)

class Handler(EventHandler):
    def __init__(self): self.connected = []
    def connect(self, client): self.connected.append(client.addr)

root = EllipticCurvePrivateKey.new()
root_pub = root.getPublicKey()

# ---------------------------------------------------------------------
# 1. the attacker connects once, like any client, and keeps the hello
# ---------------------------------------------------------------------
handler = Handler()
ctxt = ServerContext(handler, root)
ATTACKER = ("6.6.6.6", 666)
att = ClientServerConnection(("10.0.0.1", 1474))
att.setServerPublicKey(root_pub)
att_srv = ServerClientConnection(ctxt, ATTACKER)
ctxt.temp_connections[ATTACKER] = att_srv
class Clock:
    def __init__(self): self.t = 1000.0
    def __call__(self):
        self.t += 0.05
        return self.t
att.clock = att_srv.clock = Clock()
att._sendClientHello()
d = att._encode_packet(att._build_packet())
att_srv._recv_datagram(PacketHeader.from_bytes(True, d), d)
pkt, key, _ = att_srv.update()
RECORDED_HELLO = pkt.to_bytes(key)
assert PacketHeader.from_bytes(False, RECORDED_HELLO).pkt_type == PacketType.SERVER_HELLO
att._recv_datagram(PacketHeader.from_bytes(False, RECORDED_HELLO), RECORDED_HELLO)
d = att._encode_packet(att._build_packet())
att_srv._recv_datagram(PacketHeader.from_bytes(True, d), d)
assert handler.connected == [ATTACKER]

# the attacker's session ends; the server forgets it
att_srv.disconnect()
del ctxt.connections[ATTACKER]
assert not ctxt.connections and not ctxt.temp_connections

# ---------------------------------------------------------------------
# 2. a victim client (public API, fake socket) tries to connect; the
#    attacker swallows its hello and answers with the recorded hello
# ---------------------------------------------------------------------
class FakeSocket(object):
    def __init__(self): self.rx = []; self.tx = []
    def sendto(self, datagram, addr): self.tx.append(datagram)   # attacker drops it
    def recvfrom(self, n): return self.rx.pop(0), ("10.0.0.1", 1474)
    def close(self): pass

class FakeSelect(object):
    @staticmethod
    def select(r, w, x, timeout=None):
        return ([s for s in r if s.rx], list(w), [])
client_module.select = FakeSelect

class Victim(UdpClient):
    def _make_socket(self, addr):
        return FakeSocket()

results = []
victim = Victim(server_public_key=root_pub)
victim.connect(("10.0.0.1", 1474), callback=results.append)
victim.update()                                    # client-hello goes out (and is lost)
assert len(victim.sock.tx) == 1 and not victim.connected()
victim.sock.rx.append(RECORDED_HELLO)              # replay of the foreign hello
victim.update()

server_keys = [c.session_key_bytes for pool in (ctxt.connections, ctxt.temp_connections) for c in pool.values()]
print("victim.connected()                :", victim.connected())
print("victim connect callback calls      :", results)
print("victim session key                 :", victim.conn.session_key_bytes and victim.conn.session_key_bytes.hex())
print("victim token / attacker's old token:", victim.token(), "/", att.token)
print("server connections (any pool)      :", len(server_keys))
print("server handler.connect() calls     :", handler.connected)
print("datagrams the server received from the victim: 0")

bad = []
if victim.connected() or results == [True]:
    bad.append("client reports connected from a hello that belongs to another handshake")
if victim.conn.session_key_bytes is not None:
    bad.append("client adopted a session key (is it held by any server connection: %r)"
               % (victim.conn.session_key_bytes in server_keys))
if bad:
    print("FAIL (C02): " + "; ".join(bad))
    print("expected: a foreign hello leaves the client unconnected with no key")
    sys.exit(1)
print("ok")

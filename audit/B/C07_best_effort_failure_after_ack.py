"""
C07: with RetryMode.BEST_EFFORT the send callback reports FAILURE for a message
that was acknowledged - i.e. not "only after the message timeout has elapsed
without an acknowledgement".

A BEST_EFFORT message is re-sent every resend interval in a new datagram, and
_build_packet_impl registers the user callback once per datagram that carries
the message.  _handle_ack only resolves the acked datagram; the callback stays
registered under the older datagrams that carried the same message, and when
those run into outgoing_timeout the callback is called with False.

 (a) single datagram message: first datagram lost, second copy (0.1 s later)
     delivered and acked -> callback(True) ... and 0.9 s later callback(False)
     for the very same message.
 (b) fragmented message (FragmentSender.callback stores the LAST result of
     every fragment): the datagram with the first copy of fragment 1 is lost,
     its second copy is acked, every other fragment is acked; when the lost
     datagram times out the stored True of fragment 1 is overwritten by False,
     and the user callback fires once with False although the peer application
     has the complete message and every fragment was acknowledged.

(The RetryMode documentation only warns that a message may be received while
the ACK is missing; here the ack arrived and was processed.)
"""
import os, sys, heapq, itertools, time, logging
sys.path.insert(0, os.getcwd())
logging.disable(logging.CRITICAL)

from mpgameserver.connection import (Packet, PacketHeader, ConnectionStatus,
    ClientServerConnection, ServerClientConnection, ServerContext, RetryMode)
from mpgameserver.handler import EventHandler

FRAME = 1.0 / 60


class World(object):
    def __init__(self, latency):
        self.now = float(int(time.time()) + 100)
        self.latency = latency
        self.n = itertools.count()
        self.to_server = []
        self.to_client = []
        self.lose = lambda pkt: False      # client -> server loss rule, sees the Packet
        clock = lambda: self.now
        self.client = ClientServerConnection(('10.0.0.1', 1234))
        self.client.clock = clock
        self.client.send_keep_alive_interval = 0.1
        self.ctxt = ServerContext(EventHandler(), None)
        self.server = ServerClientConnection(self.ctxt, ('10.0.0.1', 1234))
        self.server.clock = clock
        self.server.send_keep_alive_interval = self.ctxt.keep_alive_interval
        self.server.outgoing_timeout = self.ctxt.outgoing_timeout
        self.ctxt.temp_connections[self.server.addr] = self.server
        self.client._sendClientHello()
        d = self.client._encode_packet(self.client._build_packet())
        self.server._recv_datagram(PacketHeader.from_bytes(True, d), d)
        self.now += 2 * FRAME
        d = self.server._encode_packet(self.server._build_packet())
        self.client._recv_datagram(PacketHeader.from_bytes(False, d), d)
        self.now += 2 * FRAME
        d = self.client._encode_packet(self.client._build_packet())
        self.server._recv_datagram(PacketHeader.from_bytes(True, d), d)
        assert self.client.status == ConnectionStatus.CONNECTED
        assert self.server.status == ConnectionStatus.CONNECTED
        self.now += 2 * FRAME

    def step(self):
        self.now += FRAME
        c = self.client                         # == UdpClient.update
        c.update()
        while self.to_client and self.to_client[0][0] <= self.now:
            d = heapq.heappop(self.to_client)[2]
            c._recv_datagram(PacketHeader.from_bytes(False, d), d)
        t0 = c.clock()
        if t0 - c.last_send_time > c.send_interval:
            pkt = c._build_packet()
            if pkt is not None:
                d = c._encode_packet(pkt)
                if not self.lose(pkt):
                    heapq.heappush(self.to_server, (self.now + self.latency, next(self.n), d))
            c._check_timeout(t0)
        s = self.server                         # == server loop
        while self.to_server and self.to_server[0][0] <= self.now:
            d = heapq.heappop(self.to_server)[2]
            s._recv_datagram(PacketHeader.from_bytes(True, d), d)
        out = s.update()
        if out is not None:
            pkt, key, addr = out
            heapq.heappush(self.to_client, (self.now + self.latency, next(self.n), pkt.to_bytes(key)))


def case_single():
    w = World(latency=0.010)
    payload = b"best effort message"
    lost = []
    def lose(pkt):
        # lose exactly the first datagram that carries the message
        if not lost and any(m.payload == payload for m in pkt.msgs):
            lost.append(int(pkt.hdr.seq))
            return True
        return False
    w.lose = lose
    calls = []
    delivered = []
    t_send = w.now
    w.client.send(payload, retry=RetryMode.BEST_EFFORT,
                  callback=lambda ok: calls.append((round(w.now - t_send, 3), ok)))
    for _ in range(150):
        w.step()
        delivered += [round(w.now - t_send, 3) for s, m in w.server.incoming_messages if m == payload]
        w.server.incoming_messages = []
    print("(a) single datagram BEST_EFFORT message, first datagram (seq %s) lost" % lost)
    print("    delivered to the peer application at t=%s" % delivered)
    print("    callback calls (t, success): %s" % calls)
    bad = False
    seen_true = False
    for t, ok in calls:
        if ok:
            seen_true = True
        elif seen_true:
            bad = True
    if bad:
        print("    VIOLATION: the callback reported success (the ack arrived) and afterwards"
              " reported failure for the same message")
    return bad


def case_fragmented():
    w = World(latency=0.010)
    payload = os.urandom(100 * 1024)        # 100 fragments: 1.7 s to send
    lost = []
    def lose(pkt):
        # lose exactly the first datagram that carries fragment 1
        if not lost and any(m.type.value == 7 and m.payload[2:4] == b"\x00\x01" for m in pkt.msgs):
            lost.append(int(pkt.hdr.seq))
            return True
        return False
    w.lose = lose
    calls = []
    delivered = []
    t_send = w.now
    w.client.send(payload, retry=RetryMode.BEST_EFFORT,
                  callback=lambda ok: calls.append((round(w.now - t_send, 3), ok)))
    sender = list(w.client.pending_fragments.values())[0]
    history = []                            # results recorded for fragment 1
    orig = sender.callback
    def spy(index, success):
        if index == 0:
            history.append((round(w.now - t_send, 3), success))
        return orig(index, success)
    sender.callback = spy
    for _ in range(300):
        w.step()
        delivered += [round(w.now - t_send, 3) for s, m in w.server.incoming_messages if m == payload]
        w.server.incoming_messages = []
    print("(b) fragmented BEST_EFFORT message of %d bytes, first datagram with fragment 1 (seq %s) lost"
          % (len(payload), lost))
    print("    results reported for fragment 1 (t, success): %s" % history)
    print("    complete message handed to the peer application at t=%s" % delivered)
    print("    user callback calls (t, success): %s" % calls)
    bad = bool(delivered) and any(ok for t, ok in history) and calls == [(calls[0][0], False)] if calls else False
    if bad:
        print("    VIOLATION: every fragment was acknowledged and the peer has the whole message,"
              " yet the one callback says failure")
    return bad


def main():
    a = case_single()
    b = case_fragmented()
    if a or b:
        print("\nFAIL: BEST_EFFORT callback reports failure after/despite the acknowledgement")
        sys.exit(1)
    print("no violation")


if __name__ == '__main__':
    main()

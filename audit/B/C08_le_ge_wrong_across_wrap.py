"""
C08: the newer/older comparison of two sequence numbers is wrong across the
wrap for the operators <= and >=.

SeqNum overrides __lt__ and __gt__ with the ring comparison (and diff /
newer_than are right), but __le__ and __ge__ are inherited from int and compare
the raw values.  For every pair that straddles the 65535 -> 1 wrap (and is far
less than half the ring apart) the four operators contradict each other:

    SeqNum(65535) <  SeqNum(1)  -> True    (right: 1 is the successor of 65535)
    SeqNum(65535) <= SeqNum(1)  -> False   (wrong)
    SeqNum(1)     >  SeqNum(65535) -> True
    SeqNum(1)     >= SeqNum(65535) -> False (wrong)

The message sequence number handed to EventHandler.handle_message /
UdpClient.getMessage is a SeqNum, so the usual "ignore a state update that is
not newer than the last one":  `if seqnum <= self.last_seq: return`  throws
away every message after the wrap (or accepts stale ones with >=).

The check below is exhaustive over all 65535 values for a set of offsets and
over all offsets 1..32767 for a set of values; <, >, diff, newer_than, +, -
are checked in the same loop and are right everywhere.
"""
import os, sys, random
sys.path.insert(0, os.getcwd())
from mpgameserver.connection import SeqNum

M = 65535


def ring_add(a, k):
    return (a - 1 + k) % M + 1


def main():
    bad = {}

    def chk(name, cond, info):
        if not cond:
            bad.setdefault(name, []).append(info)

    def one(a, k):
        # b is k steps newer than a, 1 <= k <= 32767 (less than half the ring)
        b = ring_add(a, k)
        A, B = SeqNum(a), SeqNum(b)
        chk('+', A + k == b and int(A + k) != 0, (a, k))
        chk('-', B - k == a and int(B - k) != 0, (a, k))
        chk('diff', B.diff(A) == k and A.diff(B) == -k, (a, b))
        chk('newer_than', B.newer_than(A) and not A.newer_than(B), (a, b))
        chk('<', (A < B) and not (B < A), (a, b))
        chk('>', (B > A) and not (A > B), (a, b))
        chk('<=', (A <= B) and not (B <= A), (a, b))
        chk('>=', (B >= A) and not (A >= B), (a, b))

    rnd = random.Random(1)
    values = [1, 2, 3, 32766, 32767, 32768, 32769, 65533, 65534, 65535] + \
             [rnd.randint(1, M) for _ in range(2)]
    for a in values:
        for k in range(1, 32768):
            one(a, k)
    for k in (1, 2, 32, 33, 256, 257, 32766, 32767):
        for a in range(1, M + 1):
            one(a, k)

    a, b = SeqNum(65535), SeqNum(1)
    print("SeqNum(65535) <  SeqNum(1):", a < b, "   SeqNum(65535) <= SeqNum(1):", a <= b)
    print("SeqNum(1)     >  SeqNum(65535):", b > a, "   SeqNum(1)     >= SeqNum(65535):", b >= a)
    print("SeqNum(1).newer_than(SeqNum(65535)):", b.newer_than(a), "  diff:", b.diff(a))

    # what an application sees: keep only updates that are newer than the last one
    last = None
    kept = 0
    seq = SeqNum(65530)
    for _ in range(12):                 # 65531 .. 65535, 1 .. 7 delivered in order
        seq = seq + 1
        if last is not None and seq <= last:
            continue                    # "stale update"
        last = seq
        kept += 1
    print("12 in-order messages 65531..7 filtered with `seq <= last`: kept %d of 12" % kept)

    for name in ('+', '-', 'diff', 'newer_than', '<', '>', '<=', '>='):
        v = bad.get(name, [])
        print("%-10s wrong for %7d checked pairs %s" % (name, len(v), ("e.g. (older, newer) = %s" % (v[:4],)) if v else ""))

    if bad:
        print("\nFAIL: operators %s give the wrong order across the wrap" % sorted(bad))
        sys.exit(1)
    print("no violation")


if __name__ == '__main__':
    main()

"""
C07 (cause in mpgameserver/client.py): UdpClient.update() reads AT MOST ONE
datagram from the socket per call, and the documentation says to call it once
per game frame.  The server sends one datagram per tick (60 Hz) to a client it
has something to say to.  As soon as the client has fewer frames than the
server has ticks - a 30 fps client, or a 60 fps client after a single hiccup of
two seconds - the datagrams pile up in the socket's receive buffer and are read
seconds after they arrived.  The acks they carry are therefore seconds old:
every datagram the client sent has already been resolved as "timed out"
(outgoing_timeout 1.0 s) when its ack is finally read, the late ack is ignored,
and

  * the callback of a guaranteed send never fires (the message reached the
    server application within one frame) and the message is re-transmitted for
    ever;
  * all other client datagrams are counted as timed out although none was lost.

The network in this program is perfect: no loss, no delay, no reordering.  The
only "delay" is the client's own unread receive buffer.

No real socket is used: UdpClient gets an in-memory socket object through
_make_socket, `select` inside mpgameserver.client is replaced by a function
that understands that object, and time.time is replaced by a simulated clock.
The library source is not touched.  The server side is a real
ServerClientConnection driven the way UdpServerThread.run drives it.
"""
import os, sys, collections, logging, time
sys.path.insert(0, os.getcwd())
logging.disable(logging.CRITICAL)

NOW = [float(int(time.time()) + 100)]
time.time = lambda: NOW[0]      # ConnectionBase.clock and FragmentReceiver read time.time

import mpgameserver.client as mpclient
from mpgameserver.client import UdpClient
from mpgameserver.connection import (PacketHeader, ConnectionStatus, PacketType,
    ServerClientConnection, ServerContext)
from mpgameserver.handler import EventHandler


class MemorySocket(object):
    """datagram socket in memory, with a bounded receive buffer like a real one"""
    def __init__(self, capacity):
        self.rx = collections.deque()
        self.capacity = capacity
        self.tx = []
        self.overflow = 0

    def deliver(self, datagram):
        if len(self.rx) >= self.capacity:
            self.overflow += 1          # what the kernel does when SO_RCVBUF is full
        else:
            self.rx.append(datagram)

    def recvfrom(self, n):
        return self.rx.popleft(), ('10.0.0.2', 1474)

    def sendto(self, datagram, addr):
        self.tx.append(datagram)

    def close(self):
        pass


class MemorySelect(object):
    @staticmethod
    def select(r, w, x, timeout=None):
        return [s for s in r if s.rx], list(w), []


mpclient.select = MemorySelect


def run(title, client_fps, pause=(99.0, 99.0), seconds=30.0, capacity=400):
    """server: 60 Hz (the loop overshoots its 1/60 s interval by 0.5 ms), sends a
    small unreliable world state message every tick.  client: calls update()
    once per frame.  at t=10 s the client sends one guaranteed message"""
    server_dt = 1 / 60 + 0.0005
    sock = MemorySocket(capacity)
    client = UdpClient()
    client._make_socket = lambda addr: sock
    ctxt = ServerContext(EventHandler(), None)
    addr = ('10.0.0.1', 1234)
    server = ServerClientConnection(ctxt, addr)
    server.send_keep_alive_interval = ctxt.keep_alive_interval
    server.outgoing_timeout = ctxt.outgoing_timeout
    ctxt.temp_connections[addr] = server

    T0 = NOW[0]
    client.connect(('10.0.0.2', 1474))
    calls = []
    delivered = []
    age = []            # (time, age of the world state the client application just got)
    st = {'tick': 0, 't_send': None, 'open': True}

    def server_tick():
        for d in sock.tx:
            hdr = PacketHeader.from_bytes(True, d)
            if server.status == ConnectionStatus.CONNECTED or \
                    hdr.pkt_type in (PacketType.CLIENT_HELLO, PacketType.CHALLENGE_RESP):
                server._recv_datagram(hdr, d)
        sock.tx = []
        for seq, m in server.incoming_messages:
            if m == b"guaranteed":
                delivered.append(round(NOW[0] - st['t_send'], 3))
        server.incoming_messages = []
        if server.status == ConnectionStatus.CONNECTED:
            st['tick'] += 1
            server.send(b"state %08d %.4f" % (st['tick'], NOW[0]))
            if server.timedout(ctxt.connection_timeout):
                st['open'] = False
        out = server.update()
        if out:
            pkt, key, a = out
            sock.deliver(pkt.to_bytes(key))

    def client_frame():
        t = NOW[0] - T0
        if not (pause[0] <= t < pause[1]):
            client.update()
            for seq, m in client.getMessages():
                age.append((round(t, 2), round(NOW[0] - float(m.split()[2]), 3)))
        if t > 2 and client.status() != ConnectionStatus.CONNECTED:
            st['open'] = False
        if t >= 10.0 and st['t_send'] is None:
            st['t_send'] = NOW[0]
            client.send_guaranteed(b"guaranteed",
                callback=lambda ok: calls.append((round(NOW[0] - st['t_send'], 3), ok)))

    ns = nc = 1
    while True:
        ts, tc = ns * server_dt, nc / client_fps
        if min(ts, tc) > seconds:
            break
        if ts <= tc:
            NOW[0] = T0 + ts
            server_tick()
            ns += 1
        else:
            NOW[0] = T0 + tc
            client_frame()
            nc += 1

    stats = client.stats()
    print(title)
    print("    connection open at both ends for the whole run: %s" % st['open'])
    print("    age of the world state handed to the client application (t, age in s): %s"
          % [age[i] for i in (10, len(age) // 4, len(age) // 2, len(age) - 1)])
    print("    unread datagrams in the client's socket buffer at the end: %d (dropped by the full buffer: %d)"
          % (len(sock.rx), sock.overflow))
    print("    client datagrams acked=%d timed out=%d (lost by the network: 0)" % (stats.acked, stats.timeouts))
    print("    guaranteed message sent at t=10 s: handed to the server application after %s s, callback calls: %s"
          % (delivered, calls))
    bad = st['open'] and bool(delivered) and not calls
    if bad:
        print("    VIOLATION: %.0f s after the peer accepted the message the guaranteed send's"
              " callback has not fired" % (seconds - 10))
    return bad


def main():
    ok = run("control: client at 60 fps, never stalls", 60.0)
    assert not ok
    a = run("(1) client at 30 fps", 30.0)
    b = run("(2) client at 60 fps, one stall of 2 s at t=3 s (e.g. loading a level)", 60.0, pause=(3.0, 5.0))
    if a or b:
        print("\nFAIL: reading one datagram per update() makes every ack arrive after the message timeout")
        sys.exit(1)
    print("no violation")


if __name__ == '__main__':
    main()

"""
C05 (and C07): a guaranteed message whose size is close to the single-datagram
limit is never put into any datagram while the application keeps sending small
reliable messages and the round trip is longer than the resend interval.

_build_packet_impl fills every datagram FIRST with the messages of
pending_retry_msg whose resend interval (send_keep_alive_interval, 0.1 s) has
elapsed, and only then walks outgoing_messages, skipping every message that no
longer fits.  A payload of MAX_PAYLOAD_SIZE bytes (or the large final fragment
of a fragmented message) only fits into an EMPTY datagram.  With one small
guaranteed/best-effort message per frame and a round trip > 0.1 s there is a
resend due in every frame, so no datagram is ever empty: the large message
stays in outgoing_messages for ever, is not delivered and its callback never
fires - on a network that loses nothing.

Real ClientServerConnection / ServerClientConnection after a real handshake,
fake clock, lossless network with a constant one-way latency.  The client side
is driven exactly like UdpClient.update, the server side like the server loop.
"""
import os, sys, heapq, itertools, time, logging
sys.path.insert(0, os.getcwd())
logging.disable(logging.CRITICAL)

from mpgameserver.connection import (Packet, PacketHeader, ConnectionStatus,
    ClientServerConnection, ServerClientConnection, ServerContext, RetryMode)
from mpgameserver.handler import EventHandler

FRAME = 1.0 / 60


class World(object):
    def __init__(self, latency):
        # start at the real time: FragmentReceiver.expired() reads time.time()
        self.now = float(int(time.time()) + 100)
        self.latency = latency
        self.n = itertools.count()
        self.to_server = []
        self.to_client = []
        clock = lambda: self.now
        self.client = ClientServerConnection(('10.0.0.1', 1234))
        self.client.clock = clock
        self.client.send_keep_alive_interval = 0.1     # UdpClient default
        self.ctxt = ServerContext(EventHandler(), None)
        self.server = ServerClientConnection(self.ctxt, ('10.0.0.1', 1234))
        self.server.clock = clock
        self.server.send_keep_alive_interval = self.ctxt.keep_alive_interval
        self.server.outgoing_timeout = self.ctxt.outgoing_timeout
        self.ctxt.temp_connections[self.server.addr] = self.server
        # handshake
        self.client._sendClientHello()
        d = self.client._encode_packet(self.client._build_packet())
        self.server._recv_datagram(PacketHeader.from_bytes(True, d), d)
        self.now += 2 * FRAME
        d = self.server._encode_packet(self.server._build_packet())
        self.client._recv_datagram(PacketHeader.from_bytes(False, d), d)
        self.now += 2 * FRAME
        d = self.client._encode_packet(self.client._build_packet())
        self.server._recv_datagram(PacketHeader.from_bytes(True, d), d)
        assert self.client.status == ConnectionStatus.CONNECTED
        assert self.server.status == ConnectionStatus.CONNECTED
        self.now += 2 * FRAME

    def client_update(self):            # == UdpClient.update
        c = self.client
        c.update()
        while self.to_client and self.to_client[0][0] <= self.now:
            d = heapq.heappop(self.to_client)[2]
            c._recv_datagram(PacketHeader.from_bytes(False, d), d)
        t0 = c.clock()
        if t0 - c.last_send_time > c.send_interval:
            pkt = c._build_packet()
            if pkt is not None:
                d = c._encode_packet(pkt)
                heapq.heappush(self.to_server, (self.now + self.latency, next(self.n), d))
            c._check_timeout(t0)

    def server_update(self):            # == UdpServerThread.run for one client
        s = self.server
        while self.to_server and self.to_server[0][0] <= self.now:
            d = heapq.heappop(self.to_server)[2]
            s._recv_datagram(PacketHeader.from_bytes(True, d), d)
        out = s.update()
        if out is not None:
            pkt, key, addr = out
            heapq.heappush(self.to_client, (self.now + self.latency, next(self.n), pkt.to_bytes(key)))

    def step(self):
        self.now += FRAME
        self.client_update()
        self.server_update()


def scenario(big_size, latency, seconds=30, small_until=None, server_talks=False):
    """the client sends a 20 byte guaranteed message every frame ("player input")
    and, after one second, ONE guaranteed message of big_size bytes"""
    w = World(latency)
    big = bytes([66]) * big_size
    result = {'delivered_at': None, 'deliveries': 0, 'callback': [], 'small_sent': 0, 'small_recv': 0}
    t_big = None
    for frame in range(int(seconds * 60)):
        w.step()
        if small_until is None or frame < small_until * 60:
            w.client.send(b"s" * 20, retry=RetryMode.RETRY_ON_TIMEOUT)
            result['small_sent'] += 1
        if server_talks:
            w.server.send(b"state" * 4)        # unreliable world state every tick
        if frame == 60:
            t_big = w.now
            w.client.send(big, retry=RetryMode.RETRY_ON_TIMEOUT,
                          callback=lambda ok: result['callback'].append((round(w.now - t_big, 3), ok)))
        for seq, m in w.server.incoming_messages:
            if m == big:
                result['deliveries'] += 1
                if result['delivered_at'] is None:
                    result['delivered_at'] = round(w.now - t_big, 3)
            elif m == b"s" * 20:
                result['small_recv'] += 1
            else:
                raise AssertionError("fabricated message")
        w.server.incoming_messages = []
        w.client.incoming_messages = []
    result['still_queued'] = sum(1 for m in w.client.outgoing_messages if len(m.payload) >= 1000)
    result['status'] = (w.client.status, w.server.status)
    result['timeouts'] = (w.client.stats.timeouts, w.server.stats.timeouts)
    return result


def main():
    P = Packet.MAX_PAYLOAD_SIZE
    failures = []

    print("MAX_PAYLOAD_SIZE =", P)
    print("control: same traffic, one-way latency 20 ms (round trip < resend interval)")
    r = scenario(P, 0.020)
    print("   ", r)
    assert r['delivered_at'] is not None and r['callback'] == [(r['callback'][0][0], True)]

    print("control: one-way latency 100 ms, but the large message is only 1000 bytes")
    r = scenario(1000, 0.100)
    print("   ", r)
    assert r['delivered_at'] is not None

    cases = [
        ("payload of MAX_PAYLOAD_SIZE bytes, one-way latency 100 ms, silent server", P, 0.100, False),
        ("payload of MAX_PAYLOAD_SIZE bytes, one-way latency 100 ms, server sends state every tick", P, 0.100, True),
        ("payload of 1400 bytes, one-way latency 70 ms, silent server", 1400, 0.070, False),
        ("fragmented payload of 1024+1410 bytes (large final fragment), one-way latency 100 ms", 1024 + 1410, 0.100, False),
    ]
    for title, size, lat, talks in cases:
        r = scenario(size, lat, seconds=30, server_talks=talks)
        print("case:", title)
        print("   ", r)
        connected = all(s == ConnectionStatus.CONNECTED for s in r['status'])
        if connected and (r['delivered_at'] is None or not r['callback']):
            failures.append(title)
            print("    VIOLATION: connection open, no datagram lost (timeouts=%s), %d/%d small messages"
                  " delivered, but after 29 s the guaranteed message is still unsent"
                  " (in outgoing_messages: %d), not delivered, callback never fired"
                  % (r['timeouts'], r['small_recv'], r['small_sent'], r['still_queued']))

    # it is the other traffic that starves it: stop the small messages and it goes out
    r = scenario(P, 0.100, seconds=30, small_until=20)
    print("same as case 1, small messages stop after 20 s:", r)
    print("    (it then leaves at once; that it is then delivered %d times is the known 256-message"
          " window defect, not counted here)" % r['deliveries'])

    if failures:
        print("\nFAIL: %d scenario(s) where a guaranteed send is left unsent for ever" % len(failures))
        sys.exit(1)
    print("no violation")


if __name__ == '__main__':
    main()

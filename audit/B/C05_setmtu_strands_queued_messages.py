"""
C05: a guaranteed message that is queued / being re-tried when Packet.setMTU()
lowers the MTU is never sent again - it stays in outgoing_messages for ever,
nothing is raised, its callback never fires.

Packet.setMTU is the documented remedy for a path that drops large datagrams
("The MTU can be decreased if the network is dropping packets").  The decision
"one datagram or fragments" is taken once, in ConnectionBase.send(), with the
MTU of that moment.  _build_packet_impl only packs a message when
len(payload) + overhead <= MAX_PAYLOAD_SIZE + 2 of the CURRENT MTU and skips it
otherwise, and RetrySender re-queues the identical payload.  After the MTU was
lowered, a message (or a 1024 byte fragment) that is larger than the new limit
fails that test in every frame: a guaranteed send is silently left unsent,
although a fresh send() of the very same payload is fragmented and arrives.

Scenario: the path client->server carries datagrams of up to 1200 bytes only.
The client sends a guaranteed 1400 byte message (one datagram of 1438 bytes at
the default MTU): lost, re-tried, lost ...  After 3 s the application reacts
with Packet.setMTU(1228).  From then on the network delivers every datagram the
library produces.
"""
import os, sys, heapq, itertools, time, logging
sys.path.insert(0, os.getcwd())
logging.disable(logging.CRITICAL)

from mpgameserver.connection import (Packet, PacketHeader, ConnectionStatus,
    ClientServerConnection, ServerClientConnection, ServerContext, RetryMode)
from mpgameserver.handler import EventHandler

FRAME = 1.0 / 60
PATH_LIMIT = 1200


class World(object):
    def __init__(self, latency):
        self.now = float(int(time.time()) + 100)
        self.latency = latency
        self.n = itertools.count()
        self.to_server = []
        self.to_client = []
        self.lost = 0
        self.largest_after = 0
        self.after = False
        clock = lambda: self.now
        self.client = ClientServerConnection(('10.0.0.1', 1234))
        self.client.clock = clock
        self.client.send_keep_alive_interval = 0.1
        self.ctxt = ServerContext(EventHandler(), None)
        self.server = ServerClientConnection(self.ctxt, ('10.0.0.1', 1234))
        self.server.clock = clock
        self.server.send_keep_alive_interval = self.ctxt.keep_alive_interval
        self.server.outgoing_timeout = self.ctxt.outgoing_timeout
        self.ctxt.temp_connections[self.server.addr] = self.server
        self.client._sendClientHello()
        d = self.client._encode_packet(self.client._build_packet())
        self.server._recv_datagram(PacketHeader.from_bytes(True, d), d)
        self.now += 2 * FRAME
        d = self.server._encode_packet(self.server._build_packet())
        self.client._recv_datagram(PacketHeader.from_bytes(False, d), d)
        self.now += 2 * FRAME
        d = self.client._encode_packet(self.client._build_packet())
        self.server._recv_datagram(PacketHeader.from_bytes(True, d), d)
        assert self.client.status == ConnectionStatus.CONNECTED
        assert self.server.status == ConnectionStatus.CONNECTED
        self.now += 2 * FRAME

    def step(self):
        self.now += FRAME
        c = self.client                         # == UdpClient.update
        c.update()
        while self.to_client and self.to_client[0][0] <= self.now:
            d = heapq.heappop(self.to_client)[2]
            c._recv_datagram(PacketHeader.from_bytes(False, d), d)
        t0 = c.clock()
        if t0 - c.last_send_time > c.send_interval:
            pkt = c._build_packet()
            if pkt is not None:
                d = c._encode_packet(pkt)
                if self.after:
                    self.largest_after = max(self.largest_after, len(d))
                if len(d) > PATH_LIMIT:
                    self.lost += 1              # the path drops it
                else:
                    heapq.heappush(self.to_server, (self.now + self.latency, next(self.n), d))
            c._check_timeout(t0)
        s = self.server                         # == server loop
        while self.to_server and self.to_server[0][0] <= self.now:
            d = heapq.heappop(self.to_server)[2]
            s._recv_datagram(PacketHeader.from_bytes(True, d), d)
        out = s.update()
        if out is not None:
            pkt, key, addr = out
            heapq.heappush(self.to_client, (self.now + self.latency, next(self.n), pkt.to_bytes(key)))


def main():
    w = World(latency=0.010)
    first = b"A" * 1400
    second = b"B" * 1400
    calls = {'first': [], 'second': []}
    got = {'first': 0, 'second': 0}

    def pump(frames):
        for _ in range(frames):
            w.step()
            for seq, m in w.server.incoming_messages:
                if m == first:
                    got['first'] += 1
                if m == second:
                    got['second'] += 1
            w.server.incoming_messages = []

    try:
        w.client.send(first, retry=RetryMode.RETRY_ON_TIMEOUT, callback=calls['first'].append)
        pump(180)
        print("t=3 s  : datagrams dropped by the path so far: %d, message delivered: %d"
              % (w.lost, got['first']))
        Packet.setMTU(PATH_LIMIT + 28)
        w.after = True
        lost_before = w.lost
        print("         application calls Packet.setMTU(%d): MAX_PAYLOAD_SIZE is now %d"
              % (PATH_LIMIT + 28, Packet.MAX_PAYLOAD_SIZE))
        pump(60 * 27)
        # the same payload, sent after the change
        w.client.send(second, retry=RetryMode.RETRY_ON_TIMEOUT, callback=calls['second'].append)
        pump(60 * 5)
    finally:
        Packet.setMTU(1500)

    stuck = [len(m.payload) for m in w.client.outgoing_messages]
    print("t=35 s : both ends %s / %s" % (w.client.status, w.server.status))
    print("         datagrams dropped by the path after setMTU: %d (largest datagram sent after it: %d bytes)"
          % (w.lost - lost_before, w.largest_after))
    print("         first  message (sent before setMTU): delivered %d times, callback %s"
          % (got['first'], calls['first']))
    print("         second message (same payload, sent after setMTU): delivered %d times, callback %s"
          % (got['second'], calls['second']))
    print("         still sitting in client.outgoing_messages: %d copies of sizes %s"
          % (len(stuck), sorted(set(stuck))))

    connected = w.client.status == ConnectionStatus.CONNECTED and w.server.status == ConnectionStatus.CONNECTED
    if connected and w.lost == lost_before and got['first'] == 0 and got['second'] == 1:
        print("\nFAIL: the guaranteed message that was pending when the MTU was lowered is never sent again"
              " (32 s on a network that delivers everything it is given)")
        sys.exit(1)
    print("no violation")


if __name__ == '__main__':
    main()

"""
C07: on a lossless network whose round trip is not shorter than the message
timeout, the callback of a guaranteed send never fires, and the message is
re-transmitted for as long as the connection lives.

_check_timeout / _handle_timeout delete the datagram from pending_acks when
outgoing_timeout has elapsed; an ack that arrives later is silently ignored
(_handle_ack_bits only looks at pending_acks).  RetrySender re-queues the
message on every timeout, every copy runs into the same timeout, and
RetrySender.done is never set: the peer application has had the message since
the first half round trip, every copy was acknowledged, but the callback that
the property says fires exactly once with True does not fire at all.

 (1) default settings (message timeout 1.0 s), one-way delay 0.55 s.
 (2) UdpClient.setMessageTimeout(0.2) (a legal setting), one-way delay 0.12 s.
Both connections stay CONNECTED for the whole run (keep-alives flow), nothing
is lost, nothing is reordered.
"""
import os, sys, heapq, itertools, time, logging
sys.path.insert(0, os.getcwd())
logging.disable(logging.CRITICAL)

from mpgameserver.connection import (Packet, PacketHeader, ConnectionStatus,
    ClientServerConnection, ServerClientConnection, ServerContext, RetryMode)
from mpgameserver.handler import EventHandler

FRAME = 1.0 / 60


class World(object):
    def __init__(self, latency):
        self.now = float(int(time.time()) + 100)
        self.latency = latency
        self.n = itertools.count()
        self.to_server = []
        self.to_client = []
        self.carried = 0
        self.watch = None
        clock = lambda: self.now
        self.client = ClientServerConnection(('10.0.0.1', 1234))
        self.client.clock = clock
        self.client.send_keep_alive_interval = 0.1
        self.ctxt = ServerContext(EventHandler(), None)
        self.server = ServerClientConnection(self.ctxt, ('10.0.0.1', 1234))
        self.server.clock = clock
        self.server.send_keep_alive_interval = self.ctxt.keep_alive_interval
        self.server.outgoing_timeout = self.ctxt.outgoing_timeout
        self.ctxt.temp_connections[self.server.addr] = self.server
        self.client._sendClientHello()
        d = self.client._encode_packet(self.client._build_packet())
        self.server._recv_datagram(PacketHeader.from_bytes(True, d), d)
        self.now += 2 * FRAME
        d = self.server._encode_packet(self.server._build_packet())
        self.client._recv_datagram(PacketHeader.from_bytes(False, d), d)
        self.now += 2 * FRAME
        d = self.client._encode_packet(self.client._build_packet())
        self.server._recv_datagram(PacketHeader.from_bytes(True, d), d)
        assert self.client.status == ConnectionStatus.CONNECTED
        assert self.server.status == ConnectionStatus.CONNECTED
        self.now += 2 * FRAME

    def step(self):
        self.now += FRAME
        c = self.client                         # == UdpClient.update
        c.update()
        while self.to_client and self.to_client[0][0] <= self.now:
            d = heapq.heappop(self.to_client)[2]
            c._recv_datagram(PacketHeader.from_bytes(False, d), d)
        t0 = c.clock()
        if t0 - c.last_send_time > c.send_interval:
            pkt = c._build_packet()
            if pkt is not None:
                if any(m.payload == self.watch for m in pkt.msgs):
                    self.carried += 1
                d = c._encode_packet(pkt)
                heapq.heappush(self.to_server, (self.now + self.latency, next(self.n), d))
            c._check_timeout(t0)
        s = self.server                         # == server loop
        while self.to_server and self.to_server[0][0] <= self.now:
            d = heapq.heappop(self.to_server)[2]
            s._recv_datagram(PacketHeader.from_bytes(True, d), d)
        out = s.update()
        if out is not None:
            pkt, key, addr = out
            heapq.heappush(self.to_client, (self.now + self.latency, next(self.n), pkt.to_bytes(key)))


def scenario(title, latency, timeout, seconds):
    w = World(latency)
    w.client.outgoing_timeout = timeout         # what UdpClient.setMessageTimeout does
    payload = b"guaranteed message"
    w.watch = payload
    calls = []
    delivered = []
    t_send = w.now
    w.client.send(payload, retry=RetryMode.RETRY_ON_TIMEOUT,
                  callback=lambda ok: calls.append((round(w.now - t_send, 3), ok)))
    status_ok = True
    for _ in range(int(seconds * 60)):
        w.step()
        delivered += [round(w.now - t_send, 3) for s, m in w.server.incoming_messages if m == payload]
        w.server.incoming_messages = []
        status_ok = status_ok and w.client.status == ConnectionStatus.CONNECTED \
            and w.server.status == ConnectionStatus.CONNECTED \
            and not w.server.timedout(w.ctxt.connection_timeout)
    print(title)
    print("    round trip %.2f s, message timeout %.2f s, %d s simulated, both ends CONNECTED all the time: %s"
          % (2 * latency, timeout, seconds, status_ok))
    print("    handed to the peer application at t=%s" % delivered)
    print("    datagrams that carried a copy of the message: %d, still being re-sent at the end: %s"
          % (w.carried, bool(w.client.pending_retry_msg or w.client.outgoing_messages)))
    print("    client datagrams: acked=%d timed out=%d ; callback calls: %s"
          % (w.client.stats.acked, w.client.stats.timeouts, calls))
    bad = status_ok and bool(delivered) and calls == []
    if bad:
        print("    VIOLATION: the guaranteed send's callback never fired although the peer accepted the message")
    return bad


def main():
    print("control: round trip 0.2 s, timeout 1.0 s")
    assert not scenario("control", 0.1, 1.0, 4)
    a = scenario("(1) defaults, one-way delay 0.55 s", 0.55, 1.0, 30)
    b = scenario("(2) setMessageTimeout(0.2), one-way delay 0.12 s", 0.12, 0.2, 30)
    if a or b:
        print("\nFAIL: guaranteed send never completes when acks arrive after the message timeout")
        sys.exit(1)
    print("no violation")


if __name__ == '__main__':
    main()

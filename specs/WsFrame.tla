------------------------------ MODULE WsFrame ------------------------------
(***************************************************************************)
(* RFC 6455 section 5.2 frame header, as a function to byte sequences.      *)
(* Here the byte layout IS the property (C18), so it is in the              *)
(* specification: 7-bit / 16-bit / 64-bit length classes in network order,  *)
(* mask bit and masking key.                                                 *)
(***************************************************************************)
EXTENDS Integers, Sequences

LenClass(n) == IF n <= 125 THEN n ELSE IF n <= 65535 THEN 126 ELSE 127
\* big-endian bytes of n in k bytes
RECURSIVE BE(_, _)
BE(n, k) == IF k = 0 THEN <<>> ELSE Append(BE(n \div 256, k - 1), n % 256)
ExtLen(n) == IF n <= 125 THEN <<>> ELSE IF n <= 65535 THEN BE(n, 2) ELSE BE(n, 8)
Header(fin, opcode, mask, n, key) ==
  << fin * 128 + opcode, mask * 128 + LenClass(n) >> \o ExtLen(n) \o (IF mask = 1 THEN key ELSE <<>>)
HeaderLen(mask, n) == 2 + Len(ExtLen(n)) + (IF mask = 1 THEN 4 ELSE 0)
=============================================================================

---------------------------- MODULE Obs_SeqRing ----------------------------
(* Observation table: rows [a, b, k, add, sub, diff, newer, lt, gt] measured *)
(* on the real SeqNum at the real ring size; TLC judges every row against   *)
(* the SeqRing operators and against the mathematical reference.            *)
EXTENDS SeqRing, Sequences, TLC, Json, IOUtils
Rows == JsonDeserialize(IOEnv.OBS_FILE)
VARIABLE i
Init == i \in 1..Len(Rows)
Next == UNCHANGED i
R == Rows[i]
\* row = <<a, b, k, add, sub, diff, newer, lt, gt, off, le, ge>> with booleans as 0/1
B(x) == IF x THEN 1 ELSE 0
RowOK == /\ R[4] = Add(R[1], R[3]) /\ R[4] \in 1..M
         /\ R[5] = Sub(R[1], R[3]) /\ R[5] \in 1..M
         /\ R[6] = Diff(R[1], R[2])
         /\ R[7] = B(NewerThan(R[1], R[2]))
         /\ R[8] = B(Lt(R[1], R[2]))
         /\ R[9] = B(Gt(R[1], R[2]))
\* the mathematical meaning, for numbers less than half the ring apart: b = a + off (mod M)
MathOK == LET off == R[10] IN
          (off \in (-Half)..Half) =>
              /\ R[6] = -off
              /\ R[7] = B(off < 0) /\ R[8] = B(off > 0) /\ R[9] = B(off < 0)
              /\ R[11] = B(off >= 0) /\ R[12] = B(off <= 0)          \* <= and >= are comparisons on the ring too (the handler is handed SeqNum objects)
=============================================================================

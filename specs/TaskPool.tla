------------------------------ MODULE TaskPool ------------------------------
(***************************************************************************)
(* mpgameserver/task.py - TaskPool: results of background tasks are handed *)
(* from the pool's result-handler thread(s) to the game loop thread.        *)
(*                                                                         *)
(*   _onSuccess/_onFailure (pool thread):  with lock: self._results.append  *)
(*   update (game loop thread):            results = []                     *)
(*                                         if self._results:      (no lock) *)
(*                                             with lock:                   *)
(*                                                 results = self._results  *)
(*                                                 self._results = []       *)
(*                                             for r, cb in results: cb(r)  *)
(*                                                                         *)
(* One step of this specification is ONE access to shared memory (the       *)
(* attribute self._results, the list object it refers to, the lock), which  *)
(* is the grain at which Python threads interleave.  List objects live in a *)
(* heap and are referred to by identity, as in Python: update() swaps the   *)
(* reference, and iterates the list object it took (live).                  *)
(*                                                                         *)
(* What a user relies on: every finished task's callback runs exactly once, *)
(* on the thread that calls update(), in completion order; a callback that  *)
(* raises does not stop the others; nothing is lost however the pool thread *)
(* interleaves with update().                                               *)
(***************************************************************************)
EXTENDS Integers, Sequences, FiniteSets, TLC

CONSTANTS Tasks,        \* task identifiers
          Completers,   \* pool-side threads that deliver results
          NoCallback,   \* tasks submitted with callback=None
          UpdateLocks   \* TRUE: update() swaps the list under the lock (the code); FALSE: a control that must lose results

(* --algorithm TaskPool {
  variables
    lock = "free",                       \* "free" or the holder
    heap = <<<<>>>>,                     \* list objects by identity (index); heap[1] is the initial self._results
    ref = 1,                             \* self._results
    submitted = {},                      \* handed to pool.apply_async
    taken = {},                          \* finished; a completer is delivering or has delivered the result
    appended = <<>>,                     \* ghost: completion order (order of the appends)
    delivered = <<>>,                    \* ghost: callbacks run by update(), in order
    consumed = {};                       \* ghost: results popped by update() (with or without callback)

  fair process (main = "main")
    variables tmp = 0, loc = 0, idx = 1;
  {
  m0: while (TRUE) {
        either { with (t \in Tasks \ submitted) { submitted := submitted \cup {t} } }      \* submit(): pool.apply_async
        or {
  u_rd1:  tmp := ref;                                   \* if self._results:   - read of the attribute, no lock
  u_len:  if (Len(heap[tmp]) > 0) {                     \*                     - truth value of the list object
  u_acq:    if (UpdateLocks) { await lock = "free"; lock := "main" };
  u_rd2:    loc := ref;                                 \* results = self._results
  u_wr:     heap := Append(heap, <<>>); ref := Len(heap);    \* self._results = []   (a new list object)
  u_rel:    if (UpdateLocks) { lock := "free" };
            idx := 1;
  u_it:     while (idx <= Len(heap[loc])) {             \* for result, callback in results:   - live iteration of the object taken
              consumed := consumed \cup {heap[loc][idx]};
              if (heap[loc][idx] \notin NoCallback) { delivered := Append(delivered, heap[loc][idx]) };
              idx := idx + 1
            }
          }
        }
      }
  }

  fair process (c \in Completers)
    variables my = "", cref = 0;
  {
  c0: while (TRUE) {
        with (t \in submitted \ taken) { taken := taken \cup {t}; my := t };     \* the task finished; its result reaches this thread
  c_acq: await lock = "free"; lock := self;
  c_rd:  cref := ref;                                   \* self._results
  c_app: heap[cref] := Append(heap[cref], my); appended := Append(appended, my);   \* .append((result, callback))
  c_rel: lock := "free"
      }
  }
} *)
\* BEGIN TRANSLATION
VARIABLES pc, lock, heap, ref, submitted, taken, appended, delivered, 
          consumed, tmp, loc, idx, my, cref

vars == << pc, lock, heap, ref, submitted, taken, appended, delivered, 
           consumed, tmp, loc, idx, my, cref >>

ProcSet == {"main"} \cup (Completers)

Init == (* Global variables *)
        /\ lock = "free"
        /\ heap = <<<<>>>>
        /\ ref = 1
        /\ submitted = {}
        /\ taken = {}
        /\ appended = <<>>
        /\ delivered = <<>>
        /\ consumed = {}
        (* Process main *)
        /\ tmp = 0
        /\ loc = 0
        /\ idx = 1
        (* Process c *)
        /\ my = [self \in Completers |-> ""]
        /\ cref = [self \in Completers |-> 0]
        /\ pc = [self \in ProcSet |-> CASE self = "main" -> "m0"
                                        [] self \in Completers -> "c0"]

m0 == /\ pc["main"] = "m0"
      /\ \/ /\ \E t \in Tasks \ submitted:
                 submitted' = (submitted \cup {t})
            /\ pc' = [pc EXCEPT !["main"] = "m0"]
         \/ /\ pc' = [pc EXCEPT !["main"] = "u_rd1"]
            /\ UNCHANGED submitted
      /\ UNCHANGED << lock, heap, ref, taken, appended, delivered, consumed, 
                      tmp, loc, idx, my, cref >>

u_rd1 == /\ pc["main"] = "u_rd1"
         /\ tmp' = ref
         /\ pc' = [pc EXCEPT !["main"] = "u_len"]
         /\ UNCHANGED << lock, heap, ref, submitted, taken, appended, 
                         delivered, consumed, loc, idx, my, cref >>

u_len == /\ pc["main"] = "u_len"
         /\ IF Len(heap[tmp]) > 0
               THEN /\ pc' = [pc EXCEPT !["main"] = "u_acq"]
               ELSE /\ pc' = [pc EXCEPT !["main"] = "m0"]
         /\ UNCHANGED << lock, heap, ref, submitted, taken, appended, 
                         delivered, consumed, tmp, loc, idx, my, cref >>

u_acq == /\ pc["main"] = "u_acq"
         /\ IF UpdateLocks
               THEN /\ lock = "free"
                    /\ lock' = "main"
               ELSE /\ TRUE
                    /\ lock' = lock
         /\ pc' = [pc EXCEPT !["main"] = "u_rd2"]
         /\ UNCHANGED << heap, ref, submitted, taken, appended, delivered, 
                         consumed, tmp, loc, idx, my, cref >>

u_rd2 == /\ pc["main"] = "u_rd2"
         /\ loc' = ref
         /\ pc' = [pc EXCEPT !["main"] = "u_wr"]
         /\ UNCHANGED << lock, heap, ref, submitted, taken, appended, 
                         delivered, consumed, tmp, idx, my, cref >>

u_wr == /\ pc["main"] = "u_wr"
        /\ heap' = Append(heap, <<>>)
        /\ ref' = Len(heap')
        /\ pc' = [pc EXCEPT !["main"] = "u_rel"]
        /\ UNCHANGED << lock, submitted, taken, appended, delivered, consumed, 
                        tmp, loc, idx, my, cref >>

u_rel == /\ pc["main"] = "u_rel"
         /\ IF UpdateLocks
               THEN /\ lock' = "free"
               ELSE /\ TRUE
                    /\ lock' = lock
         /\ idx' = 1
         /\ pc' = [pc EXCEPT !["main"] = "u_it"]
         /\ UNCHANGED << heap, ref, submitted, taken, appended, delivered, 
                         consumed, tmp, loc, my, cref >>

u_it == /\ pc["main"] = "u_it"
        /\ IF idx <= Len(heap[loc])
              THEN /\ consumed' = (consumed \cup {heap[loc][idx]})
                   /\ IF heap[loc][idx] \notin NoCallback
                         THEN /\ delivered' = Append(delivered, heap[loc][idx])
                         ELSE /\ TRUE
                              /\ UNCHANGED delivered
                   /\ idx' = idx + 1
                   /\ pc' = [pc EXCEPT !["main"] = "u_it"]
              ELSE /\ pc' = [pc EXCEPT !["main"] = "m0"]
                   /\ UNCHANGED << delivered, consumed, idx >>
        /\ UNCHANGED << lock, heap, ref, submitted, taken, appended, tmp, loc, 
                        my, cref >>

main == m0 \/ u_rd1 \/ u_len \/ u_acq \/ u_rd2 \/ u_wr \/ u_rel \/ u_it

c0(self) == /\ pc[self] = "c0"
            /\ \E t \in submitted \ taken:
                 /\ taken' = (taken \cup {t})
                 /\ my' = [my EXCEPT ![self] = t]
            /\ pc' = [pc EXCEPT ![self] = "c_acq"]
            /\ UNCHANGED << lock, heap, ref, submitted, appended, delivered, 
                            consumed, tmp, loc, idx, cref >>

c_acq(self) == /\ pc[self] = "c_acq"
               /\ lock = "free"
               /\ lock' = self
               /\ pc' = [pc EXCEPT ![self] = "c_rd"]
               /\ UNCHANGED << heap, ref, submitted, taken, appended, 
                               delivered, consumed, tmp, loc, idx, my, cref >>

c_rd(self) == /\ pc[self] = "c_rd"
              /\ cref' = [cref EXCEPT ![self] = ref]
              /\ pc' = [pc EXCEPT ![self] = "c_app"]
              /\ UNCHANGED << lock, heap, ref, submitted, taken, appended, 
                              delivered, consumed, tmp, loc, idx, my >>

c_app(self) == /\ pc[self] = "c_app"
               /\ heap' = [heap EXCEPT ![cref[self]] = Append(heap[cref[self]], my[self])]
               /\ appended' = Append(appended, my[self])
               /\ pc' = [pc EXCEPT ![self] = "c_rel"]
               /\ UNCHANGED << lock, ref, submitted, taken, delivered, 
                               consumed, tmp, loc, idx, my, cref >>

c_rel(self) == /\ pc[self] = "c_rel"
               /\ lock' = "free"
               /\ pc' = [pc EXCEPT ![self] = "c0"]
               /\ UNCHANGED << heap, ref, submitted, taken, appended, 
                               delivered, consumed, tmp, loc, idx, my, cref >>

c(self) == c0(self) \/ c_acq(self) \/ c_rd(self) \/ c_app(self)
              \/ c_rel(self)

Next == main
           \/ (\E self \in Completers: c(self))

Spec == /\ Init /\ [][Next]_vars
        /\ WF_vars(main)
        /\ \A self \in Completers : WF_vars(c(self))

\* END TRANSLATION

Range(s) == {s[i] : i \in DOMAIN s}
NoDup(s) == \A i, j \in DOMAIN s : i # j => s[i] # s[j]
IsPrefixOf(a, b) == Len(a) <= Len(b) /\ \A i \in DOMAIN a : a[i] = b[i]
WithCb(s) == SelectSeq(s, LAMBDA t : t \notin NoCallback)

(* safety *)
AtMostOnce == NoDup(delivered) /\ NoDup(appended)
Order == IsPrefixOf(delivered, WithCb(appended))                     \* completion order; never a callback for a result not yet handed over
Reachable == Range(heap[ref]) \cup (IF pc["main"] \in {"u_wr", "u_rel", "u_it"} THEN Range(heap[loc]) ELSE {})
NoLoss == Range(appended) \subseteq (consumed \cup Reachable)          \* a handed-over result is either consumed or still reachable from update()
MutualExclusion == \A p \in Completers : pc[p] \in {"c_rd", "c_app", "c_rel"} => lock = p
TypeOK == lock \in {"free", "main"} \cup Completers /\ ref \in 1..Len(heap)

(* liveness (fair scheduling, update() called for ever): every submitted task's result is consumed, its callback run *)
AllDelivered == \A t \in Tasks : (t \in submitted) ~> (t \in consumed)
=============================================================================

-------------------------- MODULE Trace_BitWindow --------------------------
(* Code -> spec: insert histories recorded from the real BitField are       *)
(* checked, event by event, to be behaviours of BitWindow!WInsert.          *)
(* Many traces per run: tid ranges over them as initial states; a trace     *)
(* that cannot consume its next event deadlocks, which is the rejection.    *)
EXTENDS BitOps, Sequences, FiniteSets, TLC, Json, IOUtils
CONSTANT W
Traces == JsonDeserialize(IOEnv.TRACE_FILE)
VARIABLES tid, l, cur, bits
ToSet(s) == {s[i] : i \in DOMAIN s}
TInit == tid \in 1..Len(Traces) /\ l = 1 /\ cur = 0 /\ bits = {}
Ev == Traces[tid][l]
\* event: [s, raised, cur, bits (offset list), probe, contains]
Step ==
  /\ l <= Len(Traces[tid])
  /\ LET r == WInsert(cur, bits, Ev.s, W) IN
     /\ Ev.raised = (r.out = "dup")
     /\ Ev.cur = r.cur
     /\ ToSet(Ev.bits) = r.bits
     /\ Ev.contains = WContains(r.cur, r.bits, Ev.probe)
     /\ cur' = r.cur /\ bits' = r.bits
  /\ l' = l + 1 /\ UNCHANGED tid
Done == l > Len(Traces[tid]) /\ UNCHANGED <<tid, l, cur, bits>>
TSpec == TInit /\ [][Step \/ Done]_<<tid, l, cur, bits>>
Where == [tid |-> tid, l |-> l, cur |-> cur, bits |-> bits,
          ev |-> IF l <= Len(Traces[tid]) THEN Ev ELSE <<>>]
=============================================================================

----------------------------- MODULE BitWindow -----------------------------
(***************************************************************************)
(* The receive window of connection.py (class BitField): the newest        *)
(* sequence number seen (cur) and a one-hot history of the W numbers       *)
(* before it.  `bits` is the set of offsets d in 1..W whose bit            *)
(* (onehot >> (d-1)) is set, i.e. "cur - d was received".                   *)
(*                                                                         *)
(* WInsert is operational, shaped like BitField.insert (shift, or-in the   *)
(* one-hot bit, compare a mask).  The ghost variables hi/R are plain set   *)
(* arithmetic over true (unwrapped) positions; the invariants relate the   *)
(* two.                                                                     *)
(***************************************************************************)
EXTENDS BitOps, FiniteSets
CONSTANTS W,        \* window width (BitField.nbits)
          Start,    \* first true position that may be inserted
          Span,     \* positions Start..Start+Span may be inserted
          Reach     \* an inserted position is within Reach of the newest one

\* ---- state machine with a mathematical ghost ------------------------------
VARIABLES cur, bits,    \* the structure
          hi, R,        \* ghost: newest true position received; true positions received within hi-W..hi
          last          \* [s, out] of the latest insert (for replay and for DupExact)
vars == <<cur, bits, hi, R, last>>

Init == cur = 0 /\ bits = {} /\ hi = 0 /\ R = {} /\ last = [s |-> 0, out |-> "none"]

Candidates == IF hi = 0 THEN Start..(Start + Span)
              ELSE {p \in Start..(Start + Span) : p - hi \in (-Reach)..Reach}

Insert(p, out) ==
  LET r == WInsert(cur, bits, Wrap(p), W) IN
  /\ r.out = out
  /\ cur' = r.cur /\ bits' = r.bits
  /\ last' = [s |-> Wrap(p), out |-> out]
  /\ IF out = "dup" \/ out = "stale" THEN UNCHANGED <<hi, R>>       \* the structure refused / ignored it
     ELSE LET h2 == IF p > hi THEN p ELSE hi IN
          /\ hi' = h2
          /\ R' = {x \in R \cup {p} : h2 - x <= W}

InsertFirst   == \E p \in Candidates : Insert(p, "first")
InsertAdvance == \E p \in Candidates : Insert(p, "advance")
InsertFill    == \E p \in Candidates : Insert(p, "fill")
InsertDup     == \E p \in Candidates : Insert(p, "dup")
InsertStale   == \E p \in Candidates : Insert(p, "stale")
Next == InsertFirst \/ InsertAdvance \/ InsertFill \/ InsertDup \/ InsertStale
Spec == Init /\ [][Next]_vars

\* ---- C08: the window names exactly what was received among the newest W ---
WindowExact == hi > 0 => /\ cur = Wrap(hi)
                         /\ bits = {d \in 1..W : (hi - d) \in R}
ContainsExact == hi > 0 => \A p \in (hi - W - 2)..(hi + 2) :
                    p >= 1 => (WContains(cur, bits, Wrap(p)) <=> (p \in R /\ hi - p <= W))
\* a number is flagged duplicate exactly when it was already received inside the window
DupExact == [][\A p \in Candidates :
                 (last'.s = Wrap(p) /\ last' # last) =>
                    ((last'.out = "dup") <=> (p \in R /\ hi - p \in 0..W))]_vars
\* older than the window: accepted without trace (what the callers do with that is C04's business)
StaleOnlyBeyondWindow == last.out = "stale" => hi - W > 0
=============================================================================

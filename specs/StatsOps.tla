------------------------------ MODULE StatsOps ------------------------------
(* X09 (extension): the statistics surface of one connection endpoint -      *)
(* ConnectionStats and the latency estimate of mpgameserver/connection.py,   *)
(* which the GUI server plots and applications read through stats().         *)
(*                                                                           *)
(* The state of one endpoint is a record; every statement of the code that   *)
(* touches a counter, a rolling list or pending_acks is one operator on that *)
(* record (Queue, Build, Encode, Accept, Drop, Ack, TimeoutOne, Disconnect). *)
(* The design specification below takes them as separately enabled actions   *)
(* (the peer and the network are the environment: which datagram is acked,   *)
(* which times out, which is dropped is not decided here - Conn.tla does     *)
(* that); Trace_Stats.tla composes the same operators along the calls of a   *)
(* recorded execution.  Time is in integer units (Units per second).         *)
(*                                                                           *)
(* As the code does it, and worth knowing:                                   *)
(*  - `stats.sent` counts MESSAGES queued (every fragment, every automatic   *)
(*    re-queue of a RETRY_ON_TIMEOUT message, the handshake messages and the *)
(*    DISCONNECT), not datagrams; `assembled` counts datagrams.              *)
(*  - disconnect() forgets the datagrams still awaiting an ack without       *)
(*    counting them as acked or timed out (ghost `abandoned`).               *)
(*  - a new bin is opened when the second of this send differs from the      *)
(*    second of the previous send, so a second without traffic has NO bin:   *)
(*    the rolling lists are not a time line (expected statement              *)
(*    BinsAreSeconds fails; finding stats-bins-skip-idle-seconds).           *)
EXTENDS Integers, Sequences, FiniteSets, TLC
CONSTANTS Cap,        \* bins kept per rolling list (code: 5*60)
          Units,      \* time units per second
          Interval,   \* least time between two datagrams of one endpoint
          Timeout,    \* ack time-out
          M,          \* sequence numbers live on the ring 1..M
          MaxT, Sizes \* bounds of the design model (Stats.tla) only

Sec(t) == IF t >= 0 THEN t \div Units ELSE -((-t) \div Units)      \* Python int(): truncation towards zero
Inc(s) == IF s = 0 THEN 1 ELSE (s % M) + 1
RECURSIVE SumSeq(_)
SumSeq(q) == IF q = <<>> THEN 0 ELSE Head(q) + SumSeq(Tail(q))
Roll(q) == IF Len(q) > Cap THEN Tail(q) ELSE q
Bump(q, n) == [q EXCEPT ![Len(q)] = @ + n]
Without(f, x) == [y \in DOMAIN f \ {x} |-> f[y]]
Zeros == [i \in 1..Cap |-> 0]

S0(start) == [assembled |-> 0, queued |-> 0, acked |-> 0, timeouts |-> 0, received |-> 0, dropped |-> 0,
              abandoned |-> 0, encoded |-> 0, accepted |-> 0, rolledS |-> 0, rolledR |-> 0,
              bytesS |-> 0, bytesR |-> 0, rolledBS |-> 0, rolledBR |-> 0,           \* ghosts: bytes encoded / accepted, and what has rolled off the byte lists
              pend |-> [x \in {} |-> 0], nseq |-> start, lastSend |-> -Units, lastRecv |-> -Units,
              ps |-> Zeros, bs |-> Zeros, pr |-> Zeros, br |-> Zeros,
              psSec |-> [i \in 1..Cap |-> i - Cap - 1], born |-> -1,
              lat |-> 0, maxSample |-> 0]

Queue(S, k) == [S EXCEPT !.queued = @ + k]

(* _build_packet: called only when a datagram is really assembled *)
Build(S, t) ==
  LET open == Sec(t) # Sec(S.lastSend)
      ps1 == IF open THEN Append(S.ps, 0) ELSE S.ps
      bs1 == IF open THEN Append(S.bs, 0) ELSE S.bs
      sc1 == IF open THEN Append(S.psSec, Sec(t)) ELSE S.psSec
      n == Inc(S.nseq)
  IN [S EXCEPT !.assembled = @ + 1, !.nseq = n, !.pend = (n :> t) @@ Without(S.pend, n),
               !.rolledS = @ + (IF Len(ps1) > Cap THEN Head(ps1) ELSE 0), !.rolledBS = @ + (IF Len(bs1) > Cap THEN Head(bs1) ELSE 0),
               !.ps = Roll(ps1), !.bs = Roll(bs1), !.psSec = Roll(sc1), !.lastSend = t,
               !.born = IF S.born < 0 THEN Sec(t) ELSE @]

(* _encode_packet / the tail of ServerClientConnection.update *)
Encode(S, size) == [S EXCEPT !.ps = Bump(@, 1), !.bs = Bump(@, size), !.encoded = @ + 1, !.bytesS = @ + size]

(* _recv_datagram up to `last_recv_time = t0` for a datagram that is accepted *)
Accept(S, t, size) ==
  LET open == Sec(t) # Sec(S.lastRecv)
      pr1 == Bump(IF open THEN Append(S.pr, 0) ELSE S.pr, 1)
      br1 == Bump(IF open THEN Append(S.br, 0) ELSE S.br, size)
  IN [S EXCEPT !.received = @ + 1, !.accepted = @ + 1, !.bytesR = @ + size, !.pr = Roll(pr1), !.br = Roll(br1),
               !.rolledR = @ + (IF Len(pr1) > Cap THEN Head(pr1) ELSE 0), !.rolledBR = @ + (IF Len(br1) > Cap THEN Head(br1) ELSE 0), !.lastRecv = t]

Drop(S) == [S EXCEPT !.dropped = @ + 1]

Sample(S, seq, t) == (t - S.pend[seq]) \div 2
(* _handle_ack: latency += 0.1 * (rtt / 2 - latency) *)
Ack(S, seq, t) == [S EXCEPT !.acked = @ + 1, !.pend = Without(@, seq),
                            !.lat = @ + (Sample(S, seq, t) - @) \div 10,
                            !.maxSample = IF Sample(S, seq, t) > @ THEN Sample(S, seq, t) ELSE @]
TimeoutOne(S, seq) == [S EXCEPT !.timeouts = @ + 1, !.pend = Without(@, seq)]
Due(S, seq, t) == t - S.pend[seq] >= Timeout
(* ConnectionBase.disconnect on a live connection *)
Disconnect(S) == [S EXCEPT !.abandoned = @ + Cardinality(DOMAIN S.pend), !.pend = [x \in {} |-> 0], !.queued = @ + 1]

=============================================================================

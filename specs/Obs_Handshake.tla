--------------------------- MODULE Obs_Handshake ---------------------------
(* Byte-level mutation sweep of the genuine server hello against a real,      *)
(* un-keyed client: row = <<connected, keyset, intact, keyok>> where intact    *)
(* says (independent reader in the harness) that the signed payload and the    *)
(* signature bytes are verbatim in the mutated datagram.                        *)
EXTENDS Integers, Sequences, TLC, Json, IOUtils
Rows == JsonDeserialize(IOEnv.OBS_FILE)
VARIABLE i
Chunk == 500
Init == i \in 1..((Len(Rows) + Chunk - 1) \div Chunk)
Next == UNCHANGED i
RowRange == ((i - 1) * Chunk + 1)..(IF i * Chunk < Len(Rows) THEN i * Chunk ELSE Len(Rows))
\* connected and keyed only from a hello whose signed parameters and signature are intact; otherwise no key
RowOK(r) == /\ (r[1] = 1 => (r[3] = 1 /\ r[4] = 1 /\ r[2] = 1))
            /\ (r[1] = 0 => r[2] = 0)
AllOK == \A k \in RowRange : RowOK(Rows[k])
\* server-side rows (mutations of the client hello and of the challenge response, full exchange on a fresh client + server each):
\*   <<kind, server reported connect, client connected, same key at both ends, same token, a connect event for another address>>
\* kind 1: a mutated client hello, then the honest rest of the exchange - the server reports the client only if both ends agree on key and token
\* kind 2: a mutated challenge response (nothing else delivered afterwards) - never a connect
\* kind 3: the genuine challenge response replayed from another address - never a connect for that address
RowOK2(r) == /\ (r[1] = 1 => (r[2] = 1 => (r[3] = 1 /\ r[4] = 1 /\ r[5] = 1)))
             /\ (r[1] = 2 => r[2] = 0)
             /\ (r[1] = 4 => r[2] = 0)                \* kind 4: the right key but a token that is not the number the server issued - never a connect
             /\ r[6] = 0
AllOK2 == \A k \in RowRange : RowOK2(Rows[k])
Where2 == [i |-> i, bad |-> {<<k, Rows[k]>> : k \in {x \in RowRange : ~RowOK2(Rows[x])}}]
Where == [i |-> i, bad |-> {<<k, Rows[k]>> : k \in {x \in RowRange : ~RowOK(Rows[x])}}]
=============================================================================

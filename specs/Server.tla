-------------------------------- MODULE Server --------------------------------
(***************************************************************************)
(* Design model of the server loop (server.py UdpServerThread.run with the  *)
(* two connection pools of context.py) for exhaustive model checking of the *)
(* handler lifecycle (C10).  A client OBJECT is created by a hello from an   *)
(* unknown address; a reconnect from the same address is a new object.       *)
(* One loop iteration = Process (queued datagrams, in order) ; HandlerUpdate *)
(* ; Sweep (connected pool: disconnecting / disconnected / silent clients;   *)
(* temporary pool: expired) ; the environment interleaves datagram arrivals, *)
(* time passing, server-side kicks, handler exceptions and shutdown.         *)
(* The token generator draws from a small space; the model keeps the code's  *)
(* "redraw while in use" loop as a guard (Unique = TRUE) and the control     *)
(* configuration (Unique = FALSE) must refute TokensDistinct.                 *)
(***************************************************************************)
EXTENDS Integers, Sequences, FiniteSets, TLC
CONSTANTS Addrs, TokenSpace, MaxObjs, Timeout, MaxQueue, Unique

VARIABLES temp,      \* addr -> [obj, tok, age]
          conn,      \* addr -> [obj, tok, age, status]   status: "ok" | "disconnecting"
          queue,     \* datagrams received, not yet processed: sequence of [a, k]  k: hello | chal_ok | chal_bad | app | bye | garbage
          nobj,      \* objects created so far
          log,       \* handler events: sequence of [what, obj]
          active, down, raises
vars == <<temp, conn, queue, nobj, log, active, down, raises>>
Kinds == {"hello", "chal_ok", "chal_bad", "app", "bye", "garbage"}

Init == temp = <<>> /\ conn = <<>> /\ queue = <<>> /\ nobj = 0 /\ log = <<>> /\ active = TRUE /\ down = FALSE /\ raises = 0
InUse == {temp[a].tok : a \in DOMAIN temp} \cup {conn[a].tok : a \in DOMAIN conn}
Del(f, k) == [x \in (DOMAIN f) \ {k} |-> f[x]]
Put(f, k, v) == (k :> v) @@ f

\* TwistedServer.datagramReceived: parse the header, queue
Receive(a, k) == /\ active /\ Len(queue) < MaxQueue /\ queue' = Append(queue, [a |-> a, k |-> k])
                 /\ UNCHANGED <<temp, conn, nobj, log, active, down, raises>>
\* one queued datagram through the pool gate
ProcessOne ==
  /\ active /\ queue # <<>>
  /\ LET d == Head(queue) a == d.a IN
     /\ queue' = Tail(queue)
     /\ IF a \in DOMAIN conn
        THEN \* connected client: hello is ignored (keyed endpoint), app delivers a message, bye starts the disconnect
             /\ temp' = temp /\ nobj' = nobj
             /\ IF d.k = "app" /\ conn[a].status = "ok"
                THEN conn' = [conn EXCEPT ![a].age = 0] /\ log' = Append(log, [what |-> "msg", obj |-> conn[a].obj])
                ELSE IF d.k = "bye" THEN conn' = [conn EXCEPT ![a].status = "disconnecting", ![a].age = 0] /\ log' = log
                ELSE conn' = conn /\ log' = log
        ELSE IF a \in DOMAIN temp
        THEN \* temporary pool: only a challenge response is looked at
             /\ nobj' = nobj
             /\ IF d.k = "chal_ok"
                THEN /\ conn' = Put(conn, a, [obj |-> temp[a].obj, tok |-> temp[a].tok, age |-> 0, status |-> "ok"])
                     /\ temp' = Del(temp, a)
                     /\ log' = Append(log, [what |-> "connect", obj |-> temp[a].obj])
                ELSE UNCHANGED <<conn, temp, log>>
        ELSE \* unknown address: only a hello creates a client object, with a token from the generator
             IF d.k = "hello" /\ nobj < MaxObjs
             THEN /\ nobj' = nobj + 1
                  /\ \E t \in TokenSpace : (Unique => t \notin InUse) /\ temp' = Put(temp, a, [obj |-> nobj + 1, tok |-> t, age |-> 0])
                  /\ UNCHANGED <<conn, log>>
             ELSE UNCHANGED <<temp, conn, nobj, log>>
  /\ UNCHANGED <<active, down, raises>>
\* the handler raises in an event: nothing but the count changes (events keep flowing)
HandlerRaises == active /\ raises < 1 /\ raises' = raises + 1 /\ UNCHANGED <<temp, conn, queue, nobj, log, active, down>>
\* server-initiated disconnect from the handler
Kick(a) == /\ active /\ a \in DOMAIN conn /\ conn[a].status = "ok"
           /\ conn' = [conn EXCEPT ![a].status = "disconnecting"] /\ UNCHANGED <<temp, queue, nobj, log, active, down, raises>>
\* time passes for everybody
Tick == /\ active
        /\ conn' = [a \in DOMAIN conn |-> [conn[a] EXCEPT !.age = IF @ < Timeout THEN @ + 1 ELSE @]]
        /\ temp' = [a \in DOMAIN temp |-> [temp[a] EXCEPT !.age = IF @ < Timeout THEN @ + 1 ELSE @]]
        /\ UNCHANGED <<queue, nobj, log, active, down, raises>>
\* the sweep of one loop iteration
Gone(a) == conn[a].status = "disconnecting" \/ conn[a].age >= Timeout
Sweep == /\ active /\ queue = <<>>
         /\ \E a \in DOMAIN conn : Gone(a)
         /\ LET a == CHOOSE x \in DOMAIN conn : Gone(x) IN
            /\ log' = Append(log, [what |-> "disconnect", obj |-> conn[a].obj])
            /\ conn' = Del(conn, a)
         /\ UNCHANGED <<temp, queue, nobj, active, down, raises>>
SweepTemp == /\ active /\ \E a \in DOMAIN temp : temp[a].age >= Timeout
             /\ temp' = [a \in {x \in DOMAIN temp : temp[x].age < Timeout} |-> temp[a]]
             /\ UNCHANGED <<conn, queue, nobj, log, active, down, raises>>
\* ctxt.shutdown(): the loop exits, every connected client gets its disconnect, then the shutdown event
Shutdown == /\ active /\ active' = FALSE /\ UNCHANGED <<temp, conn, queue, nobj, log, down, raises>>
Drain == /\ ~active /\ ~down
         /\ IF conn # <<>>
            THEN LET a == CHOOSE x \in DOMAIN conn : TRUE IN
                 log' = Append(log, [what |-> "disconnect", obj |-> conn[a].obj]) /\ conn' = Del(conn, a) /\ down' = down
            ELSE log' = Append(log, [what |-> "shutdown", obj |-> 0]) /\ down' = TRUE /\ conn' = conn
         /\ UNCHANGED <<temp, queue, nobj, active, raises>>
Next == (\E a \in Addrs, k \in Kinds : Receive(a, k)) \/ ProcessOne \/ HandlerRaises \/ (\E a \in Addrs : Kick(a)) \/ Tick \/ Sweep \/ SweepTemp \/ Shutdown \/ Drain
Spec == Init /\ [][Next]_vars /\ WF_vars(Sweep) /\ WF_vars(Drain) /\ WF_vars(ProcessOne) /\ WF_vars(Tick)

\* ---- C10 -------------------------------------------------------------------------------------------
Events(o, w) == {i \in DOMAIN log : log[i].obj = o /\ log[i].what = w}
\* per client object the log reads  connect . msg* . disconnect  and nothing else
Lifecycle == \A o \in 1..nobj :
               /\ Cardinality(Events(o, "connect")) <= 1 /\ Cardinality(Events(o, "disconnect")) <= 1
               /\ \A i \in DOMAIN log : (log[i].obj = o /\ log[i].what \in {"msg", "disconnect"}) =>
                     \E j \in Events(o, "connect") : j < i
               /\ \A i \in Events(o, "msg") : \A j \in Events(o, "disconnect") : i < j
ConnectedMeansLogged == \A a \in DOMAIN conn : Events(conn[a].obj, "connect") # {} /\ Events(conn[a].obj, "disconnect") = {}
TokensDistinct == \A a, b \in DOMAIN conn : a # b => conn[a].tok # conn[b].tok
ShutdownLast == down => (log[Len(log)].what = "shutdown" /\ \A o \in 1..nobj : Events(o, "connect") # {} => Events(o, "disconnect") # {})
\* a connected client that says goodbye, goes silent, is kicked, or meets a shutdown is eventually reported disconnected
DisconnectEventually == \A o \in 1..MaxObjs : [](Events(o, "connect") # {} /\ (~active \/ \E a \in DOMAIN conn : conn[a].obj = o /\ Gone(a)) => <>(Events(o, "disconnect") # {}))
Bound == Len(log) <= 7
=============================================================================

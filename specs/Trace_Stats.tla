---------------------------- MODULE Trace_Stats ----------------------------
(* X09, code -> specification: the calls of recorded executions of real      *)
(* endpoints (a client connection driven the way UdpClient.update drives it, *)
(* a real ServerClientConnection driven the way the server loop drives it)   *)
(* are replayed through the operators of Stats.tla, and the statistics the   *)
(* code reports after every call are compared with the specification's.      *)
(*                                                                           *)
(* One trace = the calls of ONE endpoint.  One event = one call:             *)
(*   [now, recv ("none" | "accept" | "drop"), rsize, acts (sequence of        *)
(*    <<"ack" | "to", dseq>> in the order the code handled them), disc (0/1), *)
(*    k (messages queued during the call), built (0/1), esize (bytes of the   *)
(*    datagram handed to the socket, 0 = none), full (0/1: the call looked at *)
(*    every pending datagram for time-outs), obs (what the code reports)]     *)
(* applied in that order.  Time in microseconds.                             *)
EXTENDS StatsOps, Json, IOUtils
Traces == JsonDeserialize(IOEnv.TRACE_FILE)
ASSUME Len(Traces) > 0
VARIABLES tid, l, S, bad
tvars == <<tid, l, S, bad>>
Tr == Traces[tid]
Slack == 3            \* microseconds: the code computes in floating-point seconds

RECURSIVE Fold(_, _, _)
Fold(s, acts, t) == IF acts = <<>> THEN s
                    ELSE LET a == Head(acts) IN
                         Fold(IF a[2] \notin DOMAIN s.pend THEN s                      \* (reported by X_acts)
                              ELSE IF a[1] = "ack" THEN Ack(s, a[2], t) ELSE TimeoutOne(s, a[2]), Tail(acts), t)
ActsKnown(s, acts) == \A i \in DOMAIN acts : acts[i][2] \in DOMAIN s.pend /\ \A j \in DOMAIN acts : i # j => acts[i][2] # acts[j][2]
\* every time-out the code reported was due; and a call that examines all pending datagrams reports every one that is due
DueOK(s, e) == \A i \in DOMAIN e.acts : (e.acts[i][1] = "to" /\ e.acts[i][2] \in DOMAIN s.pend) => e.now - s.pend[e.acts[i][2]] >= Timeout - Slack
AllDue(s, e) == e.full = 1 => \A q \in DOMAIN s.pend : e.now - s.pend[q] >= Timeout + Slack => \E i \in DOMAIN e.acts : e.acts[i][2] = q

Expected(s, e) ==
  LET s1 == IF e.recv = "accept" THEN Accept(s, e.now, e.rsize) ELSE IF e.recv = "drop" THEN Drop(s) ELSE s
      s2 == Fold(s1, e.acts, e.now)
      s3 == IF e.disc = 1 THEN Disconnect(s2) ELSE s2
      s4 == Queue(s3, e.k - e.disc)
      s5 == IF e.built = 1 THEN Build(s4, e.now) ELSE s4
  IN IF e.esize > 0 THEN Encode(s5, e.esize) ELSE s5

Last(q) == q[Len(q)]
Failing(s, e) ==
  LET x == Expected(s, e) o == e.obs IN
  {c \in {"X_acts", "X_due", "X_alldue", "X_counters", "X_pend", "X_seq", "X_bins_sent", "X_bins_recv", "X_lat", "X_conserve", "X_rate"} :
    ~CASE c = "X_acts" -> ActsKnown(IF e.recv = "accept" THEN Accept(s, e.now, e.rsize) ELSE s, e.acts)
       [] c = "X_due" -> DueOK(s, e)
       [] c = "X_alldue" -> AllDue(s, e)
       [] c = "X_counters" -> /\ o.assembled = x.assembled /\ o.sent = x.queued /\ o.acked = x.acked /\ o.timeouts = x.timeouts
                              /\ o.received = x.received /\ o.dropped = x.dropped
       [] c = "X_pend" -> {o.pend[i] : i \in DOMAIN o.pend} = DOMAIN x.pend
       [] c = "X_seq" -> e.built = 1 => o.dseq = x.nseq
       [] c = "X_bins_sent" -> /\ o.ps[1] = Len(x.ps) /\ o.ps[2] = Last(x.ps) /\ o.ps[3] = x.encoded - x.rolledS
                               /\ o.bs[1] = Len(x.bs) /\ o.bs[2] = Last(x.bs) /\ o.bs[3] = x.bytesS - x.rolledBS
       [] c = "X_bins_recv" -> /\ o.pr[1] = Len(x.pr) /\ o.pr[2] = Last(x.pr) /\ o.pr[3] = x.accepted - x.rolledR
                               /\ o.br[1] = Len(x.br) /\ o.br[2] = Last(x.br) /\ o.br[3] = x.bytesR - x.rolledBR
       [] c = "X_lat" -> o.lat - x.lat \in (-(Slack + Len(e.acts)))..(Slack + Len(e.acts)) /\ o.lat >= 0 /\ o.lat <= x.maxSample + Slack
       [] c = "X_conserve" -> o.assembled = o.acked + o.timeouts + x.abandoned + Len(o.pend)
       [] c = "X_rate" -> e.built = 1 => e.now - s.lastSend >= Interval - Slack}

TInit == tid \in 1..Len(Traces) /\ l = 1 /\ S = S0(0) /\ bad = {}
Step == /\ l <= Len(Tr) /\ bad = {}
        /\ LET e == Tr[l] f == Failing(S, e) IN
           IF f = {} THEN /\ l' = l + 1
                          /\ S' = [Expected(S, e) EXCEPT !.lat = e.obs.lat]          \* (the float is the authority for the next step: no drift)
                          /\ UNCHANGED <<tid, bad>>
                          /\ (l = Len(Tr) => PrintT("ACCEPT " \o ToString([tid |-> tid, events |-> Len(Tr), assembled |-> e.obs.assembled,
                                                                             rolled |-> Expected(S, e).rolledS + Expected(S, e).rolledR])))
           ELSE /\ PrintT("REJECT " \o ToString([tid |-> tid, l |-> l, failing |-> f, ev |-> e,
                                                 expected |-> [x \in {"assembled", "queued", "acked", "timeouts", "received", "dropped", "abandoned", "nseq", "lat", "lastSend", "lastRecv"} |-> Expected(S, e)[x]],
                                                 pend |-> DOMAIN Expected(S, e).pend,
                                                 bins |-> LET x == Expected(S, e) IN <<Len(x.ps), Last(x.ps), x.encoded - x.rolledS, Last(x.bs), x.bytesS - x.rolledBS,
                                                            Last(x.pr), x.accepted - x.rolledR, Last(x.br), x.bytesR - x.rolledBR>>]))
                /\ bad' = f /\ UNCHANGED <<tid, l, S>>
Done == (l > Len(Tr) \/ bad # {}) /\ UNCHANGED tvars
TSpec == TInit /\ [][Step \/ Done]_tvars
=============================================================================

------------------------------ MODULE HttpConn ------------------------------
EXTENDS Http
(***************************************************************************)
(* One connection.  Requests that the HTTP layer below the router accepts    *)
(* (WellFormed) are answered in order, each exactly as Expect says whatever  *)
(* came before (keep-alive carries no state); an accepted upgrade turns the  *)
(* connection into a websocket: Open is reported once, then every client     *)
(* frame in order, a Close frame is answered by exactly one Close frame.      *)
(***************************************************************************)
WellFormed(q) == /\ q.cl \in {"absent", "small", "exact", "over"}          \* Twisted itself refuses a malformed Content-Length
                 /\ (q.cl # "absent" => q.m \in {"POST", "PUT"})
                 /\ Expect(q).status # -1
CONSTANTS Frames, MaxSteps
VARIABLES mode,        \* "http", "ws", "closed" (we answered a Close frame)
          answered,    \* statuses sent so far, in order
          events,      \* websocket callbacks delivered so far: opcodes in order
          closes,      \* Close frames written by the server
          last, n
cvars == <<mode, answered, events, closes, last, n>>
CInit == mode = "http" /\ answered = <<>> /\ events = <<>> /\ closes = 0 /\ last = [op |-> "init"] /\ n = 0
SendRequest(q) == /\ mode = "http" /\ WellFormed(q)
                  /\ answered' = Append(answered, Expect(q).status)
                  /\ mode' = IF Expect(q).status = 101 THEN "ws" ELSE "http"
                  /\ events' = IF Expect(q).status = 101 THEN <<"open">> ELSE events
                  /\ last' = [op |-> "request", q |-> q] /\ UNCHANGED closes
SendFrame(f) == /\ mode \in {"ws", "closed"}
                /\ events' = Append(events, f)
                /\ closes' = IF f = "close" /\ mode = "ws" THEN closes + 1 ELSE closes
                /\ mode' = IF f = "close" THEN "closed" ELSE mode
                /\ last' = [op |-> "frame", f |-> f] /\ UNCHANGED answered
CNext == n < MaxSteps /\ n' = n + 1 /\ ((\E q \in Requests : SendRequest(q)) \/ (\E f \in Frames : SendFrame(f)))
CSpec == CInit /\ [][CNext]_cvars
OneClose == closes <= 1
OpenFirst == events # <<>> => events[1] = "open" /\ \A i \in 2..Len(events) : events[i] # "open"
=============================================================================

------------------------------- MODULE Stats -------------------------------
(* X09 design model: one endpoint's statistics (operators of StatsOps.tla)   *)
(* against an arbitrary environment; see StatsOps.tla for what is modelled.  *)
EXTENDS StatsOps
(* design model: one endpoint against an arbitrary environment.  A sequence number is not used again while its datagram is still awaiting   *)
(* an ack (the real ring has 65535 numbers, a datagram waits at most the ack time-out and at most 60 leave per second).                      *)
VARIABLES st, now, toEncode
vars == <<st, now, toEncode>>
Init == st = S0(0) /\ now = Units /\ toEncode = FALSE
Tick == now < MaxT /\ now' = now + 1 /\ UNCHANGED <<st, toEncode>>
DoQueue == st' = Queue(st, 1) /\ UNCHANGED <<now, toEncode>>
DoBuild == now - st.lastSend >= Interval /\ Inc(st.nseq) \notin DOMAIN st.pend /\ st' = Build(st, now) /\ toEncode' = TRUE /\ UNCHANGED now
DoEncode == toEncode /\ \E z \in Sizes : st' = Encode(st, z) /\ toEncode' = FALSE /\ UNCHANGED now
DoAccept == now >= 0 /\ \E z \in Sizes : st' = Accept(st, now, z) /\ UNCHANGED <<now, toEncode>>
DoDrop == st' = Drop(st) /\ UNCHANGED <<now, toEncode>>
DoAck == \E s \in DOMAIN st.pend : st' = Ack(st, s, now) /\ UNCHANGED <<now, toEncode>>
DoTimeout == \E s \in DOMAIN st.pend : Due(st, s, now) /\ st' = TimeoutOne(st, s) /\ UNCHANGED <<now, toEncode>>
DoDisconnect == st.abandoned = 0 /\ st' = Disconnect(st) /\ UNCHANGED <<now, toEncode>>
Next == Tick \/ DoQueue \/ DoBuild \/ DoEncode \/ DoAccept \/ DoDrop \/ DoAck \/ DoTimeout \/ DoDisconnect
Spec == Init /\ [][Next]_vars
Bounded == st.assembled <= 3 /\ st.queued <= 1 /\ st.accepted <= 2 /\ st.dropped <= 1     \* state constraint of the design model

(* every datagram assembled is acked, timed out, still pending, or was abandoned by disconnect(): none is counted twice, none vanishes *)
Conservation(S) == S.assembled = S.acked + S.timeouts + S.abandoned + Cardinality(DOMAIN S.pend)
BinsBounded(S) == Len(S.ps) = Cap /\ Len(S.bs) = Cap /\ Len(S.pr) = Cap /\ Len(S.br) = Cap
(* the bins hold exactly the datagrams sent / accepted, minus what has rolled off the old end *)
BinsCount(S) == /\ SumSeq(S.ps) + S.rolledS = S.encoded /\ SumSeq(S.pr) + S.rolledR = S.accepted
                /\ SumSeq(S.bs) + S.rolledBS = S.bytesS /\ SumSeq(S.br) + S.rolledBR = S.bytesR
LatBounded(S) == 0 <= S.lat /\ S.lat <= S.maxSample
RecvSplit(S) == S.received = S.accepted
InvConservation == Conservation(st)
InvBinsBounded == BinsBounded(st)
InvBinsCount == BinsCount(st)
InvLatBounded == LatBounded(st)
InvEncoded == st.encoded <= st.assembled
(* no datagram is reported as timed out before the time-out has passed (action property) *)
NoEarlyTimeout == [][st'.timeouts > st.timeouts => \E s \in DOMAIN st.pend : s \notin DOMAIN st'.pend /\ now - st.pend[s] >= Timeout]_vars
(* counters never decrease *)
Monotone == [][/\ st'.assembled >= st.assembled /\ st'.queued >= st.queued /\ st'.acked >= st.acked /\ st'.timeouts >= st.timeouts
               /\ st'.received >= st.received /\ st'.dropped >= st.dropped]_vars

(* expected by the docstring ("each bin is the statistics for a particular second", a FIFO of seconds): among the bins opened since the     *)
(* connection's first datagram, neighbours stand for consecutive seconds.  Fails: a second without a send opens no bin.                      *)
BinsAreSeconds == \A i \in 1..(Cap - 1) : st.psSec[i] >= st.born /\ st.born >= 0 => st.psSec[i + 1] = st.psSec[i] + 1
=============================================================================

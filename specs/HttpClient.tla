----------------------------- MODULE HttpClient -----------------------------
(***************************************************************************)
(* http_client.py - AsyncHTTPClientImpl: the game thread queues requests on *)
(* an asyncio loop thread and collects the answers later:                   *)
(*                                                                         *)
(*   get/put/post/delete   handle = RequestHandle(); loop.call_soon_thread- *)
(*                         safe(execute_async_function, handle, ...);       *)
(*                         self.handles.append(handle)                      *)
(*   loop thread           runs the queued calls in order; each ends with   *)
(*                         handle.ready = True (also when the request       *)
(*                         raised: response stays None)                     *)
(*   getResponses()        a GENERATOR over self.handles:                   *)
(*                             if handle.ready:                             *)
(*                                 if handle.callback: callback(response)   *)
(*                                 yield handle                             *)
(*                                 self.handles.pop(i)      <- after yield  *)
(*                             else: i += 1                                 *)
(*                                                                         *)
(* The generator is a process of its own: between two resumptions the game  *)
(* thread does other things, the loop thread completes requests, and the    *)
(* consumer may stop early (break / close), in which case the statement     *)
(* after the yield never runs.  One step = one resumption.                  *)
(***************************************************************************)
EXTENDS Integers, Sequences, FiniteSets, TLC

CONSTANTS MaxReq,         \* requests the game thread may issue
          NoCallback,     \* request ids issued without a callback
          Failing,        \* request ids whose transport raises
          AllowAbandon    \* the consumer may stop iterating after a yield (break, exception in the loop body, generator dropped)

VARIABLES handles,    \* self.handles: request ids in issue order
          jobs,       \* calls queued on the loop thread, in order
          ready,      \* set of ids with handle.ready
          gen,        \* the live generator: [i |-> index, at |-> "start" | "yield" | "done"], or NoGen
          calls,      \* ghost: ids whose callback ran, in order
          yielded,    \* ghost: ids yielded, in order
          nreq, last
vars == <<handles, jobs, ready, gen, calls, yielded, nreq, last>>

NoGen == [i |-> 0, at |-> "none"]
Init == handles = <<>> /\ jobs = <<>> /\ ready = {} /\ gen = NoGen /\ calls = <<>> /\ yielded = <<>> /\ nreq = 0
        /\ last = [op |-> "init", r |-> 0]

Submit == /\ nreq < MaxReq
          /\ nreq' = nreq + 1
          /\ handles' = Append(handles, nreq + 1) /\ jobs' = Append(jobs, nreq + 1)
          /\ last' = [op |-> "submit", r |-> nreq + 1]
          /\ UNCHANGED <<ready, gen, calls, yielded>>
\* the loop thread finishes its oldest queued call
Complete == /\ jobs # <<>>
            /\ ready' = ready \cup {Head(jobs)} /\ jobs' = Tail(jobs)
            /\ last' = [op |-> "complete", r |-> Head(jobs)]
            /\ UNCHANGED <<handles, gen, calls, yielded, nreq>>
GenStart == /\ gen = NoGen
            /\ gen' = [i |-> 1, at |-> "start"]
            /\ last' = [op |-> "gen_start", r |-> 0]
            /\ UNCHANGED <<handles, jobs, ready, calls, yielded, nreq>>
\* one resumption (next()): runs to the next yield or to the end
RECURSIVE Scan(_, _)
Scan(h, i) == IF i > Len(h) THEN 0 ELSE IF h[i] \in ready THEN i ELSE Scan(h, i + 1)      \* first ready handle at or after i, 0 if none
Drop(h, i) == SubSeq(h, 1, i - 1) \o SubSeq(h, i + 1, Len(h))
GenNext ==
  /\ gen.at \in {"start", "yield"}
  /\ LET h1 == IF gen.at = "yield" THEN Drop(handles, gen.i) ELSE handles        \* the statement after the yield: self.handles.pop(i)
         k == Scan(h1, gen.i) IN
     /\ handles' = h1
     /\ IF k = 0 THEN /\ gen' = [i |-> Len(h1) + 1, at |-> "done"] /\ UNCHANGED <<calls, yielded>>
                 ELSE /\ gen' = [i |-> k, at |-> "yield"]
                      /\ calls' = IF h1[k] \in NoCallback THEN calls ELSE Append(calls, h1[k])
                      /\ yielded' = Append(yielded, h1[k])
     /\ last' = [op |-> "gen_next", r |-> IF k = 0 THEN 0 ELSE h1[k]]
  /\ UNCHANGED <<jobs, ready, nreq>>
\* the consumer lets go of the generator: exhausted, or abandoned at a yield (close(): GeneratorExit is raised AT the yield)
GenClose == /\ gen # NoGen /\ (gen.at = "done" \/ (AllowAbandon /\ gen.at = "yield"))
            /\ gen' = NoGen
            /\ last' = [op |-> "gen_close", r |-> 0]
            /\ UNCHANGED <<handles, jobs, ready, calls, yielded, nreq>>
\* (with AllowAbandon the same callback can be repeated for ever: the model stops a behaviour after MaxReq + 2 yields)
Next == Submit \/ Complete \/ GenStart \/ (Len(yielded) < MaxReq + 2 /\ GenNext) \/ GenClose
Spec == Init /\ [][Next]_vars
FairSpec == Spec /\ WF_vars(Complete) /\ WF_vars(GenStart) /\ WF_vars(GenNext) /\ WF_vars(GenClose)

NoDup(s) == \A a, b \in DOMAIN s : a # b => s[a] # s[b]
CallbackAtMostOnce == NoDup(calls)                         \* holds only when AllowAbandon = FALSE  (finding: http-client-abandoned-generator)
YieldedOnlyReady == \A k \in DOMAIN yielded : yielded[k] \in ready
NothingForgotten == \A r \in 1..nreq : (r \in ready /\ gen = NoGen) => (r \in {yielded[k] : k \in DOMAIN yielded} \/ \E k \in DOMAIN handles : handles[k] = r)
PendingCount == Len(handles) <= nreq
\* liveness: a consumer that always iterates to the end sees every request
AllAnswered == \A r \in 1..MaxReq : (r <= nreq) ~> (\E k \in DOMAIN yielded : yielded[k] = r)
=============================================================================

------------------------------- MODULE Decoder -------------------------------
(***************************************************************************)
(* Hostile input for the binary decoder (serializable.py deserialize_value) *)
(* as a token grammar, used as a GENERATOR of adversarial byte strings and   *)
(* as a small pushdown transcription of the decoder that TLC checks for      *)
(* termination within a bound: every call consumes its 2 header bytes or     *)
(* fails, so the number of decoder invocations is at most n/2 + 1 for n      *)
(* input bytes, whatever lengths the input announces.                         *)
(*   token = [k, a]:  "atom" a = payload bytes it needs (null 0, bool 1,      *)
(*   int8 1 ... int64 8)   "coll" a = announced element count   "len"         *)
(*   (inside str/bytes) is folded into "blob" a = announced length            *)
(*   "unknown" = an unregistered type id   "eof" = input ends here            *)
(***************************************************************************)
EXTENDS Integers, Sequences, FiniteSets, TLC
CONSTANTS MaxTokens, Counts, BlobLens, MaxArray, MaxBlob

\* (negative numbers cannot be written in a cfg file)
CountsDef == {-1, 0, 1, 2, 3, 16384, 16385, 1048577}
BlobLensDef == {-5, 0, 1, 127, 128, 1048576, 1048577}
Tokens == {[k |-> "atom", a |-> n] : n \in {0, 1, 8}} \cup {[k |-> "coll", a |-> c] : c \in Counts}
          \cup {[k |-> "blob", a |-> l] : l \in BlobLens} \cup {[k |-> "unknown", a |-> 0]}
Inputs == UNION {[1..m -> Tokens] : m \in 1..MaxTokens}

\* bytes a token occupies in the input (header 2, count/length as an int8/int32 value 3..6, payload)
IntBytes(n) == IF n \in -127..127 THEN 3 ELSE IF n \in -32767..32767 THEN 4 ELSE 6
Size(t) == CASE t.k = "atom" -> 2 + t.a [] t.k = "coll" -> 2 + IntBytes(t.a) [] t.k = "blob" -> 2 + IntBytes(t.a) + (IF t.a > 0 /\ t.a <= MaxBlob THEN t.a ELSE 0) [] OTHER -> 2
RECURSIVE Total(_, _)
Total(inp, i) == IF i > Len(inp) THEN 0 ELSE Size(inp[i]) + Total(inp, i + 1)

\* the decoder as a machine: pos in the token sequence, stack of outstanding element counts, number of invocations so far
VARIABLES inp, pos, stack, calls, status
vars == <<inp, pos, stack, calls, status>>
Init == inp \in Inputs /\ pos = 1 /\ stack = <<1>> /\ calls = 0 /\ status = "run"
Pop(s) == IF s = <<>> THEN <<>> ELSE IF Head(s) <= 1 THEN Tail(s) ELSE <<Head(s) - 1>> \o Tail(s)
Step ==
  /\ status = "run"
  /\ IF stack = <<>> THEN status' = "value" /\ UNCHANGED <<inp, pos, stack, calls>>
     ELSE IF pos > Len(inp) THEN status' = "error" /\ calls' = calls + 1 /\ UNCHANGED <<inp, pos, stack>>      \* unexpected end of stream
     ELSE LET t == inp[pos] IN
          /\ calls' = calls + 1 + (IF t.k \in {"coll", "blob"} THEN 1 ELSE 0)                                  \* the count / length is itself a decoded value
          /\ pos' = pos + 1 /\ UNCHANGED inp
          /\ IF t.k = "unknown" THEN status' = "error" /\ UNCHANGED stack
             ELSE IF t.k = "coll" THEN (IF t.a > MaxArray THEN status' = "error" /\ UNCHANGED stack
                                        ELSE status' = "run" /\ stack' = (IF t.a <= 0 THEN Pop(stack) ELSE <<t.a>> \o Pop(stack)))
             ELSE IF t.k = "blob" /\ t.a > MaxBlob THEN status' = "error" /\ UNCHANGED stack
             ELSE status' = "run" /\ stack' = Pop(stack)
Done == status # "run" /\ UNCHANGED vars
Spec == Init /\ [][Step \/ Done]_vars
\* every invocation consumes at least its two header bytes: the work is bounded by the input, not by what the input announces
Bounded == calls <= Total(inp, 1) \div 2 + 2
Terminates == <>(status # "run")
=============================================================================

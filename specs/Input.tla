-------------------------------- MODULE Input --------------------------------
(***************************************************************************)
(* The input pipeline of the pygame engine (pylon/engine.py) and the Timer  *)
(* it is built on (timer.py), as three small machines over integer time:    *)
(*                                                                         *)
(*  Timer            update(dt) accumulates time and fires its callback at  *)
(*                   most once per call, half a frame early at most; the    *)
(*                   remainder is carried over, so it does not drift.       *)
(*  InputController  a delay line: a user input event is applied to the     *)
(*                   entity exactly input_delay update() calls after the    *)
(*                   one in which it arrived, once, in arrival order.        *)
(*  RemoteInputController  a jitter buffer: states received from the        *)
(*                   network are applied in clock order, each at most once, *)
(*                   at most one per update(), and only once the local      *)
(*                   input clock has passed the state's clock by the        *)
(*                   configured delay; a state that arrives too late is     *)
(*                   dropped and pulls the input clock back by a quarter    *)
(*                   of its lateness.                                       *)
(*                                                                         *)
(* Time unit: 1/7680 s, so that a frame (1/64 s in the harness) is 120 and  *)
(* the Timer's half INTERVAL (1/120 s) is 64: every float the real code      *)
(* computes is a dyadic rational the model holds exactly, and the one        *)
(* non-dyadic threshold (duration - 1/120) can never be hit exactly.         *)
(***************************************************************************)
EXTENDS Integers, Sequences, FiniteSets, TLC

CONSTANTS Duration,      \* Timer: expires_t
          Half,          \* Timer.INTERVAL / 2
          Dts,           \* frame lengths the environment may choose
          InputDelay,    \* InputController: frames
          NetDelay,      \* RemoteInputController.input_delay
          Clocks,        \* clock stamps network states may carry
          MaxEvents, MaxTime

VARIABLES
  \* Timer
  elapsed, fires, total, wrapped,
  \* InputController
  line,            \* sequence of InputDelay+1 slots, each a sequence of event ids
  applied,         \* event ids applied to the entity, in order
  arrivals,        \* ghost: event id -> number of updates that had happened when it arrived
  updates, nextEv,
  \* RemoteInputController
  first, iclock,   \* first_receive, input_clock  (iclock is 64 x input_clock, to hold three successive quarter corrections exactly)
  queue,           \* priority queue: sequence of [clock, id] sorted by (clock, arrival)
  prev,            \* clock of the previously applied state, or -1
  setstates,       \* ids applied with setState, in order
  dropped, nextMsg, recvd,
  last
vars == <<elapsed, fires, total, wrapped, line, applied, arrivals, updates, nextEv, first, iclock, queue, prev, setstates, dropped, nextMsg, recvd, last>>

Init == /\ elapsed = 0 /\ fires = 0 /\ total = 0 /\ wrapped = FALSE
        /\ line = [i \in 1..(InputDelay + 1) |-> <<>>] /\ applied = <<>> /\ arrivals = <<>> /\ updates = 0 /\ nextEv = 1
        /\ first = FALSE /\ iclock = 0 /\ queue = <<>> /\ prev = -1 /\ setstates = <<>> /\ dropped = {} /\ nextMsg = 1 /\ recvd = <<>>
        /\ last = [op |-> "init", a |-> 0, fired |-> FALSE]

(* ---- Timer.update(dt) *)
TimerUpdate(dt) ==
  LET e == elapsed + dt IN
  /\ total' = total + dt
  /\ IF e >= Duration - Half
     THEN /\ fires' = fires + 1
          /\ elapsed' = IF e > 2 * Duration THEN 0 ELSE e - Duration
          /\ wrapped' = (wrapped \/ e > 2 * Duration)
     ELSE /\ elapsed' = e /\ UNCHANGED <<fires, wrapped>>
  /\ last' = [op |-> "timer", a |-> dt, fired |-> e >= Duration - Half]
  /\ UNCHANGED <<line, applied, arrivals, updates, nextEv, first, iclock, queue, prev, setstates, dropped, nextMsg, recvd>>

(* ---- InputController.onUserInput / update *)
UserInput ==
  /\ nextEv <= MaxEvents
  /\ line' = [line EXCEPT ![InputDelay + 1] = Append(@, nextEv)]
  /\ arrivals' = Append(arrivals, updates)
  /\ nextEv' = nextEv + 1
  /\ last' = [op |-> "input", a |-> nextEv, fired |-> FALSE]
  /\ UNCHANGED <<elapsed, fires, total, wrapped, applied, updates, first, iclock, queue, prev, setstates, dropped, nextMsg, recvd>>
ControllerUpdate ==
  /\ applied' = applied \o line[1]
  /\ line' = Append(Tail(line), <<>>)
  /\ updates' = updates + 1
  /\ last' = [op |-> "cupdate", a |-> 0, fired |-> FALSE]
  /\ UNCHANGED <<elapsed, fires, total, wrapped, arrivals, nextEv, first, iclock, queue, prev, setstates, dropped, nextMsg, recvd>>

(* ---- RemoteInputController.receiveState / update      (iclock is S x input_clock) *)
S == 64
InsertSorted(q, m) == LET k == Cardinality({i \in DOMAIN q : q[i].clock <= m.clock}) IN SubSeq(q, 1, k) \o <<m>> \o SubSeq(q, k + 1, Len(q))
Receive(c) ==
  LET ic == IF first THEN iclock ELSE S * c
      t == ic - S * NetDelay
      m == [clock |-> c, id |-> nextMsg] IN
  /\ nextMsg <= MaxEvents
  /\ first' = TRUE
  /\ IF S * c >= t THEN /\ queue' = InsertSorted(queue, m) /\ iclock' = ic /\ UNCHANGED dropped
                   ELSE /\ (t - S * c) % 4 = 0             \* (the quarter correction stays on the model's grid; the floats of the code are exact either way)
                        /\ dropped' = dropped \cup {nextMsg} /\ iclock' = ic + (t - S * c) \div 4 /\ UNCHANGED queue
  /\ nextMsg' = nextMsg + 1
  /\ recvd' = Append(recvd, c)
  /\ last' = [op |-> "receive", a |-> c, fired |-> FALSE]
  /\ UNCHANGED <<elapsed, fires, total, wrapped, line, applied, arrivals, updates, nextEv, prev, setstates>>
Due(ic) == queue # <<>> /\ S * queue[1].clock < ic - S * NetDelay
RemoteUpdate(dt) ==
  LET ic == iclock + S * dt IN
  /\ iclock' = ic
  /\ IF Due(ic)
     THEN /\ setstates' = Append(setstates, queue[1].id) /\ prev' = queue[1].clock /\ queue' = Tail(queue)
     ELSE UNCHANGED <<setstates, prev, queue>>
  /\ last' = [op |-> "rupdate", a |-> dt, fired |-> Due(ic)]
  /\ UNCHANGED <<elapsed, fires, total, wrapped, line, applied, arrivals, updates, nextEv, first, dropped, nextMsg, recvd>>

\* the three machines share no state: each has its own specification (the others' variables keep their initial values)
TimerNext == \E dt \in Dts : (total + dt <= MaxTime /\ TimerUpdate(dt))
LineNext == UserInput \/ (updates < MaxEvents + InputDelay + 1 /\ ControllerUpdate)
RemoteNext == (\E c \in Clocks : Receive(c)) \/ (\E dt \in Dts : (iclock + S * dt <= S * MaxTime /\ RemoteUpdate(dt)))
TimerSpec == Init /\ [][TimerNext]_vars
LineSpec == Init /\ [][LineNext]_vars
RemoteSpec == Init /\ [][RemoteNext]_vars

(* ---- what a user relies on *)
\* Timer: no drift - as long as no frame was longer than a whole period, time passed = fires * period + carried remainder
NoDrift == ~wrapped => total = fires * Duration + elapsed
TimerEarlyAtMostHalf == elapsed >= 0 - Half
\* delay line: exactly once, in order, exactly InputDelay updates after arrival
AppliedInOrder == \A i \in DOMAIN applied : applied[i] = i
ExactDelay == \A e \in DOMAIN arrivals : (e \in DOMAIN applied) <=> (updates > arrivals[e] + InputDelay)
\* jitter buffer
ClockOf(id) == recvd[id]
AppliedClocksAscend == \A i, j \in DOMAIN setstates : i < j => ClockOf(setstates[i]) <= ClockOf(setstates[j])
AtMostOnce == \A i, j \in DOMAIN setstates : i # j => setstates[i] # setstates[j]
NeverDroppedAndApplied == \A i \in DOMAIN setstates : setstates[i] \notin dropped
DelayedEnough == (last.op = "rupdate" /\ last.fired) => S * ClockOf(setstates[Len(setstates)]) < iclock - S * NetDelay
=============================================================================

------------------------------ MODULE Obs_Auth ------------------------------
(* Pass 1: TLC explores Auth and writes every distinct operation it can take *)
(* (the abstract test cases).  Pass 2: TLC judges the outcomes the real      *)
(* scrypt-based functions produced for the concretised cases.                *)
EXTENDS Auth, Json, IOUtils
Ops == {[op |-> "verify", q |-> q, p |-> p] : q \in Passwords, p \in Passwords}
       \cup {[op |-> "corrupt", q |-> q, p |-> p, kind |-> k] : q \in Passwords, p \in Passwords, k \in Kinds}
       \cup {[op |-> "twice", p |-> p] : p \in Passwords}
VARIABLE i
GenInit == Init /\ i = 0 /\ JsonSerialize(IOEnv.OUT_FILE, [ops |-> SetToSeq(Ops)])
ONext == UNCHANGED <<vars, i>>
Obs == JsonDeserialize(IOEnv.OBS_FILE)
\* row = [op, q, p, kind, out, same]  ; same = 1 when the corrupted string parses to the identical fields (not a corruption)
ObsInit == Init /\ i \in 1..Len(Obs)
Expect(r) == IF r.op = "verify" THEN (IF r.q = r.p THEN "true" ELSE "false")
             ELSE IF r.op = "corrupt" THEN (IF r.same = 1 THEN "any" ELSE "reject")
             ELSE "differ"
RowOK == LET r == Obs[i] IN IF r.op = "twice" THEN r.out = "differ" ELSE Accept(Expect(r), r.out)
Covers == i = 1 => \A o \in Ops : \E k \in DOMAIN Obs : Obs[k].op = o.op /\ Obs[k].p = o.p
                                   /\ (o.op # "twice" => Obs[k].q = o.q) /\ (o.op = "corrupt" => Obs[k].kind = o.kind)
Where == [i |-> i, row |-> Obs[i], expected |-> Expect(Obs[i])]
=============================================================================

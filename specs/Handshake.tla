------------------------------ MODULE Handshake ------------------------------
(***************************************************************************)
(* Symbolic (Dolev-Yao) model of the three-datagram handshake of            *)
(* connection.py / server.py / context.py (C02).                             *)
(*   CLIENT_HELLO  ch(pub)                      client ephemeral public key  *)
(*   SERVER_HELLO  sh(spub, salt, token, sig)   signed by the root key       *)
(*   CHALLENGE     cr(key, token)               token sealed under the key   *)
(* Keys are terms: K(x, y, salt) with {x, y} the Diffie-Hellman pair; a      *)
(* party can compute it iff it owns the private half of x or of y.           *)
(* Honest actions mirror the code, including its error paths: an invalid     *)
(* signature leaves the client DISCONNECTED with no key, an undecodable      *)
(* hello leaves it unchanged, a challenge that does not open under the       *)
(* temporary connection's key or carries another token promotes nothing.     *)
(* The attacker sees every datagram, can drop / duplicate / reorder /        *)
(* replay them from any address, compose hellos and challenges from what it  *)
(* knows, sign only with its own root key "A", and garble fields.             *)
(***************************************************************************)
EXTENDS Integers, Sequences, FiniteSets, TLC
CONSTANT MaxAttacker      \* attacker datagrams per behaviour

Addrs == {"ca", "xa"}                  \* the client's address and another one
None == "none"
NoKey == [pair |-> {}, salt |-> "none"]          \* "no key" as a term of the same shape as a key
K(x, y, n) == [pair |-> {x, y}, salt |-> n]
AttackerKnowsKey(k) == "a" \in k.pair      \* owns the private half "a" only
Sig(by, p, n, t) == [by |-> by, over |-> <<p, n, t>>]
SH(p, n, t, g) == [t |-> "sh", spub |-> p, salt |-> n, token |-> t, sig |-> g]
Garbled == [by |-> "garbled", over |-> <<>>]      \* a damaged signature or signed payload
Framing == [by |-> "framing", over |-> <<>>]      \* a hello that cannot even be decoded
ValidUnder(m, root) == m.sig.by = root /\ m.sig.over = <<m.spub, m.salt, m.token>>

VARIABLES cli,        \* [status, key, token, accepted]
          temps, conns,   \* addr -> session [eph, key, token] (function with domain \subseteq Addrs)
          nsess,      \* server sessions created so far (ephemeral s1, s2 ...)
          wire,       \* every datagram ever sent: set of [m, src]   (the attacker's knowledge)
          got,        \* addr -> set of challenge datagrams the server received from it
          connected,  \* handler connect events: sequence of addrs
          signedByR,  \* payloads the root key actually signed
          used, last
vars == <<cli, temps, conns, nsess, wire, got, connected, signedByR, used, last>>

Eph(i) == IF i = 1 THEN "s1" ELSE "s2"
Salt(i) == IF i = 1 THEN "n1" ELSE "n2"
Tok(i) == IF i = 1 THEN "t1" ELSE "t2"

Init == /\ cli = [status |-> "CONNECTING", key |-> NoKey, token |-> None, accepted |-> <<>>]
        /\ temps = <<>> /\ conns = <<>> /\ nsess = 0
        /\ wire = {[m |-> [t |-> "ch", pub |-> "c"], src |-> "ca"]}
        /\ got = [a \in Addrs |-> {}] /\ connected = <<>> /\ signedByR = {} /\ used = 0
        /\ last = [act |-> "init"]

\* ---- honest endpoints ---------------------------------------------------------------------------------
\* server loop: a hello from an unknown address opens a temporary connection and is answered with a signed hello
SrvHello(m, from) ==
  /\ m.t = "ch" /\ from \notin DOMAIN temps /\ from \notin DOMAIN conns /\ nsess < 2
  /\ LET i == nsess + 1 k == K(m.pub, Eph(i), Salt(i)) IN
     /\ nsess' = i
     /\ temps' = (from :> [eph |-> Eph(i), key |-> k, token |-> Tok(i)]) @@ temps
     /\ wire' = wire \cup {[m |-> SH(Eph(i), Salt(i), Tok(i), Sig("R", Eph(i), Salt(i), Tok(i))), src |-> "srv:" \o from]}
     /\ signedByR' = signedByR \cup {<<Eph(i), Salt(i), Tok(i)>>}
  /\ UNCHANGED <<cli, conns, got, connected>>
\* anything else from a known address, or a non-hello from an unknown one, changes nothing
SrvIgnore(m, from) ==
  /\ \/ (m.t = "ch" /\ (from \in DOMAIN temps \/ from \in DOMAIN conns \/ nsess >= 2))
     \/ (m.t = "bundle")          \* an unencrypted datagram that is not exactly one hello: nothing is processed, whatever it claims to carry
     \/ (m.t = "sh")
     \/ (m.t = "cr" /\ from \notin DOMAIN temps)
  /\ UNCHANGED <<cli, temps, conns, nsess, wire, got, connected, signedByR>>
\* a challenge from an address in the temporary pool
SrvChallenge(m, from) ==
  /\ m.t = "cr" /\ from \in DOMAIN temps
  /\ got' = [got EXCEPT ![from] = @ \cup {m}]
  /\ IF m.key = temps[from].key /\ m.token = temps[from].token
     THEN /\ conns' = (from :> temps[from]) @@ conns
          /\ temps' = [a \in (DOMAIN temps) \ {from} |-> temps[a]]
          /\ connected' = Append(connected, from)
     ELSE UNCHANGED <<conns, temps, connected>>
  /\ UNCHANGED <<cli, nsess, wire, signedByR>>
\* the client, configured with the root public key "R", receives a server hello
CliHello(m) ==
  /\ m.t = "sh"
  /\ IF cli.status = "CONNECTING" /\ cli.key = NoKey
     THEN IF m.sig = Framing                           \* undecodable: state unchanged
          THEN UNCHANGED <<cli, wire>>
          ELSE IF ValidUnder(m, "R")
          THEN /\ cli' = [status |-> "CONNECTED", key |-> K("c", m.spub, m.salt), token |-> m.token, accepted |-> <<m.spub, m.salt, m.token>>]
               /\ wire' = wire \cup {[m |-> [t |-> "cr", key |-> K("c", m.spub, m.salt), token |-> m.token], src |-> "ca"]}
          ELSE /\ cli' = [cli EXCEPT !.status = "DISCONNECTED"]      \* InvalidSignature
               /\ UNCHANGED wire
     ELSE UNCHANGED <<cli, wire>>                        \* a keyed (or given-up) client ignores hellos
  /\ UNCHANGED <<temps, conns, nsess, got, connected, signedByR>>
CliIgnore(m) == m.t # "sh" /\ UNCHANGED <<cli, temps, conns, nsess, wire, got, connected, signedByR>>

\* ---- network / attacker --------------------------------------------------------------------------------
ToServer(m, from) == SrvHello(m, from) \/ SrvIgnore(m, from) \/ SrvChallenge(m, from)
ToClient(m) == CliHello(m) \/ CliIgnore(m)
\* honest delivery: a datagram on the wire reaches its destination (any number of times, in any order: no budget)
DeliverHonest ==
  \E w \in wire :
     /\ last' = [act |-> "deliver", m |-> w.m, src |-> w.src]
     /\ used' = used
     /\ IF w.src = "ca" THEN ToServer(w.m, "ca") ELSE IF w.src = "srv:ca" THEN ToClient(w.m) ELSE FALSE
\* what the attacker can put on the wire
KnownPubs == {"c", "a", "A", "R"} \cup {w.m.spub : w \in {x \in wire : x.m.t = "sh"}}
KnownSalts == {"na"} \cup {w.m.salt : w \in {x \in wire : x.m.t = "sh"}}
KnownToks == {"ta"} \cup {w.m.token : w \in {x \in wire : x.m.t = "sh"}}
KnownSigs == {Garbled, Framing} \cup {w.m.sig : w \in {x \in wire : x.m.t = "sh"}}
AttackerHellos == {SH(p, n, t, g) : p \in KnownPubs \ {"A", "R"}, n \in KnownSalts, t \in KnownToks,
                                    g \in KnownSigs \cup {Sig("A", p2, n2, t2) : p2 \in KnownPubs \ {"A", "R"}, n2 \in KnownSalts, t2 \in KnownToks}}
AttackerChallenges == {[t |-> "cr", key |-> k, token |-> t] : t \in KnownToks,
                          k \in {K("a", p, n) : p \in KnownPubs \ {"A", "R", "a"}, n \in KnownSalts} \cup {[pair |-> {"garbage"}, salt |-> "x"],
                                [pair |-> {"plain"}, salt |-> "x"]}}        \* "plain": not sealed at all - the token (public: it travels in the clear hello) behind a valid CRC
Attack ==
  /\ used < MaxAttacker /\ used' = used + 1
  /\ \/ \E w \in wire, from \in Addrs :            \* replay / redirect any recorded datagram to the server from any address
          /\ last' = [act |-> "replay-to-server", m |-> w.m, src |-> from] /\ ToServer(w.m, from)
     \/ \E w \in wire :                             \* ... or to the client
          /\ last' = [act |-> "replay-to-client", m |-> w.m, src |-> "atk"] /\ ToClient(w.m)
     \/ \E from \in Addrs :                         \* its own client hello, from its own or a spoofed address
          /\ last' = [act |-> "atk-hello", m |-> [t |-> "ch", pub |-> "a"], src |-> from] /\ ToServer([t |-> "ch", pub |-> "a"], from)
     \/ \E m \in AttackerHellos :                   \* a composed / altered / re-signed / foreign server hello
          /\ last' = [act |-> "atk-srvhello", m |-> m, src |-> "atk"] /\ ToClient(m)
     \/ \E from \in Addrs, tk \in {"zero", "ta"} :     \* a plaintext datagram typed as a hello that bundles a challenge response (valid CRC, no key)
          /\ last' = [act |-> "atk-bundle", m |-> [t |-> "bundle", token |-> tk], src |-> from] /\ ToServer([t |-> "bundle", token |-> tk], from)
     \/ \E m \in AttackerChallenges, from \in Addrs :
          /\ last' = [act |-> "atk-challenge", m |-> m, src |-> from] /\ ToServer(m, from)
Next == DeliverHonest \/ Attack
Spec == Init /\ [][Next]_vars

\* ---- C02 -----------------------------------------------------------------------------------------------
\* connected and keyed only from a hello whose key-exchange parameters the root key signed
ClientAuth == cli.status = "CONNECTED" => cli.accepted \in signedByR
\* an altered, re-signed or foreign hello leaves the client unconnected with no key
NoKeyOnReject == cli.status # "CONNECTED" => cli.key = NoKey
\* the client's key is one the attacker cannot compute
KeySecret == ~AttackerKnowsKey(cli.key)
\* the server reports connected only after a challenge that opens under that connection's key and carries its token
Promotion == \A a \in DOMAIN conns : \E m \in got[a] : m.key = conns[a].key /\ m.token = conns[a].token
ConnectEvent == Len(connected) = Cardinality(DOMAIN conns) /\ \A i \in DOMAIN connected : connected[i] \in DOMAIN conns
\* after an honest handshake both ends hold the same key and token
Agreement == (used = 0 /\ cli.status = "CONNECTED" /\ "ca" \in DOMAIN conns) => (cli.key = conns["ca"].key /\ cli.token = conns["ca"].token)
HonestCompletes == (used = 0 /\ "ca" \in DOMAIN conns) => cli.status = "CONNECTED"
NoLast == <<cli, temps, conns, nsess, wire, got, connected, signedByR, used>>
=============================================================================

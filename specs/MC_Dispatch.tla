---------------------------- MODULE MC_Dispatch ----------------------------
EXTENDS Dispatch
\* r1b is a second instance of r1's class: same handler functions, another owner
HandlesDef == [r \in {"r1", "r1b", "r2", "r3"} |-> CASE r = "r1" -> {"A", "B"} [] r = "r1b" -> {"A", "B"} [] r = "r2" -> {"B", "C"} [] r = "r3" -> {"C", "D"}]

GraphView == <<reg, last>>
=============================================================================

------------------------------- MODULE Router -------------------------------
(***************************************************************************)
(* The HTTP router of http_server.py (Router.patternToRegex / getRoute /   *)
(* dispatch), specified by the documented pattern grammar, not by regular  *)
(* expressions:                                                             *)
(*    /abc    literal: equals the path segment in full                      *)
(*    /:n     one non-empty segment          /:n?   zero or one             *)
(*    /:n+    one or more trailing segments  /:n*   zero or more            *)
(* one optional trailing slash is tolerated; the first registered matching *)
(* route of the request's method wins; nothing matches -> 404.              *)
(*                                                                         *)
(* pattern = sequence of [k, v], k in lit/one/opt/plus/star                 *)
(* path    = non-empty sequence of segment strings; the URL is the          *)
(*           concatenation of "/" \o seg, so <<"">> is "/", <<"a","">> is   *)
(*           "/a/" (a final empty segment IS the trailing slash)            *)
(***************************************************************************)
EXTENDS Integers, Sequences, FiniteSets, SequencesExt, FiniteSetsExt, TLC

SeqsUpTo(S, n) == UNION {[1..m -> S] : m \in 0..n}
FinalOnly(p) == \A i \in 1..Len(p) : p[i].k \in {"opt", "plus", "star"} => i = Len(p)
HasEmpty(s) == \E q \in DOMAIN s : s[q] = ""

\* result: [ok |-> "yes"|"no"|"unspec", b |-> bindings], one binding (a sequence of segments) per parameter
No == [ok |-> "no", b |-> <<>>]
Un == [ok |-> "unspec", b |-> <<>>]
RECURSIVE M(_, _, _, _, _)
M(p, i, s, j, b) ==
  IF i > Len(p) THEN (IF j > Len(s) THEN [ok |-> "yes", b |-> b] ELSE No)
  ELSE LET seg == p[i] IN
    IF seg.k = "lit" THEN (IF j <= Len(s) THEN (IF s[j] = seg.v THEN M(p, i + 1, s, j + 1, b) ELSE No) ELSE No)
    ELSE IF seg.k = "one" THEN (IF j <= Len(s) THEN (IF s[j] # "" THEN M(p, i + 1, s, j + 1, Append(b, <<s[j]>>)) ELSE No) ELSE No)
    ELSE LET rest == SubSeq(s, j, Len(s)) IN
      IF seg.k = "opt" THEN (IF Len(rest) = 0 THEN [ok |-> "yes", b |-> Append(b, <<>>)]
                             ELSE IF Len(rest) = 1 THEN (IF HasEmpty(rest) THEN Un ELSE [ok |-> "yes", b |-> Append(b, rest)])
                             ELSE IF HasEmpty(rest) /\ Len(rest) <= 2 THEN Un ELSE No)
      \* ':n+' repeats what ':n' binds - a non-empty segment - one or more times: an empty segment among them is no match (the one tolerated
      \* trailing slash is handled in Matches).  For '?' and '*' the documented grammar is silent about empty segments: unspecified.
      ELSE IF seg.k = "plus" THEN (IF Len(rest) = 0 \/ HasEmpty(rest) THEN No ELSE [ok |-> "yes", b |-> Append(b, rest)])
      ELSE (IF HasEmpty(rest) THEN Un ELSE [ok |-> "yes", b |-> Append(b, rest)])

\* one optional trailing slash is tolerated
Matches(p, s) ==
  LET a == M(p, 1, s, 1, <<>>) IN
  IF a.ok = "yes" THEN a
  ELSE IF Len(s) > 0 /\ Last(s) = ""
       THEN LET c == M(p, 1, Front(s), 1, <<>>) IN
            IF c.ok = "yes" THEN c ELSE IF a.ok = "unspec" \/ c.ok = "unspec" THEN Un ELSE No
       ELSE a

\* the route table: first registered match of the request's method, else 404 (0); -1 = not specified
RECURSIVE FirstMatch(_, _, _, _)
FirstMatch(routes, k, method, path) ==
  IF k > Len(routes) THEN 0
  ELSE IF routes[k].method # method THEN FirstMatch(routes, k + 1, method, path)
  ELSE LET r == Matches(routes[k].pat, path).ok IN
       IF r = "yes" THEN k ELSE IF r = "unspec" THEN -1 ELSE FirstMatch(routes, k + 1, method, path)
=============================================================================

---------------------------- MODULE InputDevice ----------------------------
(* X10 (extension): KeyboardInputDevice of the pygame engine - what a game   *)
(* sends to the server as the player's direction and buttons.                *)
(*                                                                           *)
(* Keys is the keyboard; DirOf maps a key to the direction it is configured  *)
(* for (0 = none), BtnOf to its button (0 = none).  Several keys may be      *)
(* configured for one direction (W and the up arrow) or one button.          *)
(* Directions are the code's bit values: 1 UP, 2 RIGHT, 4 DOWN, 8 LEFT.      *)
(* The device remembers the ORDER in which directions were first pressed     *)
(* (`order`); the reported direction takes, per axis, the direction pressed  *)
(* EARLIEST among those still in `order`.                                    *)
(*                                                                           *)
(* As the code does it (handle_event): a KEYDOWN of a direction key appends  *)
(* the direction unless it is in `order` already and only then reports; a    *)
(* KEYUP of a direction key removes the direction if present and reports -   *)
(* whatever other key of that direction is still held.  Buttons likewise.    *)
EXTENDS Integers, Sequences, FiniteSets, TLC
CONSTANTS MaxOps
\* the keyboard of the model: W and the up arrow (both UP), right, down, left, space and enter (both button 1)
Keys == 1..7
DirOf == <<1, 1, 2, 4, 8, 0, 0>>
BtnOf == <<0, 0, 0, 0, 0, 1, 1>>
VARIABLES held,      \* keys physically down
          order,     \* the device's memory: directions in the order first pressed
          buttons,   \* the device's memory: button -> pressed?
          last,      \* [op, key, events]  events = what the callback was told by this call: <<"dir", d>> | <<"press", b>> | <<"release", b>>
          nops
vars == <<held, order, buttons, last, nops>>
Btns == {BtnOf[k] : k \in Keys} \ {0}
UD(d) == d \in {1, 4}
LR(d) == d \in {2, 8}
InSeq(x, s) == \E i \in DOMAIN s : s[i] = x
Remove(s, x) == SelectSeq(s, LAMBDA y : y # x)
RECURSIVE Report(_, _, _)
\* _getDirection: walk `order`, the first direction of each axis wins
Report(s, ud, lr) == IF s = <<>> THEN ud + lr
                     ELSE LET d == Head(s) IN Report(Tail(s), IF UD(d) /\ ud = 0 THEN d ELSE ud, IF LR(d) /\ lr = 0 THEN d ELSE lr)
Dir == Report(order, 0, 0)
Init == held = {} /\ order = <<>> /\ buttons = [b \in Btns |-> FALSE] /\ last = [op |-> "init", key |-> 0, events |-> <<>>] /\ nops = 0
KeyDown(k) ==
  /\ k \notin held /\ nops < MaxOps /\ nops' = nops + 1
  /\ held' = held \cup {k}
  /\ LET d == DirOf[k] b == BtnOf[k]
         o2 == IF d # 0 /\ ~InSeq(d, order) THEN Append(order, d) ELSE order
         e1 == IF d # 0 /\ ~InSeq(d, order) THEN << <<"dir", Report(o2, 0, 0)>> >> ELSE <<>>
         e2 == IF b # 0 THEN << <<"press", b>> >> ELSE <<>>
     IN /\ order' = o2
        /\ buttons' = IF b # 0 THEN [buttons EXCEPT ![b] = TRUE] ELSE buttons
        /\ last' = [op |-> "down", key |-> k, events |-> e1 \o e2]
KeyUp(k) ==
  /\ k \in held /\ nops < MaxOps /\ nops' = nops + 1
  /\ held' = held \ {k}
  /\ LET d == DirOf[k] b == BtnOf[k]
         o2 == IF d # 0 THEN Remove(order, d) ELSE order
         e1 == IF d # 0 /\ InSeq(d, order) THEN << <<"dir", Report(o2, 0, 0)>> >> ELSE <<>>
         e2 == IF b # 0 THEN << <<"release", b>> >> ELSE <<>>
     IN /\ order' = o2
        /\ buttons' = IF b # 0 THEN [buttons EXCEPT ![b] = FALSE] ELSE buttons
        /\ last' = [op |-> "up", key |-> k, events |-> e1 \o e2]
Next == \E k \in Keys : KeyDown(k) \/ KeyUp(k)
Spec == Init /\ [][Next]_vars

HeldDirs == {DirOf[k] : k \in held} \ {0}
\* what the code guarantees
NoDuplicates == \A i, j \in DOMAIN order : i # j => order[i] # order[j]
OrderIsHeld == \A i \in DOMAIN order : order[i] \in HeldDirs                     \* nothing reported that no key holds (no stuck direction)
DirWellFormed == Dir \in {0, 1, 2, 4, 8, 3, 6, 9, 12}                            \* never UP and DOWN, never LEFT and RIGHT at once
AllReleasedIsNone == held = {} => (order = <<>> /\ \A b \in Btns : ~buttons[b])
\* expected of an input device: the reported state is a function of what is held down - a direction some key holds is in the device's memory, a button some key holds is pressed
HeldIsRemembered == \A d \in HeldDirs : InSeq(d, order)
HeldButtonPressed == \A k \in held : BtnOf[k] # 0 => buttons[BtnOf[k]]
=============================================================================

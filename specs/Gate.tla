-------------------------------- MODULE Gate --------------------------------
(***************************************************************************)
(* Which datagrams may affect a connection (C01).  An attacker datagram is  *)
(* a CLASS; the endpoint under attack is in a SITUATION; Outcome is the     *)
(* rule: once a key exists only datagrams sealed under that key count, and  *)
(* before a key exists nothing but the single handshake hello of the right  *)
(* direction is processed.  The composition the code performs is: header    *)
(* parse -> (server loop: pool gate) -> Packet.from_bytes (GCM or CRC       *)
(* branch) -> duplicate check -> per-message dispatch.                       *)
(*   class = [seal, htype, count, inner, seqc, ackc]                        *)
(*     seal : "crc" (valid CRC, attacker content) | "gcm_ok" (a recorded    *)
(*            genuine datagram) | "gcm_trailing" (genuine + appended bytes) *)
(*            | "gcm_otherkey" | "random"                                    *)
(*     htype: packet type in the header, 0..7                                *)
(*     count: message count; inner: types of the inner messages              *)
(*     seqc : "fresh" | "dup" | "stale" relative to the receive window       *)
(*     ackc : "none" | "pending" (ack fields name datagrams awaiting acks)   *)
(*   situation = [side, keyed]                                               *)
(***************************************************************************)
EXTENDS Integers, Sequences, FiniteSets, TLC

Seals == {"crc", "gcm_ok", "gcm_trailing", "gcm_otherkey", "random"}
Inners == {"same", "app_app", "app_hello", "hello_app", "disc_app"}
Classes == {[seal |-> s, htype |-> t, count |-> n, inner |-> i, seqc |-> q, ackc |-> a] :
              s \in Seals, t \in 0..7, n \in {0, 1, 2, 3, 255}, i \in Inners, q \in {"fresh", "dup", "stale"}, a \in {"none", "pending"}}
Sensible(c) == /\ (c.count <= 1 => c.inner = "same")
               /\ (c.seal \in {"gcm_ok", "gcm_trailing"} => c.htype \in {4, 6} /\ c.count <= 1 /\ c.inner = "same" /\ c.ackc = "none")   \* what honest peers emit here
               /\ (c.seal = "random" => c.count = 0 /\ c.inner = "same" /\ c.htype = 0 /\ c.ackc = "none")
               /\ (c.seal = "gcm_otherkey" => c.count = 1 /\ c.inner = "same")
Situations == {[side |-> sd, keyed |-> k] : sd \in {"client", "server"}, k \in BOOLEAN}
HelloFor(side) == IF side = "client" THEN 2 ELSE 1      \* a client expects SERVER_HELLO, a server CLIENT_HELLO

\* "accepted": processed like a genuine datagram;  "dropped": duplicate, counted, nothing else;
\* "either": accepted or dropped;  "hello": the single handshake hello, processed by the handshake (C02), never application data;
\* "noeffect": discarded - no delivery, no ack/time-out, key/status/liveness clock/windows unchanged
Outcome(c, sit) ==
  IF sit.keyed
  THEN IF c.seal = "gcm_ok" THEN (IF c.seqc = "fresh" THEN "accepted" ELSE "dropped")
       ELSE IF c.seal = "gcm_trailing" THEN (IF c.seqc = "fresh" THEN "either" ELSE "dropped")
       ELSE "noeffect"
  ELSE IF c.seal = "crc" /\ c.count = 1 /\ c.htype = HelloFor(sit.side) THEN "hello"
       ELSE "noeffect"

\* ---- a small machine around the rule, so that TLC evaluates it in every situation ----------------
VARIABLES sit, delivered, resolved, keyEpoch, liveness, window, last
vars == <<sit, delivered, resolved, keyEpoch, liveness, window, last>>
Init == /\ sit \in Situations /\ delivered = 0 /\ resolved = 0 /\ keyEpoch = 0 /\ liveness = 0 /\ window = 0
        /\ last = [c |-> "none", out |-> "none"]
Inject(c) ==
  LET o == Outcome(c, sit) IN
  /\ last' = [c |-> c, out |-> o]
  /\ IF o \in {"accepted"} /\ delivered < 2 /\ window < 3
     THEN /\ delivered' = delivered + (IF c.htype = 6 THEN 1 ELSE 0) /\ liveness' = liveness + 1 /\ window' = window + 1
          /\ resolved' = resolved /\ UNCHANGED <<sit, keyEpoch>>
     ELSE IF o = "hello" /\ keyEpoch = 0 /\ liveness < 2
     THEN /\ keyEpoch' \in {0, 1} /\ liveness' = liveness + 1 /\ window' = window + 1     \* the handshake may or may not adopt a key (C02)
          /\ sit' = [sit EXCEPT !.keyed = (keyEpoch' = 1)] /\ UNCHANGED <<delivered, resolved>>
     ELSE UNCHANGED <<sit, delivered, resolved, keyEpoch, liveness, window>>
Next == \E c \in {x \in Classes : Sensible(x)} : Inject(c)
Spec == Init /\ [][Next]_vars
NoLast == <<sit, delivered, resolved, keyEpoch, liveness, window>>   \* VIEW: `last` only labels the transition just taken

\* ---- C01 ----------------------------------------------------------------------------------------
Authentic(c) == c.seal \in {"gcm_ok", "gcm_trailing"}
NoEffect == [][(sit.keyed /\ ~Authentic(last'.c)) => UNCHANGED <<delivered, resolved, keyEpoch, liveness, window, sit>>]_vars
PreKeyNoApp == [][~sit.keyed => delivered' = delivered]_vars
PreKeyOnlyHello == [][(~sit.keyed /\ <<liveness, window, keyEpoch>>' # <<liveness, window, keyEpoch>>)
                        => (last'.c.seal = "crc" /\ last'.c.count = 1 /\ last'.c.htype = HelloFor(sit.side))]_vars
KeyStable == [][sit.keyed => keyEpoch' = keyEpoch /\ sit'.keyed]_vars
=============================================================================

--------------------------------- MODULE Lru ---------------------------------
(* http_server.CacheDict: an OrderedDict that keeps at most Cap entries,     *)
(* evicting the least recently used one; reading or writing a key makes it   *)
(* the most recently used, a membership test does not.                       *)
EXTENDS Integers, Sequences, FiniteSets, TLC
CONSTANTS Keys, Vals, Cap
VARIABLES order,     \* keys, least recently used first (the dictionary's iteration order)
          val,       \* key -> value
          last
vars == <<order, val, last>>
Touch(o, k) == Append(SelectSeq(o, LAMBDA x : x # k), k)
Evict(o) == IF Len(o) > Cap THEN SubSeq(o, Len(o) - Cap + 1, Len(o)) ELSE o
Init == order = <<>> /\ val = <<>> /\ last = [op |-> "init", k |-> "", v |-> "", res |-> ""]
Set(k, v) == LET o == Evict(Touch(order, k)) keep == {o[i] : i \in DOMAIN o} IN
             /\ order' = o /\ val' = [x \in keep |-> IF x = k THEN v ELSE val[x]]
             /\ last' = [op |-> "set", k |-> k, v |-> v, res |-> ""]
Get(k) == /\ last' = [op |-> "get", k |-> k, v |-> "", res |-> IF k \in DOMAIN val THEN val[k] ELSE "KeyError"]
          /\ order' = IF k \in DOMAIN val THEN Touch(order, k) ELSE order
          /\ UNCHANGED val
Has(k) == /\ last' = [op |-> "has", k |-> k, v |-> "", res |-> IF k \in DOMAIN val THEN "yes" ELSE "no"]
          /\ UNCHANGED <<order, val>>
Next == \E k \in Keys : Get(k) \/ Has(k) \/ \E v \in Vals : Set(k, v)
Spec == Init /\ [][Next]_vars
Bounded == Len(order) <= Cap /\ DOMAIN val = {order[i] : i \in DOMAIN order}
\* the entry written or read last is never the one evicted next
MruSafe == (last.op = "set" \/ (last.op = "get" /\ last.res # "KeyError")) => (order # <<>> /\ order[Len(order)] = last.k)
=============================================================================

------------------------------ MODULE RateLimit ------------------------------
(***************************************************************************)
(* http_server.py: CacheDict (an LRU dictionary), RollingCounter (events    *)
(* in the last few time bins) and RateLimiter (one counter per client key,  *)
(* Router.dispatch answers 429 when insert(key) says "over the limit").      *)
(*                                                                         *)
(* The specification follows the code statement by statement, and names the *)
(* two places where the code does something its author cannot have meant:   *)
(*   ResetKeepsIndex  - RollingCounter.increment, in the branch "more than  *)
(*                      one period elapsed", resets the bins but does not   *)
(*                      store the new bin index;                            *)
(*   CapacityIsAKey   - RateLimiter builds CacheDict(capacity=n): the       *)
(*                      keyword is not CacheDict's (cache_len), so it       *)
(*                      becomes an ENTRY "capacity" and the cache keeps its *)
(*                      default length.                                     *)
(* With both constants TRUE the specification is the code (bound by graph   *)
(* replay, X02); with FALSE it is the evident intention.  TLC then answers  *)
(* what each variant guarantees - see the properties at the end.            *)
(***************************************************************************)
EXTENDS Integers, Sequences, FiniteSets, SequencesExt, TLC

CONSTANTS Keys,             \* client keys (addresses)
          Limit,            \* RateLimiter.limit
          Bins,             \* RollingCounter bins (4 in the code)
          BinMs,            \* interval_ms \div Bins
          CacheLen,         \* CacheDict.cache_len in effect
          StartMs, MaxMs,   \* clock range (ms); the real clock starts far beyond Bins * BinMs
          Steps,            \* clock increments the environment may take
          MaxInserts,       \* bound on the number of insert calls explored
          ResetKeepsIndex, CapacityIsAKey

VARIABLES now,              \* int(time.time() * 1000)
          order,            \* CacheDict self.counter: keys, least recently used first
          ctr,              \* key -> [cur, counts]  (RollingCounter._current_index, ._counts)
          last,             \* the last call and its result
          nins              \* number of insert calls so far (bounds the model)
vars == <<now, order, ctr, last, nins>>

Sum(s) == FoldLeft(LAMBDA a, b : a + b, 0, s)
NewCounter == [cur |-> 0, counts |-> <<>>]
Bogus == "capacity"
Init == /\ now = StartMs
        /\ order = IF CapacityIsAKey THEN <<Bogus>> ELSE <<>>
        /\ ctr = [k \in (IF CapacityIsAKey THEN {Bogus} ELSE {}) |-> NewCounter]
        /\ last = [op |-> "init", k |-> "", over |-> FALSE, count |-> 0]
        /\ nins = 0

Tick == \E d \in Steps : now + d <= MaxMs /\ now' = now + d /\ UNCHANGED <<order, ctr, nins>> /\ last' = [op |-> "tick", k |-> "", over |-> FALSE, count |-> d]

\* RollingCounter.increment at time `now`
Incr(c) ==
  LET index == now \div BinMs
      c1 == IF index = c.cur THEN c
            ELSE IF index - c.cur > Bins
                 THEN [cur |-> IF ResetKeepsIndex THEN c.cur ELSE index, counts |-> <<0>>]
                 ELSE LET a == Append(c.counts, 0) IN
                      [cur |-> index, counts |-> IF Len(a) > Bins THEN SubSeq(a, Len(a) - Bins + 1, Len(a)) ELSE a]
      \* counts[-1] += 1 : the code raises IndexError when counts is empty (a fresh counter whose first bin index equals 0 - unreachable on a real clock)
      n == Len(c1.counts)
  IN [c1 EXCEPT !.counts = [@ EXCEPT ![n] = @ + 1]]

\* CacheDict: __contains__ does not touch the order; __setitem__ and __getitem__ move the key to the end; eviction from the front
Touch(o, k) == Append(SelectSeq(o, LAMBDA x : x # k), k)
Evict(o) == IF Len(o) > CacheLen THEN SubSeq(o, Len(o) - CacheLen + 1, Len(o)) ELSE o

Insert(k) ==
  LET fresh == k \notin DOMAIN ctr
      o1 == IF fresh THEN Evict(Touch(order, k)) ELSE order           \* self.counter[k] = RollingCounter(...)
      o2 == Touch(o1, k)                                               \* self.counter[k]
      c0 == IF fresh THEN NewCounter ELSE ctr[k]
      c2 == Incr(c0)
      keep == {o2[i] : i \in DOMAIN o2}
  IN /\ (now \div BinMs # 0 \/ ~fresh)                                 \* (the IndexError corner above is outside the modelled clock range)
     /\ order' = o2
     /\ ctr' = [x \in keep |-> IF x = k THEN c2 ELSE ctr[x]]
     /\ last' = [op |-> "insert", k |-> k, over |-> Sum(c2.counts) > Limit, count |-> Sum(c2.counts)]
     /\ nins' = nins + 1
     /\ UNCHANGED now

Next == Tick \/ (nins < MaxInserts /\ \E k \in Keys : Insert(k))
Spec == Init /\ [][Next]_vars

(***************************************************************************)
(* What the limiter guarantees.                                             *)
(***************************************************************************)
TypeOK == Len(order) <= CacheLen /\ DOMAIN ctr = {order[i] : i \in DOMAIN order}
\* the code as it is (both deviations TRUE, a real clock): no request is ever refused, whatever the client does
NeverLimits == last.op = "insert" => (~last.over /\ last.count = 1)
=============================================================================

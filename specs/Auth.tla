-------------------------------- MODULE Auth --------------------------------
(***************************************************************************)
(* Password hashing (auth.py).  Deliberately thin: a hash record remembers  *)
(* the password it was made from and a fresh salt; verification compares    *)
(* passwords; a corrupted record never verifies.  The cryptographic         *)
(* strength behind "every other password" is assumed, not modelled.         *)
(***************************************************************************)
EXTENDS Integers, Sequences, FiniteSets, SequencesExt, TLC
CONSTANTS Passwords,   \* password classes (concretised by the harness)
          Kinds        \* corruption kinds (each concretised to many strings)

VARIABLES recs,        \* hash records made so far: sequence of [pw, salt]
          nsalt,
          last         \* [op, a, b, expect]
vars == <<recs, nsalt, last>>
Init == recs = <<>> /\ nsalt = 0 /\ last = [op |-> "init", a |-> 0, b |-> 0, expect |-> "none"]

Hash(p) == /\ Len(recs) < 2
           /\ nsalt' = nsalt + 1
           /\ recs' = Append(recs, [pw |-> p, salt |-> nsalt + 1])
           /\ last' = [op |-> "hash", a |-> p, b |-> 0, expect |-> "string"]
Verify(q, k) == /\ k \in DOMAIN recs
                /\ last' = [op |-> "verify", a |-> q, b |-> k, expect |-> IF q = recs[k].pw THEN "true" ELSE "false"]
                /\ UNCHANGED <<recs, nsalt>>
\* a malformed / truncated / edited hash: ValueError, TypeError or False - never True, never another exception
VerifyCorrupt(q, k, kind) == /\ k \in DOMAIN recs
                             /\ last' = [op |-> "corrupt", a |-> q, b |-> <<k, kind>>, expect |-> "reject"]
                             /\ UNCHANGED <<recs, nsalt>>
Next == \/ \E p \in Passwords : Hash(p)
        \/ \E q \in Passwords, k \in 1..2 : Verify(q, k)
        \/ \E q \in Passwords, k \in 1..2, kind \in Kinds : VerifyCorrupt(q, k, kind)
Spec == Init /\ [][Next]_vars

FreshSalts == \A x, y \in DOMAIN recs : x # y => recs[x].salt # recs[y].salt
RightVerifies == last.op = "verify" => (last.expect = "true" <=> last.a = recs[last.b].pw)
\* outcome judgement for the observation table
Accept(expect, out) == CASE expect = "true"   -> out = "true"
                         [] expect = "false"  -> out = "false"
                         [] expect = "reject" -> out \in {"false", "ValueError", "TypeError"}
                         [] OTHER -> TRUE
=============================================================================

----------------------------- MODULE DummyLink -----------------------------
(* X12 (extension): DummyClient of the pygame engine - the stand-in for a    *)
(* network client that a single-player game (or a replay) plugs into its     *)
(* InputController: send() puts a state message into the last of `Delay`     *)
(* slots, update() hands the messages of the first slot to the remote        *)
(* controller's receiveState and shifts the slots.  A message sent between   *)
(* two updates therefore arrives during the Delay-th update after it, once,  *)
(* in sending order - the same latency for every message (ExactDelay).       *)
EXTENDS Integers, Sequences, TLC
CONSTANTS Delay, MaxOps
VARIABLES slots,      \* sequence of Delay sequences of message ids
          nsent, nupd,
          sentAt,     \* message id -> number of updates that had happened when it was sent
          gotAt,      \* message id -> number of the update that delivered it (sequence of <<id, update>>)
          last
vars == <<slots, nsent, nupd, sentAt, gotAt, last>>
Init == slots = [i \in 1..Delay |-> <<>>] /\ nsent = 0 /\ nupd = 0 /\ sentAt = <<>> /\ gotAt = <<>> /\ last = [op |-> "init", delivered |-> <<>>]
Send == /\ nsent + nupd < MaxOps
        /\ nsent' = nsent + 1
        /\ slots' = [slots EXCEPT ![Delay] = Append(@, nsent + 1)]
        /\ sentAt' = Append(sentAt, nupd)
        /\ last' = [op |-> "send", delivered |-> <<>>]
        /\ UNCHANGED <<nupd, gotAt>>
Update == /\ nsent + nupd < MaxOps
          /\ nupd' = nupd + 1
          /\ gotAt' = gotAt \o [i \in 1..Len(slots[1]) |-> <<slots[1][i], nupd + 1>>]
          /\ slots' = Append(Tail(slots), <<>>)
          /\ last' = [op |-> "update", delivered |-> slots[1]]
          /\ UNCHANGED <<nsent, sentAt>>
Next == Send \/ Update
Spec == Init /\ [][Next]_vars
\* every delivered message arrived during the Delay-th update after it was sent, and deliveries come in sending order, each once
ExactDelay == \A i \in DOMAIN gotAt : gotAt[i][2] = sentAt[gotAt[i][1]] + Delay
InOrderOnce == \A i \in DOMAIN gotAt : gotAt[i][1] = i
NothingStuck == \A m \in 1..nsent : nupd >= sentAt[m] + Delay => \E i \in DOMAIN gotAt : gotAt[i][1] = m
SlotsShape == Len(slots) = Delay
=============================================================================

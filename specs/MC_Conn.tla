------------------------------ MODULE MC_Conn ------------------------------
EXTENDS Conn
CONSTANTS p1, p2, p3, p4, p5
R_G_N == (p1 :> "RETRY") @@ (p2 :> "NONE")
R_G_B == (p1 :> "RETRY") @@ (p2 :> "BEST")
R_G_B_N == (p1 :> "RETRY") @@ (p2 :> "BEST") @@ (p3 :> "NONE")
R_AllPlain == (p1 :> "NONE") @@ (p2 :> "NONE") @@ (p3 :> "NONE") @@ (p4 :> "NONE")
R_Plain3 == (p1 :> "NONE") @@ (p2 :> "NONE") @@ (p3 :> "NONE") @@ (p4 :> "RETRY")
R_Plain4G == (p1 :> "NONE") @@ (p2 :> "NONE") @@ (p3 :> "NONE") @@ (p4 :> "NONE") @@ (p5 :> "RETRY")
=============================================================================

----------------------------- MODULE Trace_Nonce -----------------------------
(* Code -> spec for C03 on histories long enough to wrap the 16-bit counter   *)
(* several times: only the emission events of both real endpoints are          *)
(* consumed (compact rows), and every premise of Nonce.tla is checked at       *)
(* every emission: next sequence number on the ring (never 0), rate cap,       *)
(* time field = the clock's second, clock not going back, direction byte,      *)
(* sealed under the session key with the 20 header bytes as AAD.               *)
(* row = <<side (0 client / 1 server), now (100us units), dseq, sec, sealed,   *)
(*         nseals, aadok, toserver, leak>>                                      *)
EXTENDS Integers, Sequences, TLC, Json, IOUtils
CONSTANTS M, IntervalUnits
Traces == JsonDeserialize(IOEnv.TRACE_FILE)
ASSUME Len(Traces) > 0
VARIABLES tid, l, seq, last, bad
Inc(s) == IF s = 0 THEN 1 ELSE (s % M) + 1
Tr == Traces[tid].rows
TInit == tid \in 1..Len(Traces) /\ l = 1 /\ seq = <<Traces[tid].start, Traces[tid].start>> /\ last = <<-1000000, -1000000>> /\ bad = {}
Failing(r) == LET s == r[1] + 1 IN
  {c \in {"N_seq", "N_rate", "N_sec", "N_clock", "N_dir", "N_sealed", "N_aad", "N_clear"} :
     ~CASE c = "N_seq" -> r[3] = Inc(seq[s]) /\ r[3] \in 1..M
        [] c = "N_rate" -> r[2] - last[s] >= IntervalUnits - 2
        [] c = "N_sec" -> r[4] = r[2] \div 10000
        [] c = "N_clock" -> r[2] >= last[s]
        [] c = "N_dir" -> r[8] = 1 - r[1]
        [] c = "N_sealed" -> r[5] = 1
        [] c = "N_aad" -> r[6] = 1 /\ r[7] = 1
        [] c = "N_clear" -> r[9] = 0}
Step == /\ l <= Len(Tr) /\ bad = {}
        /\ LET r == Tr[l] f == Failing(r) IN
           IF f = {} THEN /\ l' = l + 1 /\ seq' = [seq EXCEPT ![r[1] + 1] = r[3]] /\ last' = [last EXCEPT ![r[1] + 1] = r[2]] /\ UNCHANGED <<tid, bad>>
                          /\ (l = Len(Tr) => PrintT("ACCEPT " \o ToString([tid |-> tid, events |-> Len(Tr)])))
           ELSE /\ PrintT("REJECT " \o ToString([tid |-> tid, l |-> l, failing |-> f, row |-> r, seq |-> seq, last |-> last]))
                /\ bad' = f /\ UNCHANGED <<tid, l, seq, last>>
Done == (l > Len(Tr) \/ bad # {}) /\ UNCHANGED <<tid, l, seq, last, bad>>
TSpec == TInit /\ [][Step \/ Done]_<<tid, l, seq, last, bad>>
=============================================================================

------------------------------- MODULE MC_Net -------------------------------
EXTENDS Net
\* lost / prompt / late enough to be overtaken and to outlive the resend interval / duplicated with a late copy
FatesQuick == {<<>>, <<0>>, <<9>>, <<0, 7>>}
FatesThorough == {<<>>, <<0>>, <<4>>, <<9>>, <<70>>, <<0, 7>>}
\* [len, retry, tick]: a guaranteed single-datagram message, a guaranteed 2-fragment message, a best-effort and an unreliable one, in several mixes
P(l, r, t) == [len |-> l, retry |-> r, tick |-> t]
PlansDef == { <<P(20, -1, 0)>>, <<P(20, -1, 0), P(6, 0, 1)>>, <<P(2000, -1, 0)>>, <<P(2000, -1, 0), P(30, 1, 2)>>,
              <<P(20, 1, 0), P(20, 0, 0), P(20, -1, 3)>>, <<P(1434, 0, 0), P(1433, -1, 1)>> }
=============================================================================

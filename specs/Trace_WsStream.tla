--------------------------- MODULE Trace_WsStream ---------------------------
(* Code -> spec: recorded runs of the real WebSocketTemporaryHandler (real   *)
(* frame sizes incl. the 126- and 127-length classes, random TCP chunking)   *)
(* must be behaviours of WsStream: after every read the endpoint has exactly *)
(* the complete frames of the bytes handed over so far.                       *)
EXTENDS WsFrame, Sequences, FiniteSets, TLC, Json, IOUtils
Traces == JsonDeserialize(IOEnv.TRACE_FILE)
\* trace = [frames: payload lengths, reads: [[k, delivered, content_ok, raised]...]]
VARIABLES tid, l, pos, delivered
FrameSize(n) == HeaderLen(1, n) + n
RECURSIVE End(_, _)
End(f, k) == IF k = 0 THEN 0 ELSE End(f, k - 1) + FrameSize(f[k])
Complete(f, p) == Cardinality({k \in 1..Len(f) : End(f, k) <= p})
TInit == tid \in 1..Len(Traces) /\ l = 1 /\ pos = 0 /\ delivered = 0
Tr == Traces[tid]
Read == /\ l <= Len(Tr.reads)
        /\ LET e == Tr.reads[l] IN
           /\ e[4] = 0                                          \* the handler did not raise
           /\ e[2] = Complete(Tr.frames, pos + e[1])            \* exactly the complete frames, no lag
           /\ e[3] = 1                                          \* each the frame that was sent, unmasked, in order
           /\ pos' = pos + e[1] /\ delivered' = e[2]
        /\ l' = l + 1 /\ UNCHANGED tid
Done == l > Len(Tr.reads) /\ UNCHANGED <<tid, l, pos, delivered>>
TSpec == TInit /\ [][Read \/ Done]_<<tid, l, pos, delivered>>
AllAtEnd == (l > Len(Tr.reads) /\ pos = End(Tr.frames, Len(Tr.frames))) => delivered = Len(Tr.frames)
Where == [tid |-> tid, l |-> l, pos |-> pos, delivered |-> delivered, frames |-> Tr.frames,
          ev |-> IF l <= Len(Tr.reads) THEN Tr.reads[l] ELSE <<>>,
          expected |-> IF l <= Len(Tr.reads) THEN Complete(Tr.frames, pos + Tr.reads[l][1]) ELSE delivered]
=============================================================================

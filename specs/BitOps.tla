------------------------------- MODULE BitOps -------------------------------
(***************************************************************************)
(* BitField.insert / BitField.contains of connection.py as operators on    *)
(* (cur, bits); `bits` is the set of offsets d in 1..W whose bit            *)
(* (onehot >> (d-1)) is set, i.e. "cur - d was received".  Shared by the   *)
(* window model, the connection model and every trace specification.       *)
(***************************************************************************)
EXTENDS SeqRing
\* ---- the code's computation, on wrapped numbers --------------------------
\* result: [out, cur, bits]; out \in {"first","advance","fill","dup","stale"}
WInsert(cur, bits, s, W) ==
  IF cur = 0 THEN [out |-> "first", cur |-> s, bits |-> {}]
  ELSE LET d == Diff(cur, s) IN
    IF d < 0 THEN
       LET n == -d IN
       IF n <= W THEN [out |-> "advance", cur |-> s,
                       bits |-> ({b + n : b \in bits} \cap (1..W)) \cup {n}]   \* bits >>= n ; bits |= onehot >> (n-1)
       ELSE [out |-> "advance", cur |-> s, bits |-> {}]
    ELSE IF d = 0 THEN [out |-> "dup", cur |-> cur, bits |-> bits]
    ELSE IF d \in bits THEN [out |-> "dup", cur |-> cur, bits |-> bits]          \* mask & bits
    ELSE IF d <= W THEN [out |-> "fill", cur |-> cur, bits |-> bits \cup {d}]
    ELSE [out |-> "stale", cur |-> cur, bits |-> bits]                           \* mask = 0: accepted, nothing recorded
WContains(cur, bits, s) == LET d == Diff(cur, s) IN d = 0 \/ (d > 0 /\ d \in bits)

W0 == [cur |-> 0, bits |-> {}]
=============================================================================

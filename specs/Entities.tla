------------------------------ MODULE Entities ------------------------------
(***************************************************************************)
(* pylon/engine.py - EntityStore and EntityGroup: the entity table of a     *)
(* scene and the per-frame cached views ("all solid entities") game code    *)
(* iterates over every frame.                                               *)
(*                                                                         *)
(*   store.entities    dict eid -> entity, in insertion order; addEntity     *)
(*                     with an id that is present REPLACES the entity and    *)
(*                     keeps its place; without an id the store hands out    *)
(*                     0x40000000, 0x40000001, ...                          *)
(*   store._mutated    counter, +1 per addEntity and per removeEntities-     *)
(*                     ByComponent (also when nothing was removed)          *)
(*   group.getEntities if this is the first access in a frame AND the store  *)
(*                     was mutated since the cache was built: rebuild;       *)
(*                     otherwise hand out the cached list                    *)
(*                                                                         *)
(* An index is a predicate over an entity's attributes (visible, destroy).  *)
(* Changing an attribute does not touch _mutated: the cached view keeps the  *)
(* old membership until the store itself is mutated (SetFlag below marks     *)
(* the affected views `dirty`; the freshness properties are stated for       *)
(* views that are not dirty).                                                *)
(***************************************************************************)
EXTENDS Integers, Sequences, FiniteSets, TLC

CONSTANTS MaxOps, Eids, MaxObj
Flags == {"visible", "destroy"}
Groups == {"all", "visible", "destroy"}
AutoBase == 1000            \* stands for 0x40000000: above every explicit id of the model

VARIABLES ents,       \* <<[id, o]>>: the dict in insertion order; o is the number of the entity object
          flags,      \* flags[o]: attributes of entity object o (objects are numbered in creation order)
          nauto, mutated, frame,
          cache,      \* cache[g]: [has |-> BOOLEAN, v |-> <<o, ...>>]
          gmut, glast,
          dirty,      \* ghost: an attribute change altered the membership of view g since its cache was built
          nops, last
vars == <<ents, flags, nauto, mutated, frame, cache, gmut, glast, dirty, nops, last>>

None == [has |-> FALSE, v |-> <<>>]
In(g, fl) == g = "all" \/ g \in fl
RECURSIVE Sel(_, _, _)
Sel(es, g, fl) == IF es = <<>> THEN <<>> ELSE (IF In(g, fl[Head(es).o]) THEN <<Head(es).o>> ELSE <<>>) \o Sel(Tail(es), g, fl)
RECURSIVE Keep(_, _, _)
Keep(es, g, fl) == IF es = <<>> THEN <<>> ELSE (IF In(g, fl[Head(es).o]) THEN <<>> ELSE <<Head(es)>>) \o Keep(Tail(es), g, fl)
Query(g) == Sel(ents, g, flags)
Pos(id) == IF \E k \in DOMAIN ents : ents[k].id = id THEN CHOOSE k \in DOMAIN ents : ents[k].id = id ELSE 0

Init == /\ ents = <<>> /\ flags = <<>> /\ nauto = 0 /\ mutated = 0 /\ frame = 1
        /\ cache = [g \in Groups |-> None] /\ gmut = [g \in Groups |-> 0] /\ glast = [g \in Groups |-> -1]
        /\ dirty = [g \in Groups |-> FALSE]
        /\ nops = 0 /\ last = [op |-> "init"]
Op == nops < MaxOps /\ nops' = nops + 1

\* addEntity(ent, eid) / addEntity(ent): a new entity object with attributes fl
Add(eid, fl) ==
  /\ Op /\ Len(flags) < MaxObj
  /\ LET o == Len(flags) + 1
         id == IF eid = 0 THEN AutoBase + nauto ELSE eid
         k == Pos(id) IN
     /\ flags' = Append(flags, fl)
     /\ nauto' = IF eid = 0 THEN nauto + 1 ELSE nauto
     /\ ents' = IF k = 0 THEN Append(ents, [id |-> id, o |-> o]) ELSE [ents EXCEPT ![k] = [id |-> id, o |-> o]]
     /\ last' = [op |-> "add", eid |-> eid, fl |-> fl]
  /\ mutated' = mutated + 1
  /\ UNCHANGED <<frame, cache, gmut, glast, dirty>>
\* removeEntitiesByComponent(g): returns the removed entities in table order
Remove(g) ==
  /\ Op
  /\ ents' = Keep(ents, g, flags)
  /\ mutated' = mutated + 1
  /\ last' = [op |-> "remove", g |-> g, res |-> Query(g)]
  /\ UNCHANGED <<flags, nauto, frame, cache, gmut, glast, dirty>>
\* game code flips an attribute of a live entity
SetFlag(k, f) ==
  /\ Op /\ k \in DOMAIN ents
  /\ LET o == ents[k].o
         nf == IF f \in flags[o] THEN flags[o] \ {f} ELSE flags[o] \cup {f} IN
     /\ flags' = [flags EXCEPT ![o] = nf]
     /\ dirty' = [g \in Groups |-> dirty[g] \/ (cache[g].has /\ g = f)]
     /\ last' = [op |-> "flag", k |-> k, f |-> f]
  /\ UNCHANGED <<ents, nauto, mutated, frame, cache, gmut, glast>>
\* group.getEntities()
Get(g) ==
  /\ Op
  /\ LET first == glast[g] < frame
         c1 == IF first /\ gmut[g] # mutated THEN None ELSE cache[g]
         rebuild == ~c1.has IN
     /\ cache' = [cache EXCEPT ![g] = IF rebuild THEN [has |-> TRUE, v |-> Query(g)] ELSE c1]
     /\ gmut' = IF rebuild THEN [gmut EXCEPT ![g] = mutated] ELSE gmut
     /\ glast' = IF rebuild THEN [glast EXCEPT ![g] = frame] ELSE glast
     /\ dirty' = IF rebuild THEN [dirty EXCEPT ![g] = FALSE] ELSE dirty
     /\ last' = [op |-> "get", g |-> g, res |-> (IF rebuild THEN Query(g) ELSE c1.v), first |-> first]
  /\ UNCHANGED <<ents, flags, nauto, mutated, frame>>
NextFrame == /\ Op /\ frame' = frame + 1 /\ last' = [op |-> "frame"]
             /\ UNCHANGED <<ents, flags, nauto, mutated, cache, gmut, glast, dirty>>

Next == \/ \E e \in Eids \cup {0}, fl \in SUBSET Flags : Add(e, fl)
        \/ \E g \in Groups : Remove(g)
        \/ \E k \in 1..MaxObj, f \in Flags : SetFlag(k, f)
        \/ \E g \in Groups : Get(g)
        \/ NextFrame
Spec == Init /\ [][Next]_vars

\* an id names one entity
IdsUnique == \A a, b \in DOMAIN ents : a # b => ents[a].id # ents[b].id
\* ids handed out by the store never land on an entity that has an explicit id
AutoIdsFresh == \A k \in DOMAIN ents : ents[k].id >= AutoBase => ents[k].id < AutoBase + nauto
\* a view that was built since the last mutation of the store (and whose membership no attribute change altered) is exact
Coherent == \A g \in Groups : (cache[g].has /\ gmut[g] = mutated /\ ~dirty[g]) => cache[g].v = Query(g)
\* the first access of a frame sees every mutation of the store made in earlier frames
FreshOnFirstAccess == (last.op = "get" /\ last.first /\ ~dirty[last.g]) => last.res = Query(last.g)
\* a view never hands out an entity twice
NoDuplicates == last.op = "get" => \A a, b \in DOMAIN last.res : a # b => last.res[a] # last.res[b]
=============================================================================

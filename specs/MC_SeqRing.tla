----------------------------- MODULE MC_SeqRing -----------------------------
(* Exhaustive check of the ring laws of C08 for one (small) ring size.     *)
(* State = a pair of true positions (p, q); every pair with |p-q| <= Half  *)
(* in three laps of the ring is an initial state, so the invariants are    *)
(* evaluated on every such pair.                                            *)
EXTENDS SeqRing, TLC
VARIABLES p, q
Laps == 3
Init == /\ p \in 1..(Laps * M)
        /\ q \in 1..(Laps * M)
        /\ (p - q) \in (-Half)..Half
Next == UNCHANGED <<p, q>>

NeverZero  == /\ Wrap(p) \in 1..M
              /\ \A k \in 1..M : Add(Wrap(p), k) \in 1..M /\ Sub(Wrap(p), k) \in 1..M
              /\ Add(M, 1) = 1 /\ Add(0, 1) = 1 /\ Sub(1, 1) = M
AddExact   == \A k \in 0..M : Add(Wrap(p), k) = Wrap(p + k) /\ (p > k => Sub(Wrap(p), k) = Wrap(p - k))
DiffExact  == Diff(Wrap(p), Wrap(q)) = p - q
OrderExact == /\ NewerThan(Wrap(p), Wrap(q)) = (p > q)
              /\ Lt(Wrap(p), Wrap(q)) = (p < q)
              /\ Gt(Wrap(p), Wrap(q)) = (p > q)
=============================================================================

----------------------------- MODULE Trace_Conn -----------------------------
(***************************************************************************)
(* Trace specification of the reliability layer (ConnectionBase of         *)
(* connection.py): executions recorded from two real endpoints over an     *)
(* adversarial in-memory network are checked, event by event, to be         *)
(* behaviours of this specification.  Every conjunct that a listed          *)
(* property pins is a NAMED clause (operators S_x B_x K_x R_x V_x E_x)  *)
(* so that a rejection names what failed (ALIAS Diag); everything the       *)
(* properties leave free (packing choice, resend cadence, internal          *)
(* plumbing) is bound to the logged value.                                   *)
(*                                                                         *)
(* Many traces per run: tid ranges over them as initial states.  An event   *)
(* is consumed only if every clause holds for it; otherwise the trace is     *)
(* rejected: `bad` records the false clauses and invariant Accepted fails.   *)
(* Time is in units of 100 microseconds of the virtual clock.                *)
(***************************************************************************)
EXTENDS BitOps, Sequences, SequencesExt, FiniteSets, TLC, Json, IOUtils
CONSTANT Skip
CONSTANTS Wp, Wm,          \* datagram / message window widths (32, 256)
          Keep,            \* message infos older than this many messages are pruned
          StaleMsgDeviation,   \* TRUE: accept the named deviation "msg-stale-redelivery" (KNOWN_FINDINGS) and record it
          CtxExpiryDeviation   \* TRUE: accept the named deviation "frag-context-expired" and record it

E == {"c", "s"}
Peer(e) == IF e = "c" THEN "s" ELSE "c"
Put(f, k, v) == (k :> v) @@ f
Get(f, k, dflt) == IF k \in DOMAIN f THEN f[k] ELSE dflt
Del(f, k) == [x \in (DOMAIN f) \ {k} |-> f[x]]
RestrictTo(f, S) == [x \in (DOMAIN f) \cap S |-> f[x]]
BagAdd(b, k) == Put(b, k, Get(b, k, 0) + 1)
Slack == 2                       \* two time units: rounding of the virtual clock to 100 us

Traces == JsonDeserialize(IOEnv.TRACE_FILE)
ASSUME Len(Traces) > 0      \* evaluated once, before the workers start (otherwise every worker parses the file)

VARIABLES tid, l,
  seqSend, seqMsg, seqFrag,
  minfo,      \* e -> (mseq -> [pid, kind, retry, hascb, fid, idx, cnt, len, done])
  ftx,        \* e -> (fid -> [pid, cnt, hascb, accT, accF, fired])          fragmented sends not yet reported
  pend,       \* e -> (dseq -> [t, ms])                                      unresolved datagrams only
  win, mwin,  \* receive windows
  frx,        \* e -> (fid -> [cnt, slots, pid])                             reassembly contexts
  delivered,  \* e -> pids handed to the application of e
  owedOpen,   \* e -> guaranteed pids sent by e and not yet delivered to the peer application
  cbOpen,     \* e -> pids whose callback must still fire exactly once
  lostCtx,    \* e -> pids whose reassembly context at e was discarded incomplete   (deviation frag-context-expired)
  staleDup,   \* pids delivered twice because the retransmission was older than the message window (deviation msg-stale-redelivery)
  bad         \* {} while the trace is accepted; else the names of the clauses the rejected event violates
vars == <<seqSend, seqMsg, seqFrag, minfo, ftx, pend, win, mwin, frx, delivered, owedOpen, cbOpen, lostCtx, staleDup>>

Tr == Traces[tid]
Ev == Tr[l]
P == Tr[1]                      \* the start event carries the parameters of the run
Area == P.mtu - 28 - 20 - 16    \* payload area of an encrypted datagram
Overhead(n) == IF n = 0 THEN 0 ELSE IF n = 1 THEN 2 ELSE 5 * n
FragLimit == P.maxfrag * P.fraglimit_k

TInit ==
  /\ tid \in 1..Len(Traces) /\ l = 2
  /\ LET s0 == Traces[tid][1].start IN
     seqSend = [e \in E |-> s0] /\ seqMsg = [e \in E |-> s0] /\ seqFrag = [e \in E |-> s0]
  /\ minfo = [e \in E |-> <<>>] /\ ftx = [e \in E |-> <<>>] /\ pend = [e \in E |-> <<>>]
  /\ win = [e \in E |-> W0] /\ mwin = [e \in E |-> W0] /\ frx = [e \in E |-> <<>>]
  /\ delivered = [e \in E |-> {}] /\ owedOpen = [e \in E |-> {}] /\ cbOpen = [e \in E |-> {}]
  /\ lostCtx = [e \in E |-> {}] /\ staleDup = {} /\ bad = {}

SumLen(app) == FoldLeft(LAMBDA acc, x : acc + x.len, 0, app)
ConsecFrom(app, s) == \A i \in DOMAIN app : app[i].mseq = Add(s, i)

(***************************************************************************)
(* send: ConnectionBase.send                                                *)
(***************************************************************************)
S_refuse(ev) == ev.len > FragLimit => (ev.res # "ok" /\ ev.appended = <<>>)            \* C06: above the limit refused, never truncated
S_ok(ev) == ev.len <= FragLimit => ev.res = "ok"                                       \* C05/C09: every size accepted
S_single(ev) == (ev.res = "ok" /\ ev.len <= P.maxpayload) =>                           \* C06: not fragmented up to the single-datagram limit
                  (Len(ev.appended) = 1 /\ ev.appended[1].type = 6 /\ ev.appended[1].len = ev.len /\ ev.fid = 0)
S_frag(ev, e) == (ev.res = "ok" /\ ev.len > P.maxpayload) =>                           \* C06: split exactly
                  /\ Len(ev.appended) >= 2 /\ \A i \in DOMAIN ev.appended : ev.appended[i].type = 7
                  /\ SumLen(ev.appended) = ev.len + 6 * Len(ev.appended)
                  /\ ev.fid = Inc(seqFrag[e])
S_fit(ev) == \A i \in DOMAIN ev.appended : ev.appended[i].len + 2 <= Area              \* C05/C09: every queued message can travel
S_seq(ev, e) == ConsecFrom(ev.appended, seqMsg[e])                                  \* C08: message seqs advance on the ring
S_retry(ev) == Len(ev.appended) = 1 => ev.appended[1].retry = ev.retry

\* the new message infos; infos Keep messages back are pruned (bounded state, and the ring re-uses numbers)
AddMsgs(mi, ev, e, kind) ==
  LET new == [ms \in {ev.appended[i].mseq : i \in DOMAIN ev.appended} |->
                LET i == Diff(ms, seqMsg[e]) a == ev.appended[i] IN
                [pid |-> ev.pid, kind |-> kind, retry |-> a.retry, hascb |-> IF kind = "app" THEN ev.hascb ELSE FALSE,
                 fid |-> ev.fid, idx |-> i, cnt |-> Len(ev.appended), len |-> a.len, done |-> FALSE]]
      old == {Sub(ms, Keep) : ms \in DOMAIN new}
  IN new @@ [x \in (DOMAIN mi) \ old |-> mi[x]]


(***************************************************************************)
(* build: _build_packet + _encode_packet (an envelope, not first-fit)        *)
(***************************************************************************)
SumMsgs(ms) == FoldLeft(LAMBDA acc, x : acc + x.len, 0, ms)
B_seq(ev, e) == ev.dseq = Inc(seqSend[e])                                              \* C08/C03: datagram seq advances by one, never 0
B_ack(ev, e) == ev.ack = win[e].cur /\ ToSet(ev.ackbits) = win[e].bits                 \* C08 AckExact
B_size(ev) == ev.size <= P.mtu - 28                                                    \* C09: at most MTU-28 bytes
B_count(ev) == /\ ev.count = Len(ev.msgs) /\ ev.count <= 255                           \* C09: count/length describe the payload
               /\ ev.length = ev.ptlen /\ ev.length = SumMsgs(ev.msgs) + Overhead(ev.count)
               /\ ev.size = 20 + ev.length + 16
B_known(ev, e) == \A i \in DOMAIN ev.msgs : LET m == ev.msgs[i] IN                     \* C06: only bytes the application queued
                    m.type \in {6, 7} =>
                      /\ m.mseq \in DOMAIN minfo[e]
                      /\ LET inf == minfo[e][m.mseq] IN
                         /\ inf.len = m.len
                         /\ (m.type = 6 => inf.kind = "app" /\ inf.pid = m.pid)
                         /\ (m.type = 7 => inf.kind = "frag" /\ inf.fid = m.fid /\ inf.idx = m.idx /\ inf.cnt = m.cnt)
B_together(ev) == ev.count < 255 =>                                                    \* C09: what fits together travels together
                    \A i \in DOMAIN ev.left : ev.left[i] + Overhead(ev.count + 1) + SumMsgs(ev.msgs) > Area
B_sealed(ev) == ev.sealed                                                              \* C03: AES-GCM under the session key, whole header authenticated
B_aad(ev) == ev.nseals = 1 /\ ev.aadok = 1 /\ ev.leak = 0                               \* C03: exactly one seal, nonce = first 12 header bytes, AAD = the 20 header bytes, no payload bytes in clear
B_sec(ev) == ev.sec = ev.now \div 10000                                                \* C03: the nonce's time field is the clock's second
B_rate(ev) == ev.gap = -1 \/ ev.gap >= P.interval - Slack                              \* C03 premise: send-rate cap
B_dir(ev, e) == (ev.toserver = 1) <=> (e = "c")                                        \* C03: direction byte separates the two nonce spaces


\* C01: a datagram that was not produced with the session key (bit-flipped / truncated / re-typed copy, forged plaintext with a valid CRC,
\* wrong-key ciphertext, random bytes), injected at this point of the history: discarded, nothing but the dropped counter moves
F_noeffect(ev) == ev.res \in {"false", "hdr"} /\ ev.changed = <<>> /\ ev.cbs = 0 /\ ev.acked = 0 /\ ev.timedout = 0
\* C08: the windows record datagrams and messages *received from the peer*; a datagram that fails authentication is not one of them
F_window(ev) == \A i \in DOMAIN ev.changed : ev.changed[i] \notin {"pbits", "pcur", "mbits", "mcur"}
\* nothing was built although messages are queued: none of them may fit an empty datagram (else it is stuck for ever)
K_notstuck(ev) == ev.capped = 1 \/ \A i \in DOMAIN ev.left : ev.left[i] + 2 > Area          \* C05/C09
\* packet construction raised: never acceptable (C09)
B_noraise(ev) == FALSE

(***************************************************************************)
(* resolution of datagrams (acked / timed out) and the callbacks owed       *)
(***************************************************************************)
\* accumulator: [bag, mi, ftx]; bag of <<pid, ok>> user callbacks expected in this event
FragCb(acc, fid, idx, ok) ==
  IF fid \notin DOMAIN acc.ftx THEN acc
  ELSE LET tx == acc.ftx[fid]
           t2 == [tx EXCEPT !.accT = IF ok THEN @ \cup {idx} ELSE @ \ {idx}, !.accF = IF ok THEN @ \ {idx} ELSE @ \cup {idx}]
           allDone == (t2.accT \cup t2.accF) = 1..t2.cnt IN
       IF allDone /\ ~t2.fired
       THEN [acc EXCEPT !.ftx = Put(@, fid, [t2 EXCEPT !.fired = TRUE]),
                        !.bag = IF t2.hascb THEN BagAdd(@, <<t2.pid, t2.accF = {}>>) ELSE @]
       ELSE [acc EXCEPT !.ftx = Put(@, fid, t2)]
Leaf(acc, inf, ok) ==
  IF inf.kind = "app" THEN (IF inf.hascb THEN [acc EXCEPT !.bag = BagAdd(@, <<inf.pid, ok>>)] ELSE acc)
  ELSE FragCb(acc, inf.fid, inf.idx, ok)
OneMsg(acc, mseq, ok) ==
  IF mseq \notin DOMAIN acc.mi THEN acc
  ELSE LET inf == acc.mi[mseq] IN
    IF inf.retry = -1 THEN
       IF inf.done THEN acc                                  \* a guaranteed send reports once, whatever else carried it
       ELSE IF ok THEN Leaf([acc EXCEPT !.mi = Put(@, mseq, [inf EXCEPT !.done = TRUE])], inf, TRUE)
       ELSE acc                                              \* timed out: re-queued, no report
    ELSE Leaf(acc, inf, ok)
RECURSIVE MsgsFold(_, _, _, _)
MsgsFold(acc, ms, j, ok) == IF j > Len(ms) THEN acc ELSE MsgsFold(OneMsg(acc, ms[j], ok), ms, j + 1, ok)
RECURSIVE ItemsFold(_, _, _, _)
ItemsFold(e, acc, items, i) ==
  IF i > Len(items) THEN acc
  ELSE ItemsFold(e, MsgsFold(acc, pend[e][items[i].dseq].ms, 1, items[i].ok), items, i + 1)
RECURSIVE CbBag(_, _, _)
CbBag(s, i, b) == IF i > Len(s) THEN b ELSE CbBag(s, i + 1, BagAdd(b, <<s[i].pid, s[i].val>>))

Items(ackedSeq, toSeq) == [i \in DOMAIN ackedSeq |-> [dseq |-> ackedSeq[i], ok |-> TRUE]] \o [i \in DOMAIN toSeq |-> [dseq |-> toSeq[i], ok |-> FALSE]]
NoRepeat(s) == \A i, j \in DOMAIN s : i # j => s[i] # s[j]
R_pend(e, ackedSeq, toSeq) == /\ \A i \in DOMAIN ackedSeq : ackedSeq[i] \in DOMAIN pend[e]      \* C07: every datagram resolved exactly once
                              /\ \A i \in DOMAIN toSeq : toSeq[i] \in DOMAIN pend[e]
                              /\ NoRepeat(ackedSeq \o toSeq)
R_time(e, toSeq, now) == \A i \in DOMAIN toSeq : toSeq[i] \in DOMAIN pend[e] => now - pend[e][toSeq[i]].t >= P.timeout - Slack   \* C07: failure only after the time-out
Expected(e, ackedSeq, toSeq) == ItemsFold(e, [bag |-> <<>>, mi |-> minfo[e], ftx |-> ftx[e]], Items(ackedSeq, toSeq), 1)
R_cbs(e, ackedSeq, toSeq, cbs) == R_pend(e, ackedSeq, toSeq) => Expected(e, ackedSeq, toSeq).bag = CbBag(cbs, 1, <<>>)          \* C07: truthful, exactly once
\* a success report needs the peer to have accepted the whole message (ghost of the receiving side)
R_true(e, cbs) == \A i \in DOMAIN cbs : (cbs[i].val /\ cbs[i].pid \in owedOpen[e]) =>
                     \/ cbs[i].pid \in delivered[Peer(e)] \/ cbs[i].pid \in lostCtx[Peer(e)]

ResolveWith(e, r, ackedSeq, toSeq, cbs) ==
  LET gone == {d \in DOMAIN pend[e] : \E i \in DOMAIN ackedSeq : ackedSeq[i] = d} \cup {d \in DOMAIN pend[e] : \E i \in DOMAIN toSeq : toSeq[i] = d}
      firedPids == {cbs[i].pid : i \in DOMAIN cbs}
  IN /\ minfo' = [minfo EXCEPT ![e] = r.mi]
     /\ ftx' = [ftx EXCEPT ![e] = [f \in {g \in DOMAIN r.ftx : ~r.ftx[g].fired} |-> r.ftx[f]]]
     /\ cbOpen' = [cbOpen EXCEPT ![e] = @ \ firedPids]
     /\ pend' = [pend EXCEPT ![e] = [d \in (DOMAIN @) \ gone |-> @[d]]]
Resolve(e, ackedSeq, toSeq, cbs, now) == ResolveWith(e, Expected(e, ackedSeq, toSeq), ackedSeq, toSeq, cbs)


(***************************************************************************)
(* recv: _recv_datagram on a genuine datagram (possibly a duplicate/replay) *)
(***************************************************************************)
\* message loop: returns [w, fx, out, lost, stale]
RECURSIVE MsgRecv(_, _, _, _, _, _, _, _)
MsgRecv(e, ms, steps, i, w, fx, out, acc) ==      \* acc = [lost, stale, ctxok]
  IF i > Len(ms) THEN [w |-> w, fx |-> fx, out |-> out, lost |-> acc.lost, stale |-> acc.stale, ctxok |-> acc.ctxok, early |-> acc.early]
  ELSE LET m == ms[i] r == WInsert(w.cur, w.bits, m.mseq, Wm) IN
    IF r.out = "dup" THEN MsgRecv(e, ms, steps, i + 1, w, fx, out, acc)
    ELSE LET w2 == [cur |-> r.cur, bits |-> r.bits]
             st == IF r.out = "stale" THEN acc.stale \cup {m.pid} ELSE acc.stale IN
      IF m.type = 6 THEN MsgRecv(e, ms, steps, i + 1, w2, fx, Append(out, m.pid), [acc EXCEPT !.stale = st])
      ELSE IF m.type = 7 THEN
        LET known == m.fid \in DOMAIN ftx[Peer(e)] \/ m.fid \in DOMAIN fx
            pid == IF m.fid \in DOMAIN fx THEN fx[m.fid].pid ELSE IF m.mseq \in DOMAIN minfo[Peer(e)] THEN minfo[Peer(e)][m.mseq].pid ELSE 0
            ctx == IF m.fid \in DOMAIN fx THEN fx[m.fid] ELSE [cnt |-> m.cnt, slots |-> {}, pid |-> pid, t0 |-> Ev.now]
            sl == IF m.idx >= 1 /\ m.idx <= ctx.cnt THEN ctx.slots \cup {m.idx} ELSE ctx.slots
            complete == sl = 1..ctx.cnt
            fx2 == IF complete THEN Del(fx, m.fid) ELSE Put(fx, m.fid, [ctx EXCEPT !.slots = sl])
            out2 == IF complete THEN Append(out, ctx.pid) ELSE out
            \* contexts still present afterwards are bound to the log; the ones that vanished incomplete are the named deviation
            after == IF i <= Len(steps) THEN ToSet(steps[i]) ELSE DOMAIN fx2    \* total: an execution that stopped early logged no step
            fx3 == RestrictTo(fx2, after)
            gone == {fx2[f].pid : f \in (DOMAIN fx2) \ after}
            \* the code's own allowance for a partly filled context: 1 s plus half a second per fragment after its first fragment (now in 100 us units)
            tooEarly == {fx2[f].pid : f \in {g \in (DOMAIN fx2) \ after : Ev.now - fx2[g].t0 + 2 <= 10000 + 5000 * fx2[g].cnt}}      \* (two units of slack: the log truncates times to 100 us)
        IN MsgRecv(e, ms, steps, i + 1, w2, fx3, out2,
                   [lost |-> acc.lost \cup gone, early |-> acc.early \cup tooEarly, stale |-> IF complete /\ r.out = "stale" THEN acc.stale \cup {ctx.pid} ELSE acc.stale,
                    ctxok |-> acc.ctxok /\ after \subseteq DOMAIN fx2])
      ELSE MsgRecv(e, ms, steps, i + 1, w2, fx, out, acc)

Accept(e, d) == LET r == WInsert(win[e].cur, win[e].bits, d.dseq, Wp) IN r.out \notin {"dup", "stale"}
Named(e, d) == {g \in DOMAIN pend[e] : LET x == Diff(d.ack, g) IN x = 0 \/ (x \in 1..Wp /\ x \in ToSet(d.ackbits))}
MR(e, ev) == IF Accept(e, ev.dg)
             THEN MsgRecv(e, ev.dg.msgs, ev.steps, 1, mwin[e], frx[e], <<>>, [lost |-> {}, stale |-> {}, ctxok |-> TRUE, early |-> {}])
             ELSE [w |-> mwin[e], fx |-> frx[e], out |-> <<>>, lost |-> {}, stale |-> {}, ctxok |-> TRUE, early |-> {}]

V_noraise(ev) == ev.err = ""                                        \* a genuine datagram never makes the receive path raise
V_accept(ev, e) == ev.res = Accept(e, ev.dg)                        \* C04/C08: duplicate exactly when already received inside the window (or older than it)
V_dropwhole(ev, e) == ~Accept(e, ev.dg) =>                           \* C04: a duplicate is dropped whole, counted, nothing else
                        /\ ev.delivered = <<>> /\ ev.cbs = <<>> /\ ev.acked = <<>> /\ ev.timedout = <<>>
                        /\ ev.ddrop = 1 /\ ev.drecv = 0
                        /\ ev.cur = win[e].cur /\ ToSet(ev.bits) = win[e].bits /\ ev.mcur = mwin[e].cur
V_counted(ev, e) == Accept(e, ev.dg) => (ev.ddrop = 0 /\ ev.drecv = 1)
V_win(ev, e) == Accept(e, ev.dg) => LET r == WInsert(win[e].cur, win[e].bits, ev.dg.dseq, Wp) IN ev.cur = r.cur /\ ToSet(ev.bits) = r.bits   \* C08
V_acked(ev, e) == Accept(e, ev.dg) => Named(e, ev.dg) = ToSet(ev.acked)                         \* C08 AckDecode
V_deliver(ev, e, mr) == Accept(e, ev.dg) => mr.out = [i \in DOMAIN ev.delivered |-> ev.delivered[i].pid]   \* C04: message-level de-duplication; C06: reassembly
\* C05/C07: nothing the specification hands to the application is withheld by the code (the other direction - nothing is handed over that the
\* specification does not - is part of V_deliver); C06/C05: a partly filled reassembly context is not given up before the code's own allowance
V_nolost(ev, e, mr) == Accept(e, ev.dg) => \A i \in DOMAIN mr.out : \E j \in DOMAIN ev.delivered : ev.delivered[j].pid = mr.out[i]
V_ctxage(ev, e, mr) == Accept(e, ev.dg) => mr.early = {}
V_exact(ev) == \A i \in DOMAIN ev.delivered : ev.delivered[i].exact                             \* C06: byte-identical to what was sent
V_ctx(ev, e, mr) == Accept(e, ev.dg) => mr.ctxok                                             \* no reassembly context out of thin air
V_mcur(ev, e, mr) == Accept(e, ev.dg) => ev.mcur = mr.w.cur                                   \* C08 (message window)
\* C04 at-most-once, judged on the ghost history; the only tolerated exception is the named deviation
V_once(ev, e, mr) == Accept(e, ev.dg) =>
                   /\ \A i \in DOMAIN mr.out : mr.out[i] \in delivered[e] => (StaleMsgDeviation /\ mr.out[i] \in mr.stale)
                   /\ \A a, b \in DOMAIN mr.out : a # b => mr.out[a] # mr.out[b]


(***************************************************************************)
(* end of run: obligations once the network was healed and left to settle   *)
(***************************************************************************)
E_delivered(ev) == ev.healed => \A e \in E : owedOpen[e] \subseteq (IF CtxExpiryDeviation THEN lostCtx[Peer(e)] ELSE {})     \* C05
E_cb(ev) == ev.healed => \A e \in E : cbOpen[e] = {}                                                                       \* C07: exactly once
E_left(ev) == ev.healed => /\ ev.left.c.out = 0 /\ ev.left.s.out = 0                                                    \* C05/C07/C09: nothing left unsent or unresolved
                           /\ ev.left.c.retry = 0 /\ ev.left.s.retry = 0
                           /\ \A e \in E : \A d \in DOMAIN pend[e] : pend[e][d].ms = <<>>      \* only the latest keep-alives still await their ack

(***************************************************************************)
(* The clause set of the next event, and the actions (state updates only:   *)
(* an event is consumed iff every clause holds for it).                      *)
(***************************************************************************)
RecvFailing(ev, e, mr) ==
  {c \in {"V_noraise", "V_accept", "V_dropwhole", "V_counted", "V_win", "V_acked", "V_deliver", "V_exact", "V_ctx", "V_mcur", "V_once", "V_nolost", "V_ctxage"} :
     ~CASE c = "V_noraise" -> V_noraise(ev) [] c = "V_accept" -> V_accept(ev, e) [] c = "V_dropwhole" -> V_dropwhole(ev, e) [] c = "V_counted" -> V_counted(ev, e)
        [] c = "V_win" -> V_win(ev, e) [] c = "V_acked" -> V_acked(ev, e) [] c = "V_deliver" -> V_deliver(ev, e, mr)
        [] c = "V_exact" -> V_exact(ev) [] c = "V_ctx" -> V_ctx(ev, e, mr) [] c = "V_mcur" -> V_mcur(ev, e, mr) [] c = "V_once" -> V_once(ev, e, mr)
        [] c = "V_nolost" -> V_nolost(ev, e, mr) [] c = "V_ctxage" -> V_ctxage(ev, e, mr)}
  \cup (IF Accept(e, ev.dg)
        THEN {c \in {"R_pend", "R_time", "R_cbs", "R_true"} :
               ~CASE c = "R_pend" -> R_pend(e, ev.acked, ev.timedout) [] c = "R_time" -> R_time(e, ev.timedout, ev.now)
                  [] c = "R_cbs" -> R_cbs(e, ev.acked, ev.timedout, ev.cbs) [] c = "R_true" -> R_true(e, ev.cbs)}
        ELSE {})
RawClauses ==
  IF l > Len(Tr) THEN {}
  ELSE LET ev == Ev IN
    IF ev.ev = "send" THEN
       {c \in {"S_refuse", "S_ok", "S_single", "S_frag", "S_fit", "S_seq", "S_retry"} :
          ~CASE c = "S_refuse" -> S_refuse(ev) [] c = "S_ok" -> S_ok(ev) [] c = "S_single" -> S_single(ev) [] c = "S_frag" -> S_frag(ev, ev.e)
             [] c = "S_fit" -> S_fit(ev) [] c = "S_seq" -> S_seq(ev, ev.e) [] c = "S_retry" -> S_retry(ev)}
    ELSE IF ev.ev = "build" THEN
       {c \in {"B_seq", "B_ack", "B_size", "B_count", "B_known", "B_together", "B_sealed", "B_aad", "B_sec", "B_rate", "B_dir"} :
          ~CASE c = "B_seq" -> B_seq(ev, ev.e) [] c = "B_ack" -> B_ack(ev, ev.e) [] c = "B_size" -> B_size(ev) [] c = "B_count" -> B_count(ev)
             [] c = "B_known" -> B_known(ev, ev.e) [] c = "B_together" -> B_together(ev) [] c = "B_sealed" -> B_sealed(ev) [] c = "B_aad" -> B_aad(ev)
             [] c = "B_sec" -> B_sec(ev) [] c = "B_rate" -> B_rate(ev) [] c = "B_dir" -> B_dir(ev, ev.e)}
    ELSE IF ev.ev = "skip" THEN (IF K_notstuck(ev) THEN {} ELSE {"K_notstuck"})
    ELSE IF ev.ev = "forge" THEN (IF F_noeffect(ev) THEN {} ELSE {"F_noeffect"}) \cup (IF F_window(ev) THEN {} ELSE {"F_window"})
    ELSE IF ev.ev = "builderr" THEN {"B_noraise"}
    ELSE IF ev.ev = "timeouts" THEN
       {c \in {"R_pend", "R_time", "R_cbs", "R_true"} :
          ~CASE c = "R_pend" -> R_pend(ev.e, <<>>, ev.timedout) [] c = "R_time" -> R_time(ev.e, ev.timedout, ev.now)
             [] c = "R_cbs" -> R_cbs(ev.e, <<>>, ev.timedout, ev.cbs) [] c = "R_true" -> R_true(ev.e, ev.cbs)}
    ELSE IF ev.ev = "recv" THEN RecvFailing(ev, ev.e, MR(ev.e, ev))
    ELSE IF ev.ev = "end" THEN
       {c \in {"E_delivered", "E_cb", "E_left"} : ~CASE c = "E_delivered" -> E_delivered(ev) [] c = "E_cb" -> E_cb(ev) [] c = "E_left" -> E_left(ev)}
    ELSE {"unknown-event"}
\* Skip: clause names left out of the verdict.  Empty in every first pass.  When a trace is rejected only at clauses that belong to OTHER properties than the
\* one being decided, the harness judges that trace again with those clauses skipped, so that the rest of the trace is examined for this property too.
Clauses == RawClauses \ Skip
(***************************************************************************)
(* ALIAS: what a rejection prints - trace id, position, the event, and the   *)
(* names of the clauses that are false for it in the current state.          *)
(***************************************************************************)
Diag == [tid |-> tid, l |-> l, failing |-> IF bad # {} THEN bad ELSE Clauses,
         ev |-> IF l <= Len(Tr) THEN Ev ELSE <<>>,
         seqSend |-> seqSend, seqMsg |-> seqMsg, win |-> win, mwincur |-> [e \in E |-> mwin[e].cur],
         pendkeys |-> [e \in E |-> DOMAIN pend[e]], owedOpen |-> owedOpen, cbOpen |-> cbOpen, lostCtx |-> lostCtx, staleDup |-> staleDup,
         expectedCbs |-> IF l <= Len(Tr) /\ Ev.ev \in {"recv", "timeouts"}
                         THEN (IF Ev.ev = "timeouts" THEN (IF R_pend(Ev.e, <<>>, Ev.timedout) THEN Expected(Ev.e, <<>>, Ev.timedout).bag ELSE <<>>)
                               ELSE (IF Accept(Ev.e, Ev.dg) /\ R_pend(Ev.e, Ev.acked, Ev.timedout) THEN Expected(Ev.e, Ev.acked, Ev.timedout).bag ELSE <<>>))
                         ELSE <<>>]
UpdSend ==
  /\ LET ev == Ev e == ev.e n == Len(ev.appended) IN
     /\ seqMsg' = [seqMsg EXCEPT ![e] = IF n = 0 THEN @ ELSE Add(@, n)]
     /\ IF ev.res # "ok" \/ n = 0
        THEN UNCHANGED <<minfo, ftx, seqFrag, owedOpen, cbOpen>>
        ELSE /\ IF ev.fid = 0
                THEN /\ minfo' = [minfo EXCEPT ![e] = AddMsgs(@, ev, e, "app")]
                     /\ UNCHANGED <<ftx, seqFrag>>
                ELSE /\ minfo' = [minfo EXCEPT ![e] = AddMsgs(@, ev, e, "frag")]
                     /\ seqFrag' = [seqFrag EXCEPT ![e] = ev.fid]
                     /\ ftx' = [ftx EXCEPT ![e] = Put(@, ev.fid, [pid |-> ev.pid, cnt |-> n, hascb |-> ev.hascb,
                                                                   accT |-> {}, accF |-> {}, fired |-> FALSE])]
             /\ owedOpen' = [owedOpen EXCEPT ![e] = IF ev.retry = -1 THEN @ \cup {ev.pid} ELSE @]
             /\ cbOpen' = [cbOpen EXCEPT ![e] = IF ev.hascb /\ ev.retry # 1 THEN @ \cup {ev.pid} ELSE @]
  /\ UNCHANGED <<seqSend, pend, win, mwin, frx, delivered, lostCtx, staleDup>>


UpdBuild ==
  /\ LET ev == Ev e == ev.e IN
     /\ seqSend' = [seqSend EXCEPT ![e] = ev.dseq]
     /\ pend' = [pend EXCEPT ![e] = Put(@, ev.dseq, [t |-> ev.now, ms |-> [i \in DOMAIN ev.msgs |-> ev.msgs[i].mseq]])]
  /\ UNCHANGED <<seqMsg, seqFrag, minfo, ftx, win, mwin, frx, delivered, owedOpen, cbOpen, lostCtx, staleDup>>


UpdTimeouts ==
  /\ LET ev == Ev e == ev.e IN
     /\ Resolve(e, <<>>, ev.timedout, ev.cbs, ev.now)
  /\ UNCHANGED <<seqSend, seqMsg, seqFrag, win, mwin, frx, delivered, owedOpen, lostCtx, staleDup>>


\* (r and mr are operator arguments so that TLC evaluates each once)
UpdAccepted(ev, e, r, mr) ==
  /\ Resolve(e, ev.acked, ev.timedout, ev.cbs, ev.now)
  /\ win' = [win EXCEPT ![e] = [cur |-> r.cur, bits |-> r.bits]]
  /\ mwin' = [mwin EXCEPT ![e] = mr.w]
  /\ frx' = [frx EXCEPT ![e] = mr.fx]
  /\ lostCtx' = [lostCtx EXCEPT ![e] = @ \cup mr.lost]
  /\ staleDup' = staleDup \cup {mr.out[i] : i \in {j \in DOMAIN mr.out : mr.out[j] \in delivered[e]}}
  /\ delivered' = [delivered EXCEPT ![e] = @ \cup ToSet(mr.out)]
  /\ owedOpen' = [owedOpen EXCEPT ![Peer(e)] = @ \ ToSet(mr.out)]
UpdRecv ==
  /\ LET ev == Ev e == ev.e IN
     /\ IF ~Accept(e, ev.dg)
        THEN UNCHANGED <<minfo, ftx, pend, win, mwin, frx, delivered, owedOpen, cbOpen, lostCtx, staleDup>>
        ELSE UpdAccepted(ev, e, WInsert(win[e].cur, win[e].bits, ev.dg.dseq, Wp), MR(e, ev))
  /\ UNCHANGED <<seqSend, seqMsg, seqFrag>>


\* One step: the clause set of the next event is evaluated once; all true -> the event is consumed (state update only),
\* otherwise the trace is rejected and the specification reports it itself, on one line.
Step ==
  /\ l <= Len(Tr) /\ bad = {}
  /\ LET cl == Clauses IN
     IF cl = {}
     THEN /\ l' = l + 1 /\ UNCHANGED <<tid, bad>>
          /\ IF Ev.ev = "send" THEN UpdSend
             ELSE IF Ev.ev = "build" THEN UpdBuild
             ELSE IF Ev.ev = "timeouts" THEN UpdTimeouts
             ELSE IF Ev.ev = "recv" THEN UpdRecv
             ELSE IF Ev.ev = "end"
                  THEN /\ UNCHANGED vars
                       /\ PrintT("ACCEPT " \o ToString([tid |-> tid, events |-> Len(Tr), lostCtx |-> lostCtx, staleDup |-> staleDup,
                                                        d7 |-> [e \in E |-> owedOpen[e] \cap lostCtx[Peer(e)]]]))
                  ELSE UNCHANGED vars
     ELSE /\ PrintT("REJECT " \o ToString(Diag))
          /\ bad' = cl /\ UNCHANGED <<vars, tid, l>>
Done == (l > Len(Tr) \/ bad # {}) /\ UNCHANGED <<vars, tid, l, bad>>
TNext == Step \/ Done
TSpec == TInit /\ [][TNext]_<<vars, tid, l, bad>>
Accepted == bad = {}

\* deviations used (reported as KNOWN-FINDING by the checks when enabled, impossible when disabled)
NoStaleDup == staleDup = {}
NoLostCtx == \A e \in E : lostCtx[e] = {}
=============================================================================

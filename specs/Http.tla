-------------------------------- MODULE Http --------------------------------
(***************************************************************************)
(* http_server.py: what Router.dispatch answers to a request - the decision *)
(* procedure of dispatch / request_response / upgrade_websocket transcribed *)
(* case by case - and the life of one TCP connection of the Twisted channel  *)
(* that carries such requests (keep-alive, then possibly a websocket).       *)
(*                                                                         *)
(* A request is abstracted to the features the code looks at:                *)
(*   m      method                       p      path ("item", "ws", "nope") *)
(*   cl     Content-Length header: "absent" or a value class                *)
(*   up     Upgrade header: "absent", "websocket", "other"                  *)
(*   key    Sec-WebSocket-Key present    proto  Sec-WebSocket-Protocol given *)
(*   ver    Sec-WebSocket-Version: "absent", "13", "8"                      *)
(*   cb     what the user callback does: "ok", "none", "raises", "text"     *)
(* The route table is the constant Routes (method, path, kind, max).         *)
(***************************************************************************)
EXTENDS Integers, Sequences, FiniteSets, TLC

CONSTANTS Methods, Paths, CLs, Ups, Vers, CBs, Routes, MaxLen

Requests == [m : Methods, p : Paths, cl : CLs, up : Ups, key : BOOLEAN, proto : BOOLEAN, ver : Vers, cb : CBs]

\* the value request_response reads from the Content-Length header: anything that is not a non-negative integer counts as 0
ClValue(cl) == CASE cl = "small" -> MaxLen - 1 [] cl = "exact" -> MaxLen [] cl = "over" -> MaxLen + 1 [] OTHER -> 0      \* "negative", "text", "empty"

Lookup(m, p) == {r \in Routes : r.m = m /\ r.p = p}
\* result: [status, why];  status -1 = the call raises (nothing is answered on that connection)
R(s, w) == [status |-> s, why |-> w]
Expect(q) ==
  IF Lookup(q.m, q.p) = {} THEN R(404, "path not found")                    \* unknown method, unknown path, path registered for another method
  ELSE LET r == CHOOSE x \in Lookup(q.m, q.p) : TRUE IN
    IF r.kind = "ws" THEN
         IF q.up = "absent" THEN R(400, "upgrade header missing")
         ELSE IF ~q.key THEN R(400, "websocket key missing")
         ELSE IF q.up # "websocket" THEN R(400, "invalid upgrade header")
         ELSE IF q.proto /\ q.ver = "absent" THEN R(-1, "TypeError")        \* as built: ws_version[0] on a missing header (named finding, X03)
         ELSE IF q.proto /\ q.ver # "13" THEN R(-1, "NameError")            \* as built: the warning about the version uses a module that is not imported (X03)
         ELSE R(101, "upgrade")
    ELSE IF r.max >= 0 /\ q.cl = "absent" THEN R(411, "Content-Length not specified")
    ELSE IF r.max >= 0 /\ ClValue(q.cl) > r.max THEN R(413, "Payload too large")
    ELSE CASE q.cb = "ok" -> R(200, "ok")
           [] q.cb = "none" -> R(500, "route failed to return a response")
           [] q.cb = "raises" -> R(500, "route failed to return a response")
           [] OTHER -> R(-1, "TypeError")                                   \* the callback returned something that is not a Response: dispatch raises

\* the route table of the conformance harness (x03.py): cfg files cannot hold negative numbers, so it is defined here (Routes <- RoutesDef)
RoutesDef == { [m |-> "GET",    p |-> "item", kind |-> "plain", max |-> -1],
               [m |-> "POST",   p |-> "item", kind |-> "plain", max |-> MaxLen],
               [m |-> "PUT",    p |-> "item", kind |-> "plain", max |-> MaxLen],
               [m |-> "DELETE", p |-> "item", kind |-> "plain", max |-> -1],
               [m |-> "GET",    p |-> "ws",   kind |-> "ws",    max |-> -1] }
=============================================================================

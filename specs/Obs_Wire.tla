------------------------------ MODULE Obs_Wire ------------------------------
(* Pass 1: TLC enumerates abstract packets from a boundary grammar.          *)
(* Pass 2: TLC judges what the real codec did with each (Wire!RoundTrip).     *)
EXTENDS Wire, Json, IOUtils
CONSTANTS Counts, MsgLens
CTimes == {<<0, 0>>, <<0, 1>>, <<32767, 65535>>, <<65535, 65535>>}
Seqs == {0, 1, 32767, 65535}
BitSets == {{}, {1}, {32}, 1..32, {1, 3, 17, 32}}
\* message lists: n messages; seq/type/len patterns derived from the index so that the space stays small but hits the boundaries
MsgList(n, typ, ln, multi) == [k \in 1..n |-> [seq |-> IF k = 1 THEN 65535 ELSE k, type |-> IF n = 1 THEN typ ELSE (IF multi THEN ((k + typ) % 8) ELSE typ), len |-> IF k % 2 = 1 THEN ln ELSE 0]]
Pkt(s, c, t, q, a, b, n, ln, mu, k) == [srv |-> s, ctime |-> c, type |-> t, seq |-> q, ack |-> a, bits |-> b, msgs |-> MsgList(n, t, ln, mu), keyed |-> k]
\* every header field combination with few messages ...
HeaderSweep == {Pkt(s, c, t, q, a, b, n, ln, mu, k) :
                  s \in {0, 1}, c \in CTimes, t \in 0..7, q \in {1, 65535}, a \in {0, 32767}, b \in BitSets, n \in Counts \cap (0..3), ln \in MsgLens, mu \in BOOLEAN, k \in BOOLEAN}
\* ... and the large message counts with a few headers
CountSweep == {Pkt(s, <<0, 1>>, t, 65535, 1, {1, 32}, n, ln, mu, k) :
                  s \in {0, 1}, t \in {4, 6, 7}, n \in Counts \ (0..3), ln \in MsgLens \cap (0..7), mu \in BOOLEAN, k \in BOOLEAN}
Packets == HeaderSweep \cup CountSweep
\* hello-typed packets travel without a key by design (the client has none yet); the signed server hello is CRC-form even with a key
InScope(p) == WellFormed(p) /\ (p.type = 1 => ~p.keyed) /\ 20 + SumLen(p.msgs) + Overhead(Len(p.msgs)) + 16 <= 65535
Space == {p \in Packets : InScope(p)}
VARIABLE i
GenInit == i = 0 /\ JsonSerialize(IOEnv.OUT_FILE, [packets |-> SetToSeq(Space)])
WNext == UNCHANGED i
Inp == JsonDeserialize(IOEnv.OUT_FILE)
Obs == JsonDeserialize(IOEnv.OBS_FILE)
Chunk == 200
ObsInit == i \in 1..((Len(Obs) + Chunk - 1) \div Chunk)
RowRange == ((i - 1) * Chunk + 1)..(IF i * Chunk < Len(Obs) THEN i * Chunk ELSE Len(Obs))
\* JSON has no sets: bits arrive as sequences
Norm(p) == [p EXCEPT !.bits = ToSet(@)]
AllOK == \A k \in RowRange : RoundTrip(Norm(Inp.packets[k]), Norm(Obs[k]))
Complete == i = 1 => (Len(Obs) = Len(Inp.packets) /\ {Norm(Inp.packets[k]) : k \in DOMAIN Inp.packets} = Space)
Where == [i |-> i, bad |-> {<<k, Inp.packets[k], Obs[k]>> : k \in {x \in RowRange : ~RoundTrip(Norm(Inp.packets[x]), Norm(Obs[x]))}}]
=============================================================================

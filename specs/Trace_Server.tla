---------------------------- MODULE Trace_Server ----------------------------
(***************************************************************************)
(* Trace specification of the server (server.py UdpServerThread.run behind  *)
(* twisted.py TwistedServer.datagramReceived, context.py) and of the        *)
(* client's view (client.py UdpClient): executions of the real server loop, *)
(* driven in lock-step under a virtual clock with real UdpClients, hostile   *)
(* datagrams, handler exceptions, link cuts and shutdown, are checked event  *)
(* by event.  Named clauses:                                                  *)
(*   L_x  handler lifecycle (C10)      A_x  robustness / amplification (C11)  *)
(*   T_x  keep-alives and time-outs (C12)                                     *)
(* An event is consumed only if all its clauses hold; otherwise the trace is  *)
(* rejected and the specification reports it on one line.                     *)
(* Time: units of 100 us.                                                      *)
(***************************************************************************)
EXTENDS Integers, Sequences, FiniteSets, TLC, Json, IOUtils
Traces == JsonDeserialize(IOEnv.TRACE_FILE)
ASSUME Len(Traces) > 0
Slack == 3

CONSTANT Skip
VARIABLES tid, l, bad,
  phase,       \* client object id -> "connected" | "gone"           (absent = never connected)
  objAt,       \* address id -> object id currently connected there
  tokens,      \* object id -> token, for connected objects
  thread,      \* thread id of the handler events (0 = none yet)
  proved,      \* address ids from which a genuine challenge response reached the server since their last hello
  lastHeard,   \* address id -> time the server last received a datagram from the client that owns the session there (surely accepted)
  lastAny,     \* address id -> time the server last queued any datagram from that address (possibly accepted)
  sess,        \* address id -> client id whose hello opened the current session there
  known,       \* address ids in the server's pools at the last tick
  lastTx,      \* address id -> time of the last datagram sent to it
  bin, bout,   \* address id -> bytes received from / sent to it
  everConn,    \* address ids that ever completed the handshake
  stopAt,      \* time shutdown was requested (-1 = running)
  cstate,      \* client id -> [status, since, lastRx, hello, ...]   (client's own view, C12)
  open,        \* outstanding canary requests: set of <<client, request id, time>>          (C11 service to established clients)
  tempSince,   \* address id -> time it entered the temporary pool
  lastCsend,   \* client id -> time of its last emission
  shutdownSeen
vars == <<phase, objAt, tokens, thread, proved, lastHeard, lastAny, sess, known, lastTx, bin, bout, everConn, stopAt, cstate, shutdownSeen, open, tempSince, lastCsend>>

Tr == Traces[tid]
Ev == Tr[l]
P == Tr[1]
Get(f, k, d) == IF k \in DOMAIN f THEN f[k] ELSE d
Put(f, k, v) == (k :> v) @@ f
Del(f, k) == [x \in (DOMAIN f) \ {k} |-> f[x]]

TInit == /\ tid \in 1..Len(Traces) /\ l = 2 /\ bad = {}
         /\ phase = <<>> /\ objAt = <<>> /\ tokens = <<>> /\ thread = 0 /\ proved = {} /\ lastHeard = <<>> /\ lastAny = <<>> /\ sess = <<>> /\ known = {} /\ lastTx = <<>>
         /\ bin = <<>> /\ bout = <<>> /\ everConn = {} /\ stopAt = -1 /\ cstate = <<>> /\ shutdownSeen = FALSE
         /\ open = {} /\ tempSince = <<>> /\ lastCsend = <<>>

\* ---- datagram reaches the entry point ---------------------------------------------------------------
A_blocked(ev) == ev.blocked = 1 => ev.q = 0                     \* C11: block-listed addresses are discarded before any processing
A_queued(ev) == ev.q \in {0, 1}
\* ---- server sends ---------------------------------------------------------------------------------
A_noamplify(ev) == ev.a \notin everConn => Get(bout, ev.a, 0) + ev.n <= Get(bin, ev.a, 0)   \* C11: never more bytes to an unproven address than it sent
\* C03: once a key is agreed everything the server emits is AES-GCM under that connection's key - except the signed server hello,
\* which travels alone in a CRC datagram (sealed: 1 opens under the key, 2 plain CRC datagram, 0 neither)
A_sealed(ev) == IF ev.ptype = 2 THEN ev.sealed = 2 /\ ev.count = 1 ELSE ev.sealed = 1
\* C03, client side: the one datagram a client may emit in clear is its hello, carrying that single message; everything else opens under the client's session key
A_clisealed(ev) == IF ev.ptype = 1 THEN ev.sealed = 2 /\ ev.count = 1 ELSE ev.sealed = 1
A_notblocked(ev) == ev.blocked = 0          \* (the harness reads the block list configured on the context at that moment: it may be set or replaced at any time)                      \* C11: no reply to a block-listed address
\* ---- handler events ---------------------------------------------------------------------------------
L_thread(ev) == thread = 0 \/ ev.tid = thread                                                \* C10: all handler events on one thread
L_connect(ev) == ev.what = "connect" =>
                   /\ ev.obj \notin DOMAIN phase                                             \* connect exactly once per client
                   /\ ev.a \in proved                                                        \* only after that client completed the handshake
                   /\ \A o \in DOMAIN tokens : tokens[o] # ev.token                          \* simultaneously connected clients carry distinct tokens
L_msg(ev) == ev.what = "msg" =>
                   /\ Get(phase, ev.obj, "none") = "connected"                               \* only that client's messages, only while connected
                   /\ Get(objAt, ev.a, 0) = ev.obj
                   /\ ev.tag = ev.a                                                          \* payload sent by the client that owns that address (driver tags payloads)
\* C10: the token a client was announced with at connect is the token it carries in every later event (nothing re-keys or re-numbers a connected client)
L_token(ev) == (ev.what \in {"msg", "disconnect"} /\ ev.obj \in DOMAIN tokens) => ev.token = tokens[ev.obj]
L_once(ev) == ev.what = "msg" => ev.rep = 0                                                     \* C04/C10: a message is handed to the handler at most once, whatever the handler does with it
L_disc(ev) == ev.what = "disconnect" => Get(phase, ev.obj, "none") = "connected"             \* disconnect exactly once, only after connect
L_aftershutdown(ev) == shutdownSeen => FALSE                                                  \* shutdown is the last handler event
\* the silence time-out: a disconnect of a client that did not say goodbye and was not kicked needs connection_timeout of silence
T_srvdrop(ev) == (ev.what = "disconnect" /\ ev.cause = "silence") => ev.now - Get(lastHeard, ev.a, 0) >= P.conn_timeout - Slack
\* ---- tick ---------------------------------------------------------------------------------------------
A_alive(ev) == stopAt = -1 => ev.alive = 1                                                    \* C11: nothing stops the server loop
L_pools(ev) == {ev.conns[i] : i \in DOMAIN ev.conns} = DOMAIN objAt                          \* the connected pool is exactly the clients between connect and disconnect
\* C12: a silent client is dropped once connection_timeout has passed (two ticks of grace), and an idle live one is not
T_srvdrops(ev) == \A a \in DOMAIN objAt : ev.now - Get(lastAny, a, ev.now) <= P.conn_timeout + 2 * P.tick + Slack
\* C12: the client reports DROPPED once 5 s have passed without an accepted server datagram
T_clidrops(ev) == \A c \in DOMAIN cstate : cstate[c].status = 2 => ev.now - cstate[c].lastRx <= 50000 + 2 * P.tick + Slack
\* (an application that polls its client less often than once per server tick can emit no more often than it polls: Frame is the longer of the two)
Frame(c) == IF cstate[c].period > P.tick THEN cstate[c].period ELSE P.tick
\* C12: ... measured from the moment the PEER fell silent, not from the moment the application got round to reading what had piled up before
T_clisilent(ev) == \A c \in DOMAIN cstate : (cstate[c].status = 2 /\ cstate[c].cut >= 0) => ev.now - cstate[c].cut <= 50000 + 2 * Frame(c) + 2 * P.tick + Slack
\* C12: the server emits to every connected client at least once per keep-alive interval plus one tick
T_srvcadence(ev) == \A a \in DOMAIN objAt : ev.now - Get(lastTx, a, ev.now) <= P.keepalive + 2 * P.tick + Slack
\* C12: an unanswered connect attempt ends DISCONNECTED once the configured time-out has passed - whether or not a callback was given
T_connfails(ev) == \A c \in DOMAIN cstate : (cstate[c].status = 1 /\ ~cstate[c].gotHello) => ev.now - cstate[c].hello <= cstate[c].connTimeout + 2 * P.tick + Slack
\* C11: requests of established clients keep being answered while hostile traffic arrives
A_echo(ev) == \A o \in open : ev.now - o[3] <= P.echo_deadline
\* C12: a connection that never completes the handshake leaves the temporary pool after temp_connection_timeout
T_tempdrop(ev) == \A a \in DOMAIN tempSince : a \in {ev.temps[i] : i \in DOMAIN ev.temps} => ev.now - tempSince[a] <= P.temp_timeout + 2 * P.tick + Slack
\* C12: a connected client emits at least once per keep-alive interval (its own setting) plus one tick
T_clicadence(ev) == \A c \in DOMAIN cstate : (cstate[c].status = 2 /\ c \in DOMAIN lastCsend /\ ev.now - cstate[c].since > cstate[c].ka + 2 * Frame(c)) =>
                       ev.now - lastCsend[c] <= cstate[c].ka + 2 * Frame(c) + Slack
\* C12: setters never raise
T_setter(ev) == ev.err = ""
\* C12: a send that is never acknowledged reports failure after the configured message time-out (and not before)
T_msgtimeout(ev) == (ev.val = 0 /\ ev.c \in DOMAIN cstate) => /\ ev.now - ev.sent >= cstate[ev.c].mt - Slack
                                                             /\ ev.now - ev.sent <= cstate[ev.c].mt + 3 * P.tick + Slack
\* ---- client view -----------------------------------------------------------------------------------------
\* status: 1 CONNECTING 2 CONNECTED 3 DISCONNECTING 4 DISCONNECTED 5 DROPPED
T_cliraise(ev) == ev.err = ""                                                                 \* update() never raises in these runs (genuine server datagrams only)
T_clidropped(ev) == ev.status = 5 => (ev.c \in DOMAIN cstate /\ ev.now - cstate[ev.c].lastRx >= 50000 - Slack)     \* DROPPED only after 5 s without server datagrams
T_connfail(ev) == (ev.status = 4 /\ ev.c \in DOMAIN cstate /\ cstate[ev.c].status = 1 /\ ~cstate[ev.c].gotHello) =>
                     /\ ev.now - cstate[ev.c].hello >= cstate[ev.c].connTimeout - Slack                              \* unanswered connect: DISCONNECTED after the configured time-out
                     /\ (cstate[ev.c].hascb => ev.cbs = 1 /\ ev.cbtrue = 0)                                          \* callback once, with False
\* C12: a CONNECTED client over a working link leaves that state (DISCONNECTING, DISCONNECTED) only when an application on either side closed the connection
T_stayup(ev) == (ev.status \in {3, 4} /\ ev.c \in DOMAIN cstate /\ cstate[ev.c].status = 2) => ev.asked = 1
\* ---- end -------------------------------------------------------------------------------------------------
L_alldisc(ev) == \A o \in DOMAIN phase : phase[o] = "gone"                                    \* C10: shutdown disconnects every connected client
L_shutdown(ev) == shutdownSeen /\ ev.alive = 0

RawClauses ==
  IF l > Len(Tr) THEN {}
  ELSE LET ev == Ev IN
    IF ev.ev = "rx" THEN {c \in {"A_blocked", "A_queued"} : ~CASE c = "A_blocked" -> A_blocked(ev) [] c = "A_queued" -> A_queued(ev)}
    ELSE IF ev.ev = "tx" THEN {c \in {"A_noamplify", "A_notblocked", "A_sealed"} : ~CASE c = "A_noamplify" -> A_noamplify(ev) [] c = "A_notblocked" -> A_notblocked(ev) [] c = "A_sealed" -> A_sealed(ev)}
    ELSE IF ev.ev = "h" THEN
      {c \in {"L_thread", "L_connect", "L_msg", "L_token", "L_once", "L_disc", "L_aftershutdown", "T_srvdrop"} :
         ~CASE c = "L_thread" -> L_thread(ev) [] c = "L_token" -> L_token(ev) [] c = "L_connect" -> L_connect(ev) [] c = "L_msg" -> L_msg(ev) [] c = "L_once" -> L_once(ev) [] c = "L_disc" -> L_disc(ev)
            [] c = "L_aftershutdown" -> L_aftershutdown(ev) [] c = "T_srvdrop" -> T_srvdrop(ev)}
    ELSE IF ev.ev = "tick" THEN
      {c \in {"A_alive", "L_pools", "T_srvdrops", "T_srvcadence", "T_clidrops", "T_clisilent", "A_echo", "T_tempdrop", "T_clicadence", "T_connfails"} :
         ~CASE c = "A_alive" -> A_alive(ev) [] c = "L_pools" -> L_pools(ev) [] c = "T_srvdrops" -> T_srvdrops(ev) [] c = "T_srvcadence" -> T_srvcadence(ev)
            [] c = "T_clidrops" -> T_clidrops(ev) [] c = "T_clisilent" -> T_clisilent(ev) [] c = "A_echo" -> A_echo(ev) [] c = "T_tempdrop" -> T_tempdrop(ev) [] c = "T_clicadence" -> T_clicadence(ev) [] c = "T_connfails" -> T_connfails(ev)}
    ELSE IF ev.ev = "csend" THEN (IF A_clisealed(ev) THEN {} ELSE {"A_clisealed"})
    ELSE IF ev.ev = "cset" THEN (IF T_setter(ev) THEN {} ELSE {"T_setter"})
    ELSE IF ev.ev = "ccb" THEN (IF T_msgtimeout(ev) THEN {} ELSE {"T_msgtimeout"})
    ELSE IF ev.ev = "cstat" THEN
      {c \in {"T_cliraise", "T_clidropped", "T_connfail", "T_stayup"} : ~CASE c = "T_cliraise" -> T_cliraise(ev) [] c = "T_clidropped" -> T_clidropped(ev) [] c = "T_connfail" -> T_connfail(ev) [] c = "T_stayup" -> T_stayup(ev)}
    ELSE IF ev.ev = "end" THEN {c \in {"L_alldisc", "L_shutdown"} : ~CASE c = "L_alldisc" -> L_alldisc(ev) [] c = "L_shutdown" -> L_shutdown(ev)}
    ELSE {}
\* Skip: clause names left out of the verdict (empty in every first pass; see Trace_Conn!Skip)
Clauses == RawClauses \ Skip

Diag == [tid |-> tid, l |-> l, failing |-> IF bad # {} THEN bad ELSE Clauses, ev |-> IF l <= Len(Tr) THEN Ev ELSE <<>>,
         phase |-> phase, objAt |-> objAt, tokens |-> tokens, proved |-> proved, lastHeard |-> lastHeard, lastTx |-> lastTx,
         lastAny |-> lastAny, sess |-> sess, known |-> known, bin |-> bin, bout |-> bout, everConn |-> everConn, cstate |-> cstate, open |-> open, tempSince |-> tempSince, lastCsend |-> lastCsend]

Upd ==
  LET ev == Ev IN
  IF ev.ev = "rx" THEN
     /\ bin' = IF ev.blocked = 1 THEN bin ELSE Put(bin, ev.a, Get(bin, ev.a, 0) + ev.n)
     /\ LET opens == ev.c # 0 /\ ev.q = 1 /\ ev.ptype = 1 /\ ev.a \notin known          \* a client's hello (first copy or a replay of it) from an address the server does not know opens a session
            \* a hello from ANOTHER client at an address whose session still exists (the old client is being dropped in this very tick and the hello waits in the
            \* server's queue): remembered under the negated address until the end of the tick; it opens the session if the old one ends first (h disconnect below)
            cand == ev.c # 0 /\ ev.q = 1 /\ ev.ptype = 1 /\ ev.a \in known /\ Get(sess, ev.a, 0) # ev.c
            s2 == IF opens THEN Put(sess, ev.a, ev.c) ELSE IF cand THEN Put(sess, -ev.a, ev.c) ELSE sess
            mine == ev.c # 0 /\ ev.q = 1 /\ Get(s2, ev.a, 0) = ev.c IN
        /\ sess' = s2
        /\ lastHeard' = IF mine /\ ev.genuine = 1 THEN Put(lastHeard, ev.a, ev.now) ELSE lastHeard      \* (a replay may be dropped as a duplicate: it proves nothing about liveness)
        /\ proved' = IF mine /\ ev.ptype = 3 THEN proved \cup {ev.a} ELSE IF opens THEN proved \ {ev.a} ELSE proved
     /\ lastAny' = IF ev.q = 1 /\ ev.dupe = 0 THEN Put(lastAny, ev.a, ev.now) ELSE lastAny      \* (a byte-identical copy of something already received proves nothing)
     /\ known' = IF ev.q = 1 /\ ev.ptype = 1 THEN known \cup {ev.a} ELSE known
     /\ UNCHANGED <<phase, objAt, tokens, thread, lastTx, bout, everConn, stopAt, cstate, shutdownSeen, open, tempSince, lastCsend>>
  ELSE IF ev.ev = "tx" THEN
     /\ bout' = Put(bout, ev.a, Get(bout, ev.a, 0) + ev.n)
     /\ lastTx' = Put(lastTx, ev.a, ev.now)
     \* a SERVER_HELLO is the server's answer to a hello it has just processed: if that hello came from another client than the one the address belonged to
     \* (remembered under the negated address), the session at this address is that client's from now on
     /\ LET promote == ev.ptype = 2 /\ (-ev.a) \in DOMAIN sess IN
        /\ sess' = IF promote THEN Put(Del(Del(sess, ev.a), -ev.a), ev.a, sess[-ev.a]) ELSE sess
        /\ proved' = IF promote THEN proved \ {ev.a} ELSE proved
     /\ UNCHANGED <<phase, objAt, tokens, thread, lastHeard, lastAny, known, bin, everConn, stopAt, cstate, shutdownSeen, open, tempSince, lastCsend>>
  ELSE IF ev.ev = "h" THEN
     /\ thread' = ev.tid
     /\ shutdownSeen' = (ev.what = "shutdown")
     /\ IF ev.what = "connect"
        THEN /\ phase' = Put(phase, ev.obj, "connected") /\ objAt' = Put(objAt, ev.a, ev.obj) /\ tokens' = Put(tokens, ev.obj, ev.token)
             /\ everConn' = everConn \cup {ev.a} /\ lastTx' = Put(lastTx, ev.a, ev.now) /\ UNCHANGED <<proved, lastHeard, lastAny, sess, known>>
        ELSE IF ev.what = "disconnect"
        THEN /\ phase' = Put(phase, ev.obj, "gone") /\ objAt' = Del(objAt, ev.a) /\ tokens' = Del(tokens, ev.obj)
             /\ proved' = proved \ {ev.a}
             /\ sess' = LET s1 == Del(sess, ev.a) IN IF (-ev.a) \in DOMAIN s1 THEN Put(Del(s1, -ev.a), ev.a, s1[-ev.a]) ELSE s1
             /\ UNCHANGED <<everConn, lastTx, lastHeard, lastAny, known>>
        ELSE UNCHANGED <<phase, objAt, tokens, everConn, lastTx, proved, lastHeard, lastAny, sess, known>>
     /\ UNCHANGED <<bin, bout, stopAt, cstate, open, tempSince, lastCsend>>
  ELSE IF ev.ev = "cstat" THEN
     /\ cstate' = Put(cstate, ev.c, [Get(cstate, ev.c, [status |-> 0, since |-> ev.now, lastRx |-> ev.now, hello |-> ev.now, gotHello |-> FALSE, connTimeout |-> 0, hascb |-> FALSE, ka |-> 1000, mt |-> 10000, cut |-> -1, period |-> 0])
                                       EXCEPT !.status = ev.status, !.since = ev.now])
     /\ UNCHANGED <<phase, objAt, tokens, thread, proved, lastHeard, lastAny, sess, known, lastTx, bin, bout, everConn, stopAt, shutdownSeen, open, tempSince, lastCsend>>
  ELSE IF ev.ev = "cnew" THEN
     /\ cstate' = Put(cstate, ev.c, [status |-> 1, since |-> ev.now, lastRx |-> ev.now, hello |-> ev.now, gotHello |-> FALSE, connTimeout |-> ev.connTimeout, hascb |-> ev.hascb = 1, ka |-> ev.ka, mt |-> ev.mt, cut |-> -1, period |-> ev.period])
     /\ UNCHANGED <<phase, objAt, tokens, thread, proved, lastHeard, lastAny, sess, known, lastTx, bin, bout, everConn, stopAt, shutdownSeen, open, tempSince, lastCsend>>
  ELSE IF ev.ev = "crx" THEN
     /\ cstate' = IF ev.c \in DOMAIN cstate /\ ev.acc > 0 THEN Put(cstate, ev.c, [cstate[ev.c] EXCEPT !.lastRx = ev.now, !.gotHello = TRUE]) ELSE cstate
     /\ UNCHANGED <<phase, objAt, tokens, thread, proved, lastHeard, lastAny, sess, known, lastTx, bin, bout, everConn, stopAt, shutdownSeen, open, tempSince, lastCsend>>
  ELSE IF ev.ev = "ccut" THEN          \* the environment silences the link towards this client from now on (nothing the server sends will reach it)
     /\ cstate' = IF ev.c \in DOMAIN cstate THEN Put(cstate, ev.c, [cstate[ev.c] EXCEPT !.cut = ev.now]) ELSE cstate
     /\ UNCHANGED <<phase, objAt, tokens, thread, proved, lastHeard, lastAny, sess, known, lastTx, bin, bout, everConn, stopAt, shutdownSeen, open, tempSince, lastCsend>>
  ELSE IF ev.ev = "cgone" THEN
     /\ cstate' = Del(cstate, ev.c) /\ open' = {o \in open : o[1] # ev.c} /\ lastCsend' = Del(lastCsend, ev.c)
     /\ UNCHANGED <<phase, objAt, tokens, thread, proved, lastHeard, lastAny, sess, known, lastTx, bin, bout, everConn, stopAt, shutdownSeen, tempSince>>
  ELSE IF ev.ev = "tick" THEN
     /\ known' = {ev.conns[i] : i \in DOMAIN ev.conns} \cup {ev.temps[i] : i \in DOMAIN ev.temps}
     /\ sess' = [a \in {x \in DOMAIN sess : x \in known' \/ (-x) \in known'} |-> sess[a]]      \* (a remembered hello waits for the server's answer, which may come a tick later)
     \* (with no connected client the loop sleeps until the next datagram: the pool is only swept while the loop runs)
     /\ tempSince' = LET T2 == {ev.temps[i] : i \in DOMAIN ev.temps} IN [a \in T2 |-> IF a \in DOMAIN tempSince /\ ev.conns # <<>> THEN tempSince[a] ELSE ev.now]
     /\ UNCHANGED <<phase, objAt, tokens, thread, proved, lastHeard, lastAny, lastTx, bin, bout, everConn, stopAt, cstate, shutdownSeen, open, lastCsend>>
  ELSE IF ev.ev = "req" THEN
     /\ open' = open \cup {<<ev.c, ev.id, ev.now>>}
     /\ UNCHANGED <<phase, objAt, tokens, thread, proved, lastHeard, lastAny, sess, known, lastTx, bin, bout, everConn, stopAt, cstate, shutdownSeen, tempSince, lastCsend>>
  ELSE IF ev.ev = "rsp" THEN
     /\ open' = {o \in open : ~(o[1] = ev.c /\ o[2] = ev.id)}
     /\ UNCHANGED <<phase, objAt, tokens, thread, proved, lastHeard, lastAny, sess, known, lastTx, bin, bout, everConn, stopAt, cstate, shutdownSeen, tempSince, lastCsend>>
  ELSE IF ev.ev = "csend" THEN
     /\ lastCsend' = Put(lastCsend, ev.c, ev.now)
     /\ UNCHANGED <<phase, objAt, tokens, thread, proved, lastHeard, lastAny, sess, known, lastTx, bin, bout, everConn, stopAt, cstate, shutdownSeen, open, tempSince>>
  ELSE IF ev.ev = "cset" THEN
     /\ cstate' = IF ev.c \in DOMAIN cstate
                  THEN Put(cstate, ev.c, IF ev.what = "ka" THEN [cstate[ev.c] EXCEPT !.ka = ev.v, !.since = ev.now]
                                         ELSE IF ev.what = "mt" THEN [cstate[ev.c] EXCEPT !.mt = ev.v] ELSE [cstate[ev.c] EXCEPT !.connTimeout = ev.v])
                  ELSE cstate
     /\ UNCHANGED <<phase, objAt, tokens, thread, proved, lastHeard, lastAny, sess, known, lastTx, bin, bout, everConn, stopAt, shutdownSeen, open, tempSince, lastCsend>>
  ELSE IF ev.ev = "stop" THEN
     /\ stopAt' = ev.now
     /\ UNCHANGED <<phase, objAt, tokens, thread, proved, lastHeard, lastAny, sess, known, lastTx, bin, bout, everConn, cstate, shutdownSeen, open, tempSince, lastCsend>>
  ELSE UNCHANGED vars

Step ==
  /\ l <= Len(Tr) /\ bad = {}
  /\ LET cl == Clauses IN
     IF cl = {} THEN /\ l' = l + 1 /\ UNCHANGED <<tid, bad>> /\ Upd
                     /\ (l = Len(Tr) => PrintT("ACCEPT " \o ToString([tid |-> tid, events |-> Len(Tr)])))
     ELSE /\ PrintT("REJECT " \o ToString(Diag)) /\ bad' = cl /\ UNCHANGED <<vars, tid, l>>
Done == (l > Len(Tr) \/ bad # {}) /\ UNCHANGED <<vars, tid, l, bad>>
TSpec == TInit /\ [][Step \/ Done]_<<vars, tid, l, bad>>
=============================================================================

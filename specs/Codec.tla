-------------------------------- MODULE Codec --------------------------------
(***************************************************************************)
(* The abstract contract of the binary serializer (serializable.py): a     *)
(* FIFO channel of normalised values.  Not the byte layout - a compatible   *)
(* layout change must not alarm.  Values are terms [t, v, e]:               *)
(*   atoms      t in int/bool/none/float/str/bytes, v a token, e = <<>>     *)
(*   containers t in list/tuple/set/dict/obj, e the element terms; dict     *)
(*              elements are [t |-> "kv", e |-> <<key, value>>]; obj and    *)
(*              enum carry the class (and member) name in v                  *)
(*   "bad"      a value of an unsupported type                               *)
(* Tokens stand for boundary values (64-bit ints do not fit TLC integers).   *)
(***************************************************************************)
EXTENDS Integers, Sequences, FiniteSets, TLC

Atom(t, v) == [t |-> t, v |-> v, e |-> <<>>]
Node(t, v, e) == [t |-> t, v |-> v, e |-> e]
InInts == {"0", "1", "-1", "127", "128", "-127", "-128", "-129", "32767", "32768", "-32768", "-32769", "2147483647", "2147483648", "-2147483648", "-2147483649",
           "9223372036854775807", "-9223372036854775808"}
OutInts == {"9223372036854775808", "-9223372036854775809", "18446744073709551616"}
InFloats == {"0.0", "-0.0", "1.5", "0.1", "inf", "-inf", "nan", "1e-50", "3.4e38", "16777217.0"}
OutFloats == {"1e39"}
InStrs == {"", "a", "multibyte", "nul", "L300", "mb_edge", "bom", "bom_only"}          \* mb_edge: exactly 2^20 bytes of UTF-8 in 2^19 characters
OutStrs == {"toolong", "surrogate", "mb_over"}                      \* mb_over: 2^19+1 two-byte characters: fewer than 2^20 characters, more than 2^20 bytes
InBytes == {"", "00ff", "L300"}
OutBytes == {"toolong"}
\* float32 image of a float token (decoding yields floats at float32 precision)
F32(x) == CASE x = "0.1" -> "0.1f" [] x = "1e-50" -> "0.0" [] x = "16777217.0" -> "16777216.0" [] OTHER -> x

Hashable(x) == x.t \in {"int", "bool", "none", "float", "str", "bytes", "enum"} \/ (x.t = "tuple" /\ \A i \in DOMAIN x.e : x.e[i].t \in {"int", "str", "bool", "none", "bytes"})
RECURSIVE InDomain(_)
InDomain(x) ==
  CASE x.t = "int" -> x.v \in InInts
    [] x.t = "float" -> x.v \in InFloats
    [] x.t = "str" -> x.v \in InStrs
    [] x.t = "bytes" -> x.v \in InBytes
    [] x.t \in {"bool", "none", "enum"} -> TRUE
    [] x.t = "bad" -> FALSE
    [] x.t \in {"list", "tuple", "set", "obj"} -> x.v # "overlong" /\ \A i \in DOMAIN x.e : InDomain(x.e[i])
    [] x.t = "dict" -> x.v # "overlong" /\ \A i \in DOMAIN x.e : InDomain(x.e[i].e[1]) /\ InDomain(x.e[i].e[2])
    [] OTHER -> FALSE
\* what decoding yields: tuples come back as lists (except where a list cannot exist: as set elements and dict keys), floats at float32 precision
RECURSIVE Norm(_, _)
Norm(x, hashed) ==
  CASE x.t = "float" -> Atom("float", F32(x.v))
    [] x.t = "tuple" -> Node(IF hashed THEN "tuple" ELSE "list", x.v, [i \in DOMAIN x.e |-> Norm(x.e[i], hashed)])
    [] x.t \in {"list", "obj"} -> Node(x.t, x.v, [i \in DOMAIN x.e |-> Norm(x.e[i], FALSE)])
    [] x.t = "set" -> Node("set", x.v, [i \in DOMAIN x.e |-> Norm(x.e[i], TRUE)])
    [] x.t = "dict" -> Node("dict", x.v, [i \in DOMAIN x.e |-> Node("kv", "", <<Norm(x.e[i].e[1], TRUE), Norm(x.e[i].e[2], FALSE)>>)])
    [] OTHER -> x
\* equality of terms; sets and dicts compare without order
RECURSIVE EqT(_, _)
EqT(a, b) ==
  /\ a.t = b.t /\ a.v = b.v /\ Len(a.e) = Len(b.e)
  /\ IF a.t \in {"set", "dict"}
     THEN /\ \A i \in DOMAIN a.e : \E j \in DOMAIN b.e : EqT(a.e[i], b.e[j])
          /\ \A j \in DOMAIN b.e : \E i \in DOMAIN a.e : EqT(a.e[i], b.e[j])
     ELSE \A i \in DOMAIN a.e : EqT(a.e[i], b.e[i])

\* ---- the channel: Write appends the normalised value, Read takes the head and consumes exactly its bytes --------------
\* observation of one written-then-read value: [kind "ok"|"refused"|"decode-error", back (term), produced, consumed]
ValueOK(x, o) == IF InDomain(x) THEN o.kind = "ok" /\ EqT(o.back, Norm(x, FALSE)) /\ o.consumed = o.produced
                 ELSE o.kind = "refused"                                                  \* outside the domain: refused with an error, never mis-encoded
=============================================================================

------------------------------ MODULE Animation ------------------------------
(***************************************************************************)
(* pylon/engine.py - AnimationComponent: a registry of animations (image    *)
(* sequences), one of them current; update(dt) advances the frame index at   *)
(* most once per call when the timer exceeds 1/fps; callbacks onframe(i) at  *)
(* the start of a frame and onend() after the last one; a non-looping        *)
(* animation stays on its last frame; an animation registered as not         *)
(* interruptible refuses to be replaced until it is `finished`.             *)
(*                                                                         *)
(* Time unit: 1/64 s.  fps = 4, so one frame lasts Unit = 16.  Floats of     *)
(* the code are exact for these values.                                      *)
(*                                                                         *)
(* The model follows the code.  Two statements one would expect of it do     *)
(* not hold (see EndOnce, FinishedWhenEnded): update() steps a non-looping   *)
(* animation from its last frame to N and straight back to N - 1, so         *)
(*   - `finished` (index == N) is never true between two calls, and an       *)
(*     animation that is not interruptible is therefore never released;      *)
(*   - every further frame time runs the same step again: onend() is called  *)
(*     once per frame time for ever;                                         *)
(*   - a looping animation re-enters frame 0 without onframe(0).             *)
(***************************************************************************)
EXTENDS Integers, Sequences, FiniteSets, TLC

CONSTANTS MaxOps, Dts
Unit == 16
\* the registry the harness sets up: images, loop, interruptible
Reg == <<[n |-> 3, loop |-> TRUE,  intr |-> TRUE],
         [n |-> 2, loop |-> FALSE, intr |-> TRUE],
         [n |-> 2, loop |-> FALSE, intr |-> FALSE],
         [n |-> 1, loop |-> TRUE,  intr |-> TRUE]>>
Aids == DOMAIN Reg

VARIABLES cur,        \* _current_aid (0: none yet)
          index, timer,
          frames,     \* ghost: arguments of onframe since the current animation was set
          ends,       \* ghost: calls of onend since the current animation was set
          nops, last
vars == <<cur, index, timer, frames, ends, nops, last>>

N == IF cur = 0 THEN 0 ELSE Reg[cur].n
Loop == IF cur = 0 THEN TRUE ELSE Reg[cur].loop
Intr == IF cur = 0 THEN TRUE ELSE Reg[cur].intr
Animated == N > 1
Finished == ~Loop /\ index = N

Init == cur = 0 /\ index = 0 /\ timer = 0 /\ frames = <<>> /\ ends = 0 /\ nops = 0 /\ last = [op |-> "init"]
Op == nops < MaxOps /\ nops' = nops + 1

\* setAnimationById(a): refused (False) for the current animation and while an uninterruptible one is not finished
Set(a) ==
  /\ Op
  /\ IF a # cur /\ (Intr \/ Finished)
       THEN /\ cur' = a /\ index' = 0 /\ timer' = 0 /\ frames' = <<0>> /\ ends' = 0
            /\ last' = [op |-> "set", a |-> a, res |-> TRUE]
       ELSE /\ UNCHANGED <<cur, index, timer, frames, ends>>
            /\ last' = [op |-> "set", a |-> a, res |-> FALSE]
\* update(dt)
Update(dt) ==
  /\ Op /\ last' = [op |-> "update", a |-> dt]
  /\ UNCHANGED cur
  /\ IF ~Animated THEN UNCHANGED <<index, timer, frames, ends>>
     ELSE LET t1 == timer + dt IN
          IF t1 <= Unit THEN timer' = t1 /\ UNCHANGED <<index, frames, ends>>
          ELSE LET i1 == IF index < N THEN index + 1 ELSE index IN
               /\ timer' = t1 - Unit
               /\ frames' = IF i1 < N THEN Append(frames, i1) ELSE frames
               /\ ends' = IF i1 = N THEN ends + 1 ELSE ends
               /\ index' = IF i1 = N THEN (IF Loop THEN 0 ELSE N - 1) ELSE i1
\* a looping animation calls its callbacks for ever: the ghosts are cut to keep the model finite
Bound == Len(frames) <= 7 /\ ends <= 3

Next == (\E a \in Aids : Set(a)) \/ (\E d \in Dts : Update(d))
Spec == Init /\ [][Next]_vars

\* between two calls the index names an image
IndexInRange == cur # 0 => index \in 0..(N - 1)
\* frames start in order; when a looping animation starts over, frame 0 is entered without a call (the test for onframe stands before the wrap-around)
FramesAscend == \A k \in DOMAIN frames : /\ (k = 1 => frames[k] = 0)
                                          /\ (k > 1 => frames[k] = (IF frames[k-1] = N - 1 THEN 1 ELSE frames[k-1] + 1))
\* expected, but not what the code does (findings):
\* onframe is called at the start of EVERY frame, frame 0 of a repetition included
FramesInOrder == \A k \in DOMAIN frames : /\ (k = 1 => frames[k] = 0)
                                           /\ (k > 1 => frames[k] = (IF frames[k-1] = N - 1 THEN 0 ELSE frames[k-1] + 1))
\* a non-looping animation never starts a frame again
NoRestartWithoutLoop == ~Loop => \A a, b \in DOMAIN frames : a # b => frames[a] # frames[b]
\* the timer never holds more than a frame time plus the largest step
TimerBounded == timer >= 0
EndOnce == ~Loop => ends <= 1
FinishedWhenEnded == (~Loop /\ ends > 0) => Finished
=============================================================================

---------------------------- MODULE Obs_PathJoin ----------------------------
(* Pass 1: TLC writes out the name space.  Pass 2: TLC judges every         *)
(* observed outcome of the real path_join_safe with PathJoin!Safe.           *)
EXTENDS PathJoin, Json, IOUtils
\* constants with a backslash are defined here (the cfg parser does not process string escapes)
BS == "\\"
SepsDef == {"/", BS, "mix"}
PrefQuick == {"", "/", "//", BS, "C:" \o BS, "C:/"}
PrefThorough == PrefQuick \cup {BS \o BS, "/../", "/" \o BS}
VARIABLE i
GenInit == i = 0 /\ JsonSerialize(IOEnv.OUT_FILE, [names |-> SetToSeq(Names)])
Next == UNCHANGED i
Inp == JsonDeserialize(IOEnv.OUT_FILE)
Obs == JsonDeserialize(IOEnv.OBS_FILE)
\* Obs.roots[r] = normalised root components;  Obs.out[r][k], Obs.comps[r][k] for Inp.names[k];
\* Obs.extra = sequence of [root, out, comps] for names that are raw strings (router captures, unicode)
NR == Len(Obs.roots)
Chunk == 2000
NChunks == (Len(Inp.names) + Chunk - 1) \div Chunk
ObsInit == i \in 1..(NR * NChunks + 1)
RowOK == IF i <= NR * NChunks
         THEN LET r == ((i - 1) % NR) + 1
                  c == (i - 1) \div NR
              IN \A k \in (c * Chunk + 1)..(IF (c + 1) * Chunk < Len(Inp.names) THEN (c + 1) * Chunk ELSE Len(Inp.names)) :
                    Safe(Obs.roots[r], Obs.out[r][k], Obs.comps[r][k])
         ELSE \A k \in DOMAIN Obs.extra : Safe(Obs.extra[k].root, Obs.extra[k].out, Obs.extra[k].comps)
Complete == i = 1 => /\ ToSet(Inp.names) = Names
                     /\ \A r \in 1..NR : Len(Obs.out[r]) = Len(Inp.names) /\ Len(Obs.comps[r]) = Len(Inp.names)
Where == [i |-> i,
          bad |-> IF i <= NR * NChunks
                  THEN LET r == ((i - 1) % NR) + 1
                           c == (i - 1) \div NR
                       IN {[root |-> r, name |-> Inp.names[k], out |-> Obs.out[r][k], comps |-> Obs.comps[r][k]] :
                             k \in {x \in (c * Chunk + 1)..(IF (c + 1) * Chunk < Len(Inp.names) THEN (c + 1) * Chunk ELSE Len(Inp.names)) :
                                      ~Safe(Obs.roots[r], Obs.out[r][x], Obs.comps[r][x])}}
                  ELSE {[root |-> 0, name |-> Obs.extra[k].name, out |-> Obs.extra[k].out, comps |-> Obs.extra[k].comps] :
                             k \in {x \in DOMAIN Obs.extra : ~Safe(Obs.extra[x].root, Obs.extra[x].out, Obs.extra[x].comps)}}]
=============================================================================

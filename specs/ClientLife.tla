----------------------------- MODULE ClientLife -----------------------------
(***************************************************************************)
(* The life of one UdpClient against a real server, at the grain a game     *)
(* sees it: the public calls connect / send / disconnect+waitForDisconnect  *)
(* / forceDisconnect / status / connected and the connect callback, a       *)
(* server-side kick (the handler calls client.disconnect()), and time       *)
(* passing in macro steps (unit 0.1 s):                                     *)
(*     RunUp   0.8 s, link up        RunCut  4.0 s, link cut                *)
(*     RunCut5 6.0 s, link cut       (send and kick include 0.8 s, link up; *)
(*     disconnect + waitForDisconnect takes 0.1 s when acknowledged, 1.2 s   *)
(*     when not)                                                            *)
(* against the time-outs of the harness: server connection time-out 3 s,    *)
(* client connect time-out 3 s, client silence limit 5 s (fixed in the      *)
(* code).  Three clocks are kept: how long the server has heard nothing     *)
(* from an address it holds a connection for (age), how long the client     *)
(* has been CONNECTING (wait), how long a client with a connection object   *)
(* has heard nothing (quiet).                                               *)
(*                                                                         *)
(*  status:  NONE (no connection object; status() says DISCONNECTED),       *)
(*           CONNECTING, CONNECTED, DISCONNECTING, DISCONNECTED, DROPPED    *)
(***************************************************************************)
EXTENDS Integers, Sequences, FiniteSets, TLC

CONSTANT MaxOps
SrvTimeout == 30
ConnTimeout == 30
Silence == 50
VARIABLES cst, link,
          srv,            \* TRUE: the server holds a connection for the client's address
          cbs,            \* results handed to the connect callback of the current attempt
          hconn, hdisc,   \* handler.connect / handler.disconnect events for the address so far
          got,            \* TRUE: the probe message of the last send / kick reached the server's handler
          age, wait, quiet,
          nops, last
vars == <<cst, link, srv, cbs, hconn, hdisc, got, age, wait, quiet, nops, last>>

Init == /\ cst = "NONE" /\ link = "up" /\ srv = FALSE /\ cbs = <<>> /\ hconn = 0 /\ hdisc = 0 /\ got = FALSE
        /\ age = 0 /\ wait = 0 /\ quiet = 0 /\ nops = 0 /\ last = "init"
Op(name) == nops < MaxOps /\ nops' = nops + 1 /\ last' = name
HasConn(s) == s \in {"CONNECTING", "CONNECTED", "DISCONNECTING", "DISCONNECTED", "DROPPED"}
Talks(s) == s \in {"CONNECTED"}                      \* the client emits keep-alives the server accepts

(* ---- d tenths of a second pass with the link in its current state; everything time does, in one place *)
\* result: the new values of <<cst, srv, cbs, hconn, hdisc, age, wait, quiet>>
Pass(d, c0, s0, cb0, hc0, hd0, a0, w0, q0) ==
  LET up == link = "up"
      \* 1. a pending connect attempt: answered at once if the server can be reached and holds nothing for the address
      connects == c0 = "CONNECTING" /\ up /\ ~s0 /\ w0 = 0
      w1 == IF c0 = "CONNECTING" /\ ~connects THEN w0 + d ELSE 0
      timesout == c0 = "CONNECTING" /\ ~connects /\ w1 > ConnTimeout
      c1 == IF connects THEN "CONNECTED" ELSE IF timesout THEN "DISCONNECTED" ELSE c0
      cb1 == IF connects THEN <<TRUE>> ELSE IF timesout THEN <<FALSE>> ELSE cb0
      s1 == s0 \/ connects
      hc1 == IF connects THEN hc0 + 1 ELSE hc0
      \* 2. the server's silence clock for the address
      heard == s1 /\ up /\ Talks(c1)
      a1 == IF ~s1 THEN 0 ELSE IF heard THEN 0 ELSE a0 + d
      drops == s1 /\ a1 > SrvTimeout
      s2 == s1 /\ ~drops
      hd1 == IF drops THEN hd0 + 1 ELSE hd0
      \* 3. the client's silence clock (any client that has a connection object and once heard the server)
      hears == up /\ s1 /\ Talks(c1)
      q1 == IF c1 \in {"CONNECTED", "DISCONNECTING"} THEN (IF hears /\ s2 THEN 0 ELSE q0 + d) ELSE q0
      c2 == IF c1 \in {"CONNECTED", "DISCONNECTING"} /\ q1 > Silence THEN "DROPPED" ELSE c1
  IN <<c2, s2, cb1, hc1, hd1, IF s2 THEN a1 ELSE 0, IF c2 = "CONNECTING" THEN w1 ELSE 0, q1>>
Apply(r) == /\ cst' = r[1] /\ srv' = r[2] /\ cbs' = r[3] /\ hconn' = r[4] /\ hdisc' = r[5] /\ age' = r[6] /\ wait' = r[7] /\ quiet' = r[8]
Run(d) == Apply(Pass(d, cst, srv, cbs, hconn, hdisc, age, wait, quiet))

Connect == /\ cst \in {"NONE", "DISCONNECTED", "DROPPED", "DISCONNECTING"} /\ ~srv /\ Op("connect")
           /\ cst' = "CONNECTING" /\ cbs' = <<>> /\ got' = FALSE /\ wait' = 0 /\ quiet' = 0
           /\ UNCHANGED <<link, srv, hconn, hdisc, age>>
SetLink(l) == /\ link # l /\ Op(IF l = "up" THEN "heal" ELSE "cut") /\ link' = l /\ got' = FALSE /\ UNCHANGED <<cst, srv, cbs, hconn, hdisc, age, wait, quiet>>
RunUp == link = "up" /\ Op("runup") /\ Run(8) /\ got' = FALSE /\ UNCHANGED link
RunCut == link = "cut" /\ Op("runcut") /\ Run(40) /\ got' = FALSE /\ UNCHANGED link
RunCut5 == link = "cut" /\ Op("runcut5") /\ Run(60) /\ got' = FALSE /\ UNCHANGED link
\* send(probe), then 0.8 s: a message sent while the client is not CONNECTED is dropped silently
Send == /\ link = "up" /\ cst # "NONE" /\ Op("send") /\ Run(8)
        /\ got' = (cst = "CONNECTED" /\ srv)
        /\ UNCHANGED link
\* the probe asks the server's handler to disconnect the client
Kick == /\ cst = "CONNECTED" /\ srv /\ link = "up" /\ Op("kick")
        /\ cst' = "DISCONNECTING" /\ srv' = FALSE /\ hdisc' = hdisc + 1 /\ got' = TRUE /\ age' = 0 /\ quiet' = 8
        /\ UNCHANGED <<link, cbs, hconn, wait>>
\* disconnect() + waitForDisconnect(): acknowledged at once when the server can be reached, else the wait gives up after 1 s; the object is released
Goodbye == /\ HasConn(cst) /\ Op("goodbye")
           /\ LET acked == cst = "CONNECTED" /\ srv /\ link = "up"
                  d == IF acked THEN 3 ELSE 12
                  \* an unfinished connect attempt can still be answered during the wait: the server then holds a connection nobody uses
                  r == Pass(d, IF cst = "CONNECTING" THEN cst ELSE "NONE", IF acked THEN FALSE ELSE srv, cbs, hconn, IF acked THEN hdisc + 1 ELSE hdisc, age, wait, quiet)
              IN Apply(<<"NONE", r[2], r[3], r[4], r[5], r[6], 0, 0>>)
           /\ got' = FALSE /\ UNCHANGED link
Force == /\ HasConn(cst) /\ Op("force")
         /\ cst' = "NONE" /\ got' = FALSE /\ wait' = 0 /\ quiet' = 0 /\ UNCHANGED <<link, srv, cbs, hconn, hdisc, age>>

Next == Connect \/ SetLink("up") \/ SetLink("cut") \/ RunUp \/ RunCut \/ RunCut5 \/ Send \/ Kick \/ Goodbye \/ Force
Spec == Init /\ [][Next]_vars

\* the handler sees connect and disconnect alternate (C10's lifecycle, seen from one client), and the server holds a connection exactly in between
Alternate == hdisc <= hconn /\ hconn <= hdisc + 1 /\ (srv <=> hconn = hdisc + 1)
\* the connect callback is called at most once per attempt, and not before the attempt is decided
CallbackOnce == Len(cbs) <= 1 /\ (cst = "CONNECTING" => cbs = <<>>)
\* a connection the server holds while the client has let go of it is forgotten within the server's time-out
NoEternalZombie == (srv /\ cst = "NONE") => age <= SrvTimeout
=============================================================================

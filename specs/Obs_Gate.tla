------------------------------ MODULE Obs_Gate ------------------------------
(* Pass 1: TLC writes every (situation, class) with the outcome Gate!Outcome *)
(* prescribes.  Pass 2: the harness has concretised each class into real      *)
(* bytes (valid CRC, wrong-key AES-GCM, recorded genuine datagrams, ...) and  *)
(* injected it into real endpoints in that situation; TLC judges what it      *)
(* observed: return value, which parts of the endpoint changed, whether       *)
(* anything reached the application.  The byte-level sweep (bit flips,        *)
(* truncations, header rewrites of genuine datagrams) arrives as rows of      *)
(* expected outcome "noeffect" / "either".                                     *)
EXTENDS Gate, Json, IOUtils, SequencesExt
VARIABLE i
GenInit == /\ sit \in Situations /\ delivered = 0 /\ resolved = 0 /\ keyEpoch = 0 /\ liveness = 0 /\ window = 0 /\ last = [c |-> "none", out |-> "none"]
           /\ sit = [side |-> "client", keyed |-> TRUE] /\ i = 0
           /\ JsonSerialize(IOEnv.OUT_FILE, [cases |-> SetToSeq({[sit |-> s, c |-> c, expect |-> Outcome(c, s)] : s \in Situations, c \in {x \in Classes : Sensible(x)}})])
GNext == UNCHANGED <<vars, i>>
Obs == JsonDeserialize(IOEnv.OBS_FILE)
\* row = [expect, ret ("true"|"false"|"hdr"|"exc"), changed (sequence of field names), app (0/1), keychg (0/1), dropped (0/1)]
Chunk == 500
ObsInit == /\ sit = [side |-> "client", keyed |-> TRUE] /\ delivered = 0 /\ resolved = 0 /\ keyEpoch = 0 /\ liveness = 0 /\ window = 0 /\ last = [c |-> "none", out |-> "none"]
           /\ i \in 1..((Len(Obs) + Chunk - 1) \div Chunk)
RowRange == ((i - 1) * Chunk + 1)..(IF i * Chunk < Len(Obs) THEN i * Chunk ELSE Len(Obs))
Discarded(r) == r.ret \in {"false", "hdr"} /\ r.changed = <<>> /\ r.app = 0 /\ r.keychg = 0
RowOK(r) == CASE r.expect = "noeffect" -> Discarded(r)
              [] r.expect = "dropped" -> Discarded(r) /\ (r.ret = "false" => r.dropped = 1)
              [] r.expect = "accepted" -> r.ret = "true" /\ r.keychg = 0
              [] r.expect = "either" -> (r.ret = "true" /\ r.keychg = 0) \/ Discarded(r)
              [] r.expect = "hello" -> r.app = 0
              [] OTHER -> FALSE
AllOK == \A k \in RowRange : RowOK(Obs[k])
Where == [i |-> i, bad |-> {<<k, Obs[k]>> : k \in {x \in RowRange : ~RowOK(Obs[x])}}]
=============================================================================

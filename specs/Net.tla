--------------------------------- MODULE Net ---------------------------------
(***************************************************************************)
(* The environment's half of a connection history, as a finite space that   *)
(* TLC enumerates exhaustively: what the application sends in the first      *)
(* ticks and what the network does to the first datagrams each side emits.   *)
(* A schedule is meaningful whatever the implementation packs into its       *)
(* datagrams; the real endpoints are run under every schedule and the        *)
(* recorded execution is judged by Trace_Conn (binding R, "environment       *)
(* schedule" mode of DESIGN.md 2.3).                                          *)
(*   fate of the k-th datagram of a side: a sequence of delivery delays in    *)
(*   ticks - <<>> lost, <<d>> delivered after d ticks, <<d1, d2>> duplicated  *)
(*   send plan: per side a sequence of [len class, retry mode, tick]          *)
(***************************************************************************)
EXTENDS Integers, Sequences, FiniteSets, TLC, Json, IOUtils, SequencesExt
CONSTANTS NDatagrams,   \* fates are chosen for the first NDatagrams datagrams of each side
          Fates,        \* set of fates
          Plans         \* set of send plans for the client (the server echoes nothing; it only acknowledges)

Schedules == {[c |-> fc, s |-> fs, plan |-> p] : fc \in [1..NDatagrams -> Fates], fs \in [1..NDatagrams -> Fates], p \in Plans}
VARIABLE i
GenInit == i = 0 /\ JsonSerialize(IOEnv.OUT_FILE, [schedules |-> SetToSeq(Schedules)])
Next == UNCHANGED i
=============================================================================

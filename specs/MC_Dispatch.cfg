SPECIFICATION Spec
CONSTANTS
 Res = {"r1", "r1b", "r2", "r3"}
 Classes = {"A", "B", "C", "D"}
 Unknown = "Z"
 Handles <- HandlesDef
 MaxOps = 6
INVARIANT TypeOK
INVARIANT OwnClassesOnly
INVARIANT DispatchExact
INVARIANT CanRegisterAgain
PROPERTY SecondRefused
PROPERTY UnregisterRemoves
CHECK_DEADLOCK FALSE

-------------------------------- MODULE Conn --------------------------------
(***************************************************************************)
(* Design model of the reliability layer of connection.py, for exhaustive   *)
(* model checking.  One sender A (application sends, datagram assembly,     *)
(* retry queues, callbacks: ConnectionBase.send / _build_packet /            *)
(* _handle_ack_bits / _handle_ack / _handle_timeout / RetrySender) and one   *)
(* receiver B (_recv_datagram, _recv_message with both windows).             *)
(*                                                                         *)
(* Shape (settled by prototypes, see DESIGN.md 2.2): the endpoints are      *)
(* deterministic between network events - each Tick performs the code's     *)
(* fixed sequence age -> build -> check-timeout - and all nondeterminism    *)
(* is the environment: application sends and the network (deliver, lose,    *)
(* late delivery, replay of any recorded datagram, ack loss).  Faults are   *)
(* budgets in the state, not a state constraint, so liveness results are    *)
(* not artefacts of a CONSTRAINT.                                            *)
(*                                                                         *)
(* RetryOnce / StaleDrop / StaleMsgDrop select the code's behaviour:        *)
(*   RetryOnce   = TRUE : RetrySender reports the first ack only (current)  *)
(*   StaleDrop   = TRUE : a datagram older than the window is dropped       *)
(*   StaleMsgDrop= FALSE: a message older than the message window is        *)
(*                 accepted again (current code; known finding D3)          *)
(* The FALSE/TRUE controls must make the corresponding invariant fail:      *)
(* that is the vacuity guard of the checks.                                  *)
(***************************************************************************)
EXTENDS BitOps, Sequences, FiniteSets, TLC
CONSTANTS Wp, Wm,          \* datagram / message window widths
          T, R,            \* message time-out and resend delay, in ticks
          D,               \* maximum network delay in ticks
          K,               \* at most K messages per datagram
          C,               \* at most C datagrams in flight
          Pids, RetryOf,   \* payload ids and their retry mode "NONE" | "BEST" | "RETRY"
          LossBudget, ReplayBudget, MaxSent,
          RetryOnce, StaleDrop, StaleMsgDrop

VARIABLES todo, A, B, net, acks, lossLeft, replayLeft, nsent
vars == <<todo, A, B, net, acks, lossLeft, replayLeft, nsent>>
\* A = [out, seqSend, seqMsg, pend, rmsg, rsDone, cbLog]   B = [winPkt, winMsg, delivered, accepted]

Init ==
  /\ todo = Pids
  /\ A = [out |-> <<>>, seqSend |-> 0, seqMsg |-> 0, pend |-> <<>>, rmsg |-> <<>>, rsDone |-> {}, cbLog |-> [p \in Pids |-> <<>>]]
  /\ B = [winPkt |-> W0, winMsg |-> W0, delivered |-> [p \in Pids |-> 0], accepted |-> {}]
  /\ net = <<>> /\ acks = {} /\ lossLeft = LossBudget /\ replayLeft = ReplayBudget /\ nsent = 0

\* ConnectionBase.send / _send_type: next message seq; a guaranteed send wraps its callback in a RetrySender
AppSend(p) ==
  /\ p \in todo /\ todo' = todo \ {p}
  /\ A' = [A EXCEPT !.seqMsg = Inc(@),
                    !.out = Append(@, [pid |-> p, mseq |-> Inc(A.seqMsg), retry |-> RetryOf[p],
                                       cb |-> IF RetryOf[p] = "RETRY" THEN "retry" ELSE "user"])]
  /\ UNCHANGED <<B, net, acks, lossLeft, replayLeft, nsent>>

Take(s, n) == IF Len(s) <= n THEN s ELSE SubSeq(s, 1, n)
Drop(s, n) == IF Len(s) <= n THEN <<>> ELSE SubSeq(s, n + 1, Len(s))

\* ---- pure functions on the sender record --------------------------------
\* one callback of a resolved datagram: user callback, or RetrySender.__call__
RunCb(a, m, ok) ==
  IF m.cb = "user" THEN [a EXCEPT !.cbLog[m.pid] = Append(@, ok)]
  ELSE IF RetryOnce /\ m.pid \in a.rsDone THEN a
  ELSE IF ok THEN [a EXCEPT !.cbLog[m.pid] = Append(@, TRUE), !.rsDone = @ \cup {m.pid}]
  ELSE [a EXCEPT !.out = Append(@, m)]                               \* re-queued under the same message seq
RECURSIVE RunCbs(_, _, _, _)
RunCbs(a, msgs, i, ok) == IF i > Len(msgs) THEN a ELSE RunCbs(RunCb(a, msgs[i], ok), msgs, i + 1, ok)
\* _handle_ack / _handle_timeout: callbacks, then clear the interval-resend entries of the datagram's messages
Resolve(a, e, ok) ==
  LET a1 == RunCbs(a, e.msgs, 1, ok)
      retried == {e.msgs[i].mseq : i \in {j \in 1..Len(e.msgs) : e.msgs[j].retry # "NONE"}}
  IN [a1 EXCEPT !.rmsg = SelectSeq(@, LAMBDA r : r.m.mseq \notin retried)]
RECURSIVE Sweep(_, _, _, _, _)
Sweep(a, entries, keep, i, decs) ==
  IF i > Len(entries) THEN [a EXCEPT !.pend = keep]
  ELSE IF decs[i] = "ack" THEN Sweep(Resolve(a, entries[i], TRUE), entries, keep, i + 1, decs)
  ELSE IF decs[i] = "timeout" THEN Sweep(Resolve(a, entries[i], FALSE), entries, keep, i + 1, decs)
  ELSE Sweep(a, entries, Append(keep, entries[i]), i + 1, decs)

AgeA(a) == [a EXCEPT !.pend = [i \in 1..Len(@) |-> [@[i] EXCEPT !.age = IF @ > T THEN @ ELSE @ + 1]],
                     !.rmsg = [i \in 1..Len(@) |-> [@[i] EXCEPT !.age = IF @ >= R THEN @ ELSE @ + 1]]]
\* _build_packet_impl: due interval-resends first, then fresh messages; registers the datagram.  [a, dg]
BuildA(a) ==
  LET due0 == SelectSeq(a.rmsg, LAMBDA e : e.age >= R)
      due == Take(due0, K)
      dueM == [i \in 1..Len(due) |-> due[i].m]
      fresh == Take(a.out, K - Len(due))
      msgs == dueM \o fresh
      ds == Inc(a.seqSend)
      keepR == SelectSeq(a.rmsg, LAMBDA e : ~\E i \in 1..Len(msgs) : msgs[i].mseq = e.m.mseq)
      newR == SelectSeq(msgs, LAMBDA m : m.retry # "NONE")
  IN IF Len(msgs) = 0 THEN [a |-> a, dg |-> <<>>]
     ELSE [a |-> [a EXCEPT !.seqSend = ds, !.out = Drop(@, K - Len(due)),
                          !.rmsg = keepR \o [i \in 1..Len(newR) |-> [m |-> newR[i], age |-> 0]],
                          !.pend = Append(SelectSeq(@, LAMBDA e : e.dseq # ds), [dseq |-> ds, age |-> 0, msgs |-> msgs])],
           dg |-> << [dseq |-> ds, msgs |-> [i \in 1..Len(msgs) |-> [pid |-> msgs[i].pid, mseq |-> msgs[i].mseq]], live |-> TRUE, age |-> 0] >>]
\* _check_timeout
CheckTimeoutA(a) == Sweep(a, a.pend, <<>>, 1, [i \in 1..Len(a.pend) |-> IF a.pend[i].age >= T THEN "timeout" ELSE "keep"])
\* _handle_ack_bits on a received (ack, ackbits)
HandleAckBits(a, k) ==
  Sweep(a, a.pend, <<>>, 1, [i \in 1..Len(a.pend) |->
         LET d == Diff(k.ack, a.pend[i].dseq) IN
         IF d = 0 \/ (d >= 1 /\ d <= Wp /\ d \in k.bits) THEN "ack"
         ELSE IF a.pend[i].age > T THEN "timeout" ELSE "keep"])

\* ---- one tick of both endpoints, deterministic --------------------------
Live == {i \in 1..Len(net) : net[i].live}
Half2 == (M - 1) \div 2
Tick ==
  /\ \A i \in Live : net[i].age < D
  /\ \A k \in acks : k.age < D
  /\ Cardinality(Live) <= C
  /\ LET a1 == AgeA(A)
         b == BuildA(a1)
         a2 == CheckTimeoutA(b.a)
         aged == [i \in 1..Len(net) |-> [net[i] EXCEPT !.age = IF @ >= D THEN @ ELSE @ + 1]]
         all == aged \o b.dg
         keepFrom == IF Len(all) > Half2 + C THEN Len(all) - (Half2 + C) + 1 ELSE 1
     IN /\ A' = a2
        /\ net' = SelectSeq([i \in 1..Len(all) |-> [all[i] EXCEPT !.age = IF i >= keepFrom THEN @ ELSE -1]],
                            LAMBDA d : d.live \/ (ReplayBudget > 0 /\ d.age >= 0))
        /\ acks' = LET agedK == {[k EXCEPT !.age = @ + 1] : k \in acks} IN
                   IF B.winPkt.cur # 0 /\ Cardinality(acks) < 2
                   THEN agedK \cup {[ack |-> B.winPkt.cur, bits |-> B.winPkt.bits, age |-> 0]} ELSE agedK
        /\ nsent' = nsent + Len(b.dg)
  /\ UNCHANGED <<todo, B, lossLeft, replayLeft>>

\* _recv_message for each message of an accepted datagram
RECURSIVE RecvMsgs(_, _, _)
RecvMsgs(b, msgs, i) ==
  IF i > Len(msgs) THEN b
  ELSE LET r == WInsert(b.winMsg.cur, b.winMsg.bits, msgs[i].mseq, Wm) IN
       IF r.out = "dup" \/ (StaleMsgDrop /\ r.out = "stale") THEN RecvMsgs(b, msgs, i + 1)
       ELSE RecvMsgs([b EXCEPT !.winMsg = [cur |-> r.cur, bits |-> r.bits],
                               !.delivered[msgs[i].pid] = IF @ < 2 THEN @ + 1 ELSE @], msgs, i + 1)
\* _recv_datagram: a datagram in flight, or (attacker) any recorded datagram again
DeliverData(i) ==
  /\ i \in 1..Len(net) /\ (net[i].live \/ replayLeft > 0)
  /\ replayLeft' = IF net[i].live THEN replayLeft ELSE replayLeft - 1
  /\ LET d == net[i] r == WInsert(B.winPkt.cur, B.winPkt.bits, d.dseq, Wp) IN
     /\ net' = [net EXCEPT ![i].live = FALSE]
     /\ IF r.out = "dup" \/ (StaleDrop /\ r.out = "stale") THEN B' = B
        ELSE B' = RecvMsgs([B EXCEPT !.winPkt = [cur |-> r.cur, bits |-> r.bits],
                                     !.accepted = @ \cup {d.msgs[j].pid : j \in 1..Len(d.msgs)}], d.msgs, 1)
  /\ UNCHANGED <<todo, A, acks, lossLeft, nsent>>
LoseData(i) ==
  /\ i \in Live /\ lossLeft > 0 /\ lossLeft' = lossLeft - 1
  /\ net' = [net EXCEPT ![i].live = FALSE]
  /\ UNCHANGED <<todo, A, B, acks, replayLeft, nsent>>
DeliverAck(k) ==
  /\ k \in acks /\ acks' = acks \ {k}
  /\ A' = HandleAckBits(A, k)
  /\ UNCHANGED <<todo, B, net, lossLeft, replayLeft, nsent>>
LoseAck(k) ==
  /\ k \in acks /\ lossLeft > 0 /\ lossLeft' = lossLeft - 1 /\ acks' = acks \ {k}
  /\ UNCHANGED <<todo, A, B, net, replayLeft, nsent>>

Send == \E p \in Pids : AppSend(p)
Deliver == \E i \in 1..Len(net) : DeliverData(i)
Lose == \E i \in 1..Len(net) : LoseData(i)
AckIn == \E k \in acks : DeliverAck(k)
AckLost == \E k \in acks : LoseAck(k)
Next == Send \/ Tick \/ Deliver \/ Lose \/ AckIn \/ AckLost
Fair == /\ WF_vars(Tick)
        /\ WF_vars(\E k \in acks : DeliverAck(k))
        /\ WF_vars(\E i \in Live : DeliverData(i))
        /\ \A p \in Pids : WF_vars(AppSend(p))
Spec == Init /\ [][Next]_vars /\ Fair

\* ---- properties ------------------------------------------------------------
AtMostOnce == \A p \in Pids : B.delivered[p] <= 1                                             \* C04
CbAtMostOnce == \A p \in Pids : RetryOf[p] # "BEST" => Len(A.cbLog[p]) <= 1                    \* C07
TrueMeansAccepted == \A p \in Pids : \A i \in 1..Len(A.cbLog[p]) : A.cbLog[p][i] = TRUE => p \in B.accepted   \* C07
GuaranteedNeverFalse == \A p \in Pids : RetryOf[p] = "RETRY" => \A i \in 1..Len(A.cbLog[p]) : A.cbLog[p][i] = TRUE
Delivery == \A p \in Pids : RetryOf[p] = "RETRY" => <>(B.delivered[p] >= 1)                    \* C05
CbEventually == \A p \in Pids : RetryOf[p] # "BEST" => <>(Len(A.cbLog[p]) >= 1)               \* C07
Quiesce == <>[](A.out = <<>> /\ A.rmsg = <<>>)
Bound == nsent <= MaxSent /\ \A p \in Pids : Len(A.cbLog[p]) <= 3
\* the ring must be larger than what budgets let the sender emit during any datagram's lifetime (the < 32767 caveat of C04)
RingBigEnough == nsent < M - Wp - 1
=============================================================================

------------------------------ MODULE Obs_Http ------------------------------
(* Pass 1: TLC writes out every abstract request.  Pass 2: TLC judges what   *)
(* the real Router.dispatch answered to each (Http!Expect).  The connection   *)
(* level (Http!CSpec) is bound by replaying simulated behaviours (x03.py).   *)
EXTENDS Http, Json, IOUtils, SequencesExt
VARIABLE i
GenInit == i = 0 /\ JsonSerialize(IOEnv.OUT_FILE, [reqs |-> SetToSeq(Requests)])
ONext == UNCHANGED i
Inp == JsonDeserialize(IOEnv.OUT_FILE)
Obs == JsonDeserialize(IOEnv.OBS_FILE)          \* Obs[k] = [status, why] for Inp.reqs[k]
Chunk == 1000
ObsInit == i \in 1..((Len(Obs) + Chunk - 1) \div Chunk)
RowRange == ((i - 1) * Chunk + 1)..(IF i * Chunk < Len(Obs) THEN i * Chunk ELSE Len(Obs))
RowOK(q, o) == o.status = Expect(q).status /\ o.why = Expect(q).why
AllOK == \A k \in RowRange : RowOK(Inp.reqs[k], Obs[k])
Complete == i = 1 => (ToSet(Inp.reqs) = Requests /\ Len(Obs) = Len(Inp.reqs))
Where == [i |-> i, bad |-> {<<k, Inp.reqs[k], Obs[k], Expect(Inp.reqs[k])>> : k \in {x \in RowRange : ~RowOK(Inp.reqs[x], Obs[x])}}]
=============================================================================

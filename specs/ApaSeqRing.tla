---------------------------- MODULE ApaSeqRing ----------------------------
(* The ring laws of C08 at the REAL ring size, for ALL positions at once (symbolically, Apalache + Z3), instead of   *)
(* the boundary neighbourhoods TLC enumerates.  Same operators as SeqRing.tla, with M a definition and types added.  *)
EXTENDS Integers
M == 65535
Half == (M - 1) \div 2
Fold(r) == LET r1 == IF r < 1 THEN r + M ELSE r IN IF r1 > M THEN r1 - M ELSE r1
Add(s, k) == Fold(s + k)
Sub(s, k) == Fold(s - k)
Diff(a, b) == LET r == a - b IN IF r > Half THEN r - M ELSE IF r < -Half THEN r + M ELSE r
NewerThan(a, b) == Diff(a, b) > 0
Lt(a, b) == a < a + Diff(b, a)
Gt(a, b) == a > a + Diff(b, a)
Wrap(x) == ((x - 1) % M) + 1
VARIABLES
  \* @type: Int;
  p,
  \* @type: Int;
  q,
  \* @type: Int;
  k
Init == /\ p \in 1..(3 * M) /\ q \in 1..(3 * M) /\ k \in 0..M
        /\ p - q <= Half /\ q - p <= Half
Next == UNCHANGED <<p, q, k>>
NeverZero == Wrap(p) >= 1 /\ Wrap(p) <= M /\ Add(Wrap(p), k) >= 1 /\ Add(Wrap(p), k) <= M /\ Sub(Wrap(p), k) >= 1 /\ Sub(Wrap(p), k) <= M
AddExact == Add(Wrap(p), k) = Wrap(p + k) /\ (p > k => Sub(Wrap(p), k) = Wrap(p - k))
DiffExact == Diff(Wrap(p), Wrap(q)) = p - q
OrderExact == NewerThan(Wrap(p), Wrap(q)) = (p > q) /\ Lt(Wrap(p), Wrap(q)) = (p < q) /\ Gt(Wrap(p), Wrap(q)) = (p > q)
All == NeverZero /\ AddExact /\ DiffExact /\ OrderExact
=============================================================================

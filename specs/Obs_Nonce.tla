------------------------------ MODULE Obs_Nonce ------------------------------
(* Grouped nonce table recorded at the crypto boundary of the real code       *)
(* (every call of crypto.encrypt_gcm, both directions, whole run).  Rows are  *)
(* groups of seals that share (key, direction, seq): each a sequence of       *)
(* <<sec_hi, sec_lo, ack>> in emission order.  TLC judges: within a group no   *)
(* two nonces are equal, and the seconds never decrease (the premise).         *)
EXTENDS Integers, Sequences, TLC, Json, IOUtils
Groups == JsonDeserialize(IOEnv.OBS_FILE)
VARIABLE i
Chunk == 500
Init == i \in 1..((Len(Groups) + Chunk - 1) \div Chunk)
Next == UNCHANGED i
RowRange == ((i - 1) * Chunk + 1)..(IF i * Chunk < Len(Groups) THEN i * Chunk ELSE Len(Groups))
Sec(x) == x[1] * 65536 + x[2]
Distinct(g) == \A a, b \in DOMAIN g : a < b => g[a] # g[b]
Monotone(g) == \A a \in DOMAIN g : a > 1 => (g[a - 1][1] < g[a][1] \/ (g[a - 1][1] = g[a][1] /\ g[a - 1][2] <= g[a][2]))
NoReuse == \A k \in RowRange : Distinct(Groups[k])
ClockPremise == \A k \in RowRange : Monotone(Groups[k])
Where == [i |-> i, bad |-> {<<k, Groups[k]>> : k \in {x \in RowRange : ~Distinct(Groups[x])}}]
=============================================================================

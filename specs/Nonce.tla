-------------------------------- MODULE Nonce --------------------------------
(***************************************************************************)
(* Why AES-GCM nonces never repeat within a session (C03).  The nonce of a  *)
(* datagram is its first 12 header bytes: direction magic, send time in     *)
(* whole seconds, datagram sequence number, ack number.  The argument is:   *)
(* every built datagram (keep-alives and retransmissions included) takes    *)
(* the next sequence number; _build_packet refuses to build twice within    *)
(* one send interval (the rate cap); the clock does not go back.  So the    *)
(* same sequence number comes round again only after M intervals, which is  *)
(* longer than a second - the (second, seq) pair is fresh.                  *)
(* Time is in ticks; TicksPerSecond and Interval are constants so that the  *)
(* CONTROL configuration (a ring that wraps within one second) must fail.   *)
(***************************************************************************)
EXTENDS Integers, FiniteSets, TLC
CONSTANTS M,               \* ring size (65535)
          Interval,        \* send interval in ticks (rate cap of _build_packet)
          TicksPerSecond,
          MaxTime

VARIABLES now, seq, lastSend, used
vars == <<now, seq, lastSend, used>>
Dirs == {"toserver", "toclient"}
Inc(s) == IF s = 0 THEN 1 ELSE (s % M) + 1

Init == now = 0 /\ seq = [d \in Dirs |-> 0] /\ lastSend = [d \in Dirs |-> -Interval] /\ used = {}
\* the clock advances (never backwards); idle periods are just several Advance steps
Advance == now < MaxTime /\ now' = now + 1 /\ UNCHANGED <<seq, lastSend, used>>
\* _build_packet of one side: only when the rate cap allows; every built packet - data, keep-alive, resend - takes the next seq
Emit(d) == /\ now - lastSend[d] >= Interval
           /\ seq' = [seq EXCEPT ![d] = Inc(@)]
           /\ lastSend' = [lastSend EXCEPT ![d] = now]
           /\ used' = used \cup {<<d, now \div TicksPerSecond, Inc(seq[d])>>}
           /\ UNCHANGED now
Next == Advance \/ \E d \in Dirs : Emit(d)
Spec == Init /\ [][Next]_vars

\* the nonce about to be used was never used before in this session
NoReuse == [][\A d \in Dirs : (seq'[d] # seq[d]) => <<d, now \div TicksPerSecond, seq'[d]>> \notin used]_vars
NeverZero == \A d \in Dirs : seq[d] \in 0..M /\ (used # {} => \A u \in used : u[3] \in 1..M)
=============================================================================

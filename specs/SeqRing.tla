------------------------------ MODULE SeqRing ------------------------------
(***************************************************************************)
(* The sequence-number ring of connection.py (class SeqNum).               *)
(* Values are 1..M; 0 is "uninitialised".  M = 2^16 - 1 in the code.       *)
(* Every operator is written the way the code computes it, so that the     *)
(* laws below are theorems about that computation and not restatements.    *)
(***************************************************************************)
EXTENDS Integers
CONSTANT M
ASSUME M \in Nat /\ M >= 3

Half == (M - 1) \div 2                      \* SeqNum._threshold

\* SeqNum.__add__ / __sub__ : ordinary arithmetic, then fold into 1..M
Fold(r) == LET r1 == IF r < 1 THEN r + M ELSE r IN IF r1 > M THEN r1 - M ELSE r1
Add(s, k) == Fold(s + k)
Sub(s, k) == Fold(s - k)
Inc(s) == Add(s, 1)

\* SeqNum.diff : signed distance, corrected when the two numbers wrapped
Diff(a, b) == LET r == a - b IN IF r > Half THEN r - M ELSE IF r < -Half THEN r + M ELSE r
NewerThan(a, b) == Diff(a, b) > 0
\* SeqNum.__lt__ / __gt__ : int(a) < int(a) + b.diff(a)
Lt(a, b) == a < a + Diff(b, a)
Gt(a, b) == a > a + Diff(b, a)

\* Mathematical reference: true positions are naturals >= 1
Wrap(p) == ((p - 1) % M) + 1
=============================================================================

------------------------------- MODULE Crypto -------------------------------
(* X11 (extension): the primitives of mpgameserver/crypto.py that the         *)
(* protocol properties C01-C03 take for granted, as a term algebra            *)
(* (Dolev-Yao style: a key pair is a name, a public key remembers the name,   *)
(* a shared secret is the unordered pair of the two private names, a derived  *)
(* key adds the salt, a signature remembers signer and message, a sealed box  *)
(* remembers key, nonce, associated data and plaintext).  TLC checks the      *)
(* algebraic laws the handshake relies on (Agreement, KeySeparation) and      *)
(* enumerates the operation space; the harness executes every operation on    *)
(* the real functions; TLC judges the outcomes (pass 2).  Cryptographic       *)
(* strength is assumed, not modelled: the check establishes that the code     *)
(* USES the primitives as the algebra says (both sides derive from the same   *)
(* inputs, the tag / signature is consulted for every input, serialised keys  *)
(* come back as the same keys).                                               *)
EXTENDS Integers, Sequences, FiniteSets, TLC, Json, IOUtils, SequencesExt
CONSTANTS Keys, Salts, Msgs, Lens
Pub(k) == [pub |-> k]
DH(a, P) == {a, P.pub}                              \* ECDH: symmetric in the two private halves
KDF(secret, salt) == [secret |-> secret, salt |-> salt]
KeyClient(a, P, salt) == KDF(DH(a, P), salt)        \* ecdh_client(private, peer public, salt)
KeyServer(b, P, salt) == KDF(DH(b, P), salt)        \* ecdh_server(private, peer public) with the salt it drew
Sig(k, m) == [by |-> k, msg |-> m]
Verifies(P, s, m) == s = Sig(P.pub, m)
\* laws
Agreement == \A a, b \in Keys, s \in Salts : KeyClient(a, Pub(b), s) = KeyServer(b, Pub(a), s)
KeySeparation == \A a, b, c, d \in Keys, s, t \in Salts : KeyClient(a, Pub(b), s) = KeyClient(c, Pub(d), t) => ({a, b} = {c, d} /\ s = t)
SigBinds == \A k, j \in Keys, m, n \in Msgs : Verifies(Pub(j), Sig(k, m), n) <=> (k = j /\ m = n)

SealTampers == {"none", "key", "iv", "aad", "ct-bit", "tag-bit", "first-bit", "truncate-1", "truncate-tag", "extend", "empty"}
SigTampers == {"none", "flip", "truncate", "empty", "other-msg-sig"}
KeyForms == {"priv-der", "priv-pem", "pub-der", "pub-pem", "pub-compress"}
Ops == {[op |-> "ecdh", a |-> a, b |-> b, pb |-> pb, pa |-> pa, same_salt |-> ss] : a \in Keys, b \in Keys, pb \in Keys, pa \in Keys, ss \in {0, 1}}
       \cup {[op |-> "sign", k |-> k, kv |-> kv, m |-> m, mv |-> mv, tamper |-> t] : k \in Keys, kv \in Keys, m \in Msgs, mv \in Msgs, t \in SigTampers}
       \cup {[op |-> "seal", len |-> n, tamper |-> t] : n \in Lens, t \in SealTampers}
       \cup {[op |-> "keyser", k |-> k, form |-> f] : k \in Keys, f \in KeyForms}
       \cup {[op |-> "asym", k |-> k, kd |-> kd] : k \in Keys, kd \in Keys}
\* client a uses the public key of pb (it should be b's), server b uses the public key of pa (it should be a's)
Expect(o) ==
  CASE o.op = "ecdh" -> IF KeyClient(o.a, Pub(o.pb), "s") = KeyServer(o.b, Pub(o.pa), IF o.same_salt = 1 THEN "s" ELSE "t") THEN "equal" ELSE "differ"
    [] o.op = "sign" -> IF o.tamper = "none" /\ Verifies(Pub(o.kv), Sig(o.k, o.m), o.mv) THEN "ok" ELSE "reject"
    [] o.op = "seal" -> IF o.tamper = "none" THEN "same" ELSE IF o.tamper = "empty" /\ FALSE THEN "same" ELSE "reject"
    [] o.op = "keyser" -> "same"
    [] o.op = "asym" -> IF o.k = o.kd THEN "equal" ELSE "differ"
VARIABLE i
GenInit == i = 0 /\ JsonSerialize(IOEnv.OUT_FILE, [ops |-> SetToSeq(Ops)])
ONext == UNCHANGED i
Inp == JsonDeserialize(IOEnv.OUT_FILE)
Obs == JsonDeserialize(IOEnv.OBS_FILE)
ObsInit == i \in 1..Len(Obs)
RowOK == Obs[i].out = Expect(Inp.ops[i])
Complete == i = 1 => (ToSet(Inp.ops) = Ops /\ Len(Obs) = Len(Inp.ops))
Laws == Agreement /\ KeySeparation /\ SigBinds
Where == [i |-> i, op |-> Inp.ops[i], observed |-> Obs[i].out, expected |-> Expect(Inp.ops[i])]
=============================================================================

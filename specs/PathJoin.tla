------------------------------ MODULE PathJoin ------------------------------
(***************************************************************************)
(* path_join_safe(root, name) of http_server.py: the contract is only      *)
(* "raises ValueError, or returns a normalised path that is the root or    *)
(* lies beneath it".  Names are built from an adversarial segment alphabet, *)
(* both separators and absolute-looking prefixes.                           *)
(*   name = [pre, segs, sep]: pre \o segs[1] \o sep \o segs[2] ...          *)
(*   sep = "/" , "\\" or "mix" (alternating, starting with "/")              *)
(***************************************************************************)
EXTENDS Integers, Sequences, FiniteSets, SequencesExt, TLC
CONSTANTS SegAlpha, MaxSegs, AbsPrefixes, Seps, LongAlpha, LongMax

SeqsUpTo(S, n) == UNION {[1..m -> S] : m \in 0..n}
Names == {[pre |-> p, segs |-> s, sep |-> q] : p \in AbsPrefixes, s \in SeqsUpTo(SegAlpha, MaxSegs), q \in Seps}
         \cup {[pre |-> p, segs |-> s, sep |-> "/"] : p \in AbsPrefixes, s \in SeqsUpTo(LongAlpha, LongMax) \ SeqsUpTo(LongAlpha, MaxSegs)}

\* result components (root already normalised by the harness): at or beneath the root, no ".." left
Contained(root, res) == /\ Len(res) >= Len(root)
                        /\ SubSeq(res, 1, Len(root)) = root
                        /\ \A k \in DOMAIN res : res[k] # ".."
\* outcome: 0 = raised ValueError, -1 = raised something else, otherwise the component sequence of the returned path
Safe(root, outcome, comps) == outcome = 0 \/ (outcome = 1 /\ Contained(root, comps))

\* coverage accounting only (never an oracle): names that could escape a naive join
Risky(n) == n.pre # "" \/ (\E k \in DOMAIN n.segs : n.segs[k] = "..") \/ (n.segs # <<>> /\ n.segs[1] = "")
=============================================================================

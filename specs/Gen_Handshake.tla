--------------------------- MODULE Gen_Handshake ---------------------------
(* Handshake with every explored transition printed (one line each), for the *)
(* spec -> code replay with real P-256 / ECDSA / HKDF / AES-GCM.  `last` is    *)
(* hidden by the VIEW; the action constraint prints <<state, label, state'>>.  *)
EXTENDS Handshake
Obs(c, tm, cn, co) == [cli |-> c, temps |-> tm, conns |-> cn, connected |-> co]
Emit == PrintT("TR " \o ToString(<<Obs(cli, temps, conns, connected), used, last', Obs(cli', temps', conns', connected')>>))
=============================================================================

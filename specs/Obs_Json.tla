------------------------------- MODULE Obs_Json -------------------------------
(***************************************************************************)
(* Typed JSON round trip of Serializable objects (C15): for a fixture class *)
(* with one field per documented annotated shape, fromJson(toJson(x)) and    *)
(* loads(dumps(x)) reproduce x field for field - sets stay sets, tuples      *)
(* tuples, integer and enum dictionary keys keep their type - and toJson     *)
(* yields plain data that json.dumps accepts.  Values are Codec terms; TLC   *)
(* enumerates every single-field choice and every pair of choices.            *)
(***************************************************************************)
EXTENDS Codec, Json, IOUtils, SequencesExt
CONSTANT Pairs       \* TRUE: also every pair of field choices
I(v) == Atom("int", v)
Sx(v) == Atom("str", v)
En(v) == Atom("enum", v)
Inner(a, b) == Node("obj", "Inner", <<I(a), Sx(b)>>)
KVt(k, v) == Node("kv", "", <<k, v>>)
NoneT == Atom("none", "")
FieldChoices ==
  [ i  |-> {I("0"), I("-1"), I("9223372036854775807"), I("-2147483649")},
    f  |-> {Atom("float", "0.0"), Atom("float", "1.5"), Atom("float", "0.1"), Atom("float", "-0.0")},
    b  |-> {Atom("bool", "T"), Atom("bool", "F")},
    s  |-> {Sx(""), Sx("a"), Sx("multibyte"), Sx("L300"), Sx("json_special"), Sx("bom")},       \* json_special: quotes, backslashes, slashes, braces, a comment look-alike
    e  |-> {En("Color.RED"), En("Color.BLUE")},
    z  |-> {En("Facing.NORTH"), En("Facing.SOUTH")},                              \* an enum whose first member has the value 0
    o  |-> {En("Opp.NORTH"), En("Opp.SOUTH")},                                     \* a string-valued enum whose member names are each other's values
    lo |-> {Node("list", "", <<En("Opp.NORTH"), En("Opp.SOUTH"), En("Opp.NORTH")>>)},
    do |-> {Node("dict", "", <<KVt(En("Opp.NORTH"), I("1")), KVt(En("Opp.SOUTH"), I("2"))>>)},
    lz |-> {Node("list", "", <<En("Facing.NORTH"), En("Facing.SOUTH")>>)},
    dz |-> {Node("dict", "", <<KVt(En("Facing.NORTH"), I("0")), KVt(En("Facing.SOUTH"), I("1"))>>)},
    n  |-> {Inner("1", "a"), Inner("-1", "multibyte")},
    li |-> {Node("list", "", <<>>), Node("list", "", <<I("1"), I("-2147483649")>>), Node("list", "", <<I("9007199254740993"), I("18446744073709551615")>>), NoneT},
    ls |-> {Node("list", "", <<Sx("multibyte"), Sx("")>>), Node("list", "", <<Sx("json_special"), Sx("a")>>), NoneT},
    le |-> {Node("list", "", <<En("Color.BLUE"), En("Color.RED")>>), Node("list", "", <<>>)},
    ln |-> {Node("list", "", <<Inner("1", "a"), Inner("0", "")>>), Node("list", "", <<>>)},
    si |-> {Node("set", "", <<>>), Node("set", "", <<I("1"), I("-1")>>), Node("set", "", <<I("9007199254740992"), I("9007199254740993")>>), NoneT},
    ss |-> {Node("set", "", <<Sx("a"), Sx("multibyte")>>)},
    se |-> {Node("set", "", <<En("Color.RED")>>), Node("set", "", <<>>)},
    sn |-> {Node("set", "", <<Inner("1", "a"), Inner("0", ""), Inner("-1", "multibyte")>>), Node("set", "", <<Inner("1", "a")>>), Node("set", "", <<>>)},   \* objects have no order among themselves
    di |-> {Node("dict", "", <<>>), Node("dict", "", <<KVt(I("1"), Sx("a")), KVt(I("-1"), Sx(""))>>), NoneT,
            \* keys a double cannot hold (2^53 + 1, 2^63 - 1, below -2^53): JSON object keys travel as strings and must come back as the same ints
            Node("dict", "", <<KVt(I("9007199254740992"), Sx("a")), KVt(I("9007199254740993"), Sx("multibyte")), KVt(I("9223372036854775807"), Sx("")), KVt(I("-9007199254740993"), Sx("a"))>>)},
    ds |-> {Node("dict", "", <<KVt(Sx("a"), I("1")), KVt(Sx("multibyte"), I("9223372036854775807"))>>)},
    de |-> {Node("dict", "", <<KVt(En("Color.RED"), I("1")), KVt(En("Color.BLUE"), I("0"))>>), Node("dict", "", <<>>)},
    dn |-> {Node("dict", "", <<KVt(Sx("a"), Inner("1", "a"))>>)},
    t  |-> {Node("tuple", "", <<I("1"), Sx("a")>>), Node("tuple", "", <<I("-1"), Sx("multibyte")>>), NoneT},
    te |-> {Node("tuple", "", <<En("Color.BLUE"), Inner("1", "a")>>)} ]
Fields == DOMAIN FieldChoices
Single == {<<[f |-> fd, v |-> val]>> : fd \in Fields, val \in UNION {FieldChoices[x] : x \in Fields}} 
Ok1 == {d \in Single : d[1].v \in FieldChoices[d[1].f]}
Ok2 == {<<a[1], b[1]>> : a \in Ok1, b \in Ok1}
Docs == Ok1 \cup (IF Pairs THEN {d \in Ok2 : d[1].f # d[2].f} ELSE {})

VARIABLE i
GenInit == i = 0 /\ JsonSerialize(IOEnv.OUT_FILE, [docs |-> SetToSeq(Docs)])
JNext == UNCHANGED i
Inp == JsonDeserialize(IOEnv.OUT_FILE)
Obs == JsonDeserialize(IOEnv.OBS_FILE)
\* Obs[k] = [ok (1: no call raised, json.dumps accepted toJson), orig, viaJson, viaString]  - each a sequence of <<field, term>> for the overridden fields
Chunk == 200
ObsInit == i \in 1..((Len(Obs) + Chunk - 1) \div Chunk)
RowRange == ((i - 1) * Chunk + 1)..(IF i * Chunk < Len(Obs) THEN i * Chunk ELSE Len(Obs))
RowOK(d, o) == /\ o.ok = 1
               /\ Len(o.viaJson) = Len(d) /\ Len(o.viaString) = Len(d)
               /\ \A k \in DOMAIN d : /\ EqT(o.viaJson[k], d[k].v)           \* fromJson(toJson(x)) field for field
                                      /\ EqT(o.viaString[k], d[k].v)         \* loads(dumps(x))
               /\ o.rest = 1                                                  \* the fields that were not overridden keep their defaults
AllOK == \A k \in RowRange : RowOK(Inp.docs[k], Obs[k])
Complete == i = 1 => (ToSet(Inp.docs) = Docs /\ Len(Obs) = Len(Inp.docs))
Where == [i |-> i, bad |-> {<<k, Inp.docs[k], Obs[k]>> : k \in {x \in RowRange : ~RowOK(Inp.docs[x], Obs[x])}}]
=============================================================================

------------------------------ MODULE WsStream ------------------------------
(***************************************************************************)
(* A client writes masked frames back to back on a TCP stream; TCP hands    *)
(* the server arbitrary chunks; the handler of http_server.py               *)
(* (WebSocketTemporaryHandler.__call__) buffers them and delivers frames to *)
(* the endpoint.  Bytes are abstracted to positions: frame k occupies       *)
(* Start(k)+1 .. End(k) of the stream.                                       *)
(***************************************************************************)
EXTENDS WsFrame, FiniteSets, TLC
CONSTANTS FrameLens,   \* payload lengths a frame may have
          MaxFrames, MaxCuts

VARIABLES frames,      \* the payload lengths of the frames the client wrote (chosen initially)
          pos,         \* bytes handed to the handler so far
          delivered,   \* number of frames delivered to the endpoint
          ncuts
vars == <<frames, pos, delivered, ncuts>>

FrameSize(n) == HeaderLen(1, n) + n
RECURSIVE End(_, _)
End(f, k) == IF k = 0 THEN 0 ELSE End(f, k - 1) + FrameSize(f[k])
Total(f) == End(f, Len(f))
\* complete frames contained in the first p bytes
Complete(f, p) == Cardinality({k \in 1..Len(f) : End(f, k) <= p})

Init == /\ frames \in UNION {[1..m -> FrameLens] : m \in 1..MaxFrames}
        /\ pos = 0 /\ delivered = 0 /\ ncuts = 0

\* TCP hands over the next k bytes; the handler parses every complete frame now available
TcpRead(k) ==
  /\ k \in 1..(Total(frames) - pos)
  /\ (pos + k < Total(frames)) => ncuts < MaxCuts          \* the last read always drains the stream
  /\ pos' = pos + k
  /\ ncuts' = IF pos + k < Total(frames) THEN ncuts + 1 ELSE ncuts
  /\ delivered' = Complete(frames, pos + k)
  /\ UNCHANGED frames
Next == \E k \in 1..Total(frames) : TcpRead(k)
Spec == Init /\ [][Next]_vars

\* ---- C18 -------------------------------------------------------------------
\* each frame is delivered exactly once, in order: the delivered frames are always a prefix ...
PrefixOnly == delivered \in 0..Len(frames) /\ End(frames, delivered) <= pos
\* ... nothing complete is held back ...
NoLag == delivered = Complete(frames, pos)
\* ... and all of them once the stream is drained
AllWhenDrained == pos = Total(frames) => delivered = Len(frames)
Monotone == [][delivered' >= delivered]_vars
=============================================================================

--------------------------- MODULE RateLimitProps ---------------------------
(* RateLimit with a ghost history of the insert times of each key, to state *)
(* what a rate limiter is for.  Checked for the code as it is and for the    *)
(* evident intention (see RateLimit.tla); harness/props/x02.py records which *)
(* variant satisfies which property.                                         *)
EXTENDS RateLimit
VARIABLE hist
HInit == Init /\ hist = [k \in Keys |-> <<>>]
HNext == \/ (Tick /\ UNCHANGED hist)
         \/ \E k \in Keys : nins < MaxInserts /\ Insert(k) /\ hist' = [hist EXCEPT ![k] = Append(@, now)]
HSpec == HInit /\ [][HNext]_<<vars, hist>>
InBin(k) == Cardinality({i \in DOMAIN hist[k] : hist[k][i] \div BinMs = now \div BinMs})
InWindow(k, w) == Cardinality({i \in DOMAIN hist[k] : hist[k][i] > now - w})
\* a burst is refused: more than Limit requests of one key inside one bin make the last one "over the limit"
BurstRefused == \A k \in Keys : (last.op = "insert" /\ last.k = k /\ InBin(k) > Limit) => last.over
\* the count never exceeds the number of requests the key really made
CountHonest == \A k \in Keys : (last.op = "insert" /\ last.k = k) => last.count <= Len(hist[k])
\* fairness to slow clients: a key that made at most Limit requests during the last interval plus one bin ((Bins + 1) * BinMs, the granularity of the counter) is not refused
SlowClientsPass == \A k \in Keys : (last.op = "insert" /\ last.k = k /\ last.over) => InWindow(k, (Bins + 1) * BinMs) > Limit
=============================================================================

-------------------------------- MODULE Wire --------------------------------
(***************************************************************************)
(* The datagram codec of connection.py (PacketHeader.to_bytes/from_bytes,   *)
(* Packet.create/to_bytes/from_bytes) as an abstract contract: an abstract  *)
(* packet is a header and a message list; encode-then-decode is the         *)
(* identity, and the length/count fields describe the payload exactly.      *)
(* 32-bit fields cross the bridge as limbs / bit sets.  The byte layout     *)
(* itself is not constrained (a compatible change is not an alarm).          *)
(*   packet = [srv, ctime <<hi16, lo16>>, type 0..7, seq, ack, bits (set of *)
(*             1..32), msgs <<[seq, type, len]>>, keyed (encoded with a key)]*)
(***************************************************************************)
EXTENDS Integers, Sequences, FiniteSets, SequencesExt, TLC

Overhead(n) == IF n = 0 THEN 0 ELSE IF n = 1 THEN 2 ELSE 5 * n
SumLen(ms) == FoldLeft(LAMBDA acc, x : acc + x.len, 0, ms)
\* form chosen by Packet.to_bytes: AES-GCM when a key is given, except the signed SERVER_HELLO (type 2)
Sealed(p) == p.keyed /\ p.type # 2
WireSize(p) == 20 + SumLen(p.msgs) + Overhead(Len(p.msgs)) + (IF Sealed(p) THEN 16 ELSE 4)
\* in the single-message form the message type is the header's type
WellFormed(p) == Len(p.msgs) = 1 => p.msgs[1].type = p.type

\* observation o of encode/decode on the real code: [ok, hdr fields..., msgs, length, count, size]
RoundTrip(p, o) ==
  /\ o.ok = 1
  /\ o.srv = p.srv /\ o.ctime = p.ctime /\ o.type = p.type /\ o.seq = p.seq /\ o.ack = p.ack /\ o.bits = p.bits
  /\ o.msgs = p.msgs                                   \* same messages: seq, type, length (payload bytes compared by the harness: o.bytes_ok)
  /\ o.bytes_ok = 1
  /\ o.count = Len(p.msgs)                             \* count field = number of messages
  /\ o.length = SumLen(p.msgs) + Overhead(Len(p.msgs)) \* length field = payload area, excluding CRC / tag
  /\ o.size = WireSize(p)
=============================================================================

----------------------------- MODULE Obs_Router -----------------------------
(* Pass 1 (GenInit): TLC enumerates the bounded input space of C16 and      *)
(* writes it out.  Pass 2 (ObsInit): the harness has asked the real Router  *)
(* about every (pattern, path) pair and every (route table, request) pair;  *)
(* TLC judges every observation with Router!Matches / FirstMatch and checks *)
(* that the table covers exactly the space it enumerated.                   *)
EXTENDS Router, Json, IOUtils
CONSTANTS Lits, Alpha, MaxPat, MaxPath, TableMethods, ReqMethods, MaxRoutes

PSegs == {[k |-> "lit", v |-> x] : x \in Lits} \cup {[k |-> kk, v |-> "p"] : kk \in {"one", "opt", "plus", "star"}}
Patterns == {p \in SeqsUpTo(PSegs, MaxPat) : FinalOnly(p)}
Paths == SeqsUpTo(Alpha, MaxPath) \ {<<>>}
\* route-table machine: an overlapping set of patterns, every ordered table of up to MaxRoutes routes
TablePats == { <<[k |-> "lit", v |-> "a"]>>, <<[k |-> "one", v |-> "p"]>>,
               <<[k |-> "lit", v |-> "a"], [k |-> "star", v |-> "p"]>>, <<[k |-> "plus", v |-> "p"]>> }
RouteChoices == {[method |-> m, pat |-> p] : m \in TableMethods, p \in TablePats}
Tables == {t \in SeqsUpTo(RouteChoices, MaxRoutes) : t # <<>>}
\* (a percent-encoded slash is part of ONE segment: the documented grammar speaks about the request path as it is, and dispatch must route on that)
ReqPaths == { <<"a">>, <<"b">>, <<"a", "">>, <<"a", "b">>, <<"a", "b", "a">>, <<"">>, <<"ab">>, <<"a%2Fb">>, <<"a", "b%2F">>, <<"a%2F">> }
Requests == {[method |-> m, path |-> s] : m \in ReqMethods, s \in ReqPaths}

VARIABLE i
GenInit == /\ i = 0
           /\ JsonSerialize(IOEnv.OUT_FILE, [patterns |-> SetToSeq(Patterns), paths |-> SetToSeq(Paths),
                                             tables |-> SetToSeq(Tables), requests |-> SetToSeq(Requests)])
Next == UNCHANGED i

\* Compact observation tables (the JSON bridge is the bottleneck, so rows are aligned with the input
\* file instead of repeating it):
\*   Obs.hit[pi][pj] \in {0,1}   Obs.b[pi][pj] = bindings when hit (else <<>>)      for Inp.patterns[pi] x Inp.paths[pj]
\*   Obs.got[ti][ri] = index of the route that answered, 0 = 404                     for Inp.tables[ti] x Inp.requests[ri]
Inp == JsonDeserialize(IOEnv.OUT_FILE)
Obs == JsonDeserialize(IOEnv.OBS_FILE)
NM == Len(Inp.patterns)
ObsInit == i \in 1..(NM + Len(Inp.tables))

Agree(e, hit, b) == \/ e.ok = "unspec"
                    \/ e.ok = "no" /\ hit = 0
                    \/ e.ok = "yes" /\ hit = 1 /\ b = e.b
MatchRowOK(pi) ==
  \A pj \in DOMAIN Inp.paths : Agree(Matches(Inp.patterns[pi], Inp.paths[pj]), Obs.hit[pi][pj], Obs.b[pi][pj])
TableRowOK(ti) ==
  \A ri \in DOMAIN Inp.requests :
     LET e == FirstMatch(Inp.tables[ti], 1, Inp.requests[ri].method, Inp.requests[ri].path) IN
     e = -1 \/ Obs.got[ti][ri] = e
RowOK == IF i <= NM THEN MatchRowOK(i) ELSE TableRowOK(i - NM)
\* the observation table covers exactly the space this specification enumerates
Complete == /\ ToSet(Inp.patterns) = Patterns /\ ToSet(Inp.paths) = Paths
            /\ ToSet(Inp.tables) = Tables /\ ToSet(Inp.requests) = Requests
            /\ Len(Obs.hit) = NM /\ Len(Obs.b) = NM /\ Len(Obs.got) = Len(Inp.tables)
            /\ \A x \in 1..NM : Len(Obs.hit[x]) = Len(Inp.paths) /\ Len(Obs.b[x]) = Len(Inp.paths)
            /\ \A x \in DOMAIN Obs.got : Len(Obs.got[x]) = Len(Inp.requests)
CompleteOnce == i = 1 => Complete
\* ALIAS: a rejection names the disagreeing rows
Where == [i |-> i,
          bad |-> IF i <= NM
                  THEN {[path |-> Inp.paths[pj], expected |-> Matches(Inp.patterns[i], Inp.paths[pj]), hit |-> Obs.hit[i][pj], b |-> Obs.b[i][pj]] :
                          pj \in {x \in DOMAIN Inp.paths : ~Agree(Matches(Inp.patterns[i], Inp.paths[x]), Obs.hit[i][x], Obs.b[i][x])}}
                  ELSE LET ti == i - NM IN
                       {[req |-> Inp.requests[ri], expected |-> FirstMatch(Inp.tables[ti], 1, Inp.requests[ri].method, Inp.requests[ri].path), got |-> Obs.got[ti][ri]] :
                          ri \in {x \in DOMAIN Inp.requests :
                                   LET e == FirstMatch(Inp.tables[ti], 1, Inp.requests[x].method, Inp.requests[x].path) IN ~(e = -1 \/ Obs.got[ti][x] = e)}}]
=============================================================================

---------------------------- MODULE Obs_Packing ----------------------------
(* Observation table measured on the real code, one row per (mtu, len):     *)
(*  [mtu, len, maxpayload, maxfrag, maxsize, lens (message payload sizes     *)
(*   queued by send), cli (delivered intact through UdpClient.send_guaranteed*)
(*   -> server), srv (through ServerClientConnection.send_guaranteed ->       *)
(*   client), maxdg (largest datagram seen), left (messages left queued)]     *)
(* TLC judges the rows against Packing: the limits the code derives are the  *)
(* specification's, the split obeys the envelope, both APIs deliver.          *)
EXTENDS Packing, Json, IOUtils
Obs == JsonDeserialize(IOEnv.OBS_FILE)
Rows == Obs.rows
\* Obs.limits: <<mtu, maxpayload, maxfrag, maxsize, recvsize>> measured after HISTORIES of Packet.setMTU calls that end in mtu
\* (the configured MTU must govern, whatever was configured before)
LimitsOK == \A k \in DOMAIN Obs.limits : LET x == Obs.limits[k] IN
               x[2] = MaxPayload(x[1]) /\ x[3] = MaxFrag(x[1]) /\ x[4] = MaxSize(x[1]) /\ x[5] = x[1] + 512
ASSUME Len(Rows) > 0
VARIABLE i
Chunk == 200
OInit == mtu = 0 /\ len = 0 /\ i \in 1..((Len(Rows) + Chunk - 1) \div Chunk)
ONext == UNCHANGED <<mtu, len, i>>
RowOK(r) ==
  /\ r.maxpayload = MaxPayload(r.mtu) /\ r.maxfrag = MaxFrag(r.mtu) /\ r.maxsize = MaxSize(r.mtu)      \* the model's limits are the code's
  /\ IF r.len <= MaxPayload(r.mtu) THEN r.lens = <<r.len>>                                           \* C06 not fragmented
     ELSE /\ Sum(r.lens) = r.len + 6 * Len(r.lens)                                                    \* C06 slices add up
          /\ Len(r.lens) >= 2
  /\ \A k \in DOMAIN r.lens : FitsAlone(r.lens[k], r.mtu)                                             \* C05/C09 nothing can get stuck
  /\ r.cli = 1 /\ r.srv = 1                                                                          \* C05 delivered through both APIs, byte-identical
  /\ r.maxdg <= MaxSize(r.mtu)                                                                       \* C09 datagram size
  /\ r.left = 0
Range == ((i - 1) * Chunk + 1)..(IF i * Chunk < Len(Rows) THEN i * Chunk ELSE Len(Rows))
AllOK == (\A k \in Range : RowOK(Rows[k])) /\ (i = 1 => LimitsOK)
Where == [i |-> i, bad |-> {Rows[k] : k \in {x \in Range : ~RowOK(Rows[x])}},
          badlimits |-> IF i = 1 THEN {Obs.limits[k] : k \in {x \in DOMAIN Obs.limits : LET y == Obs.limits[x] IN
                                          ~(y[2] = MaxPayload(y[1]) /\ y[3] = MaxFrag(y[1]) /\ y[4] = MaxSize(y[1]) /\ y[5] = y[1] + 512)}} ELSE {}]
=============================================================================

------------------------------ MODULE Dispatch ------------------------------
(***************************************************************************)
(* The message dispatcher of dispatch.py (MessageDispatcher and its server *)
(* and client subclasses): a table from message class to the one handler   *)
(* registered for it.  Resources own handlers for several classes; two     *)
(* resources may want the same class.                                       *)
(***************************************************************************)
EXTENDS Integers, Sequences, FiniteSets, TLC
CONSTANTS Res,        \* resources
          Classes,    \* message classes some resource handles
          Unknown,    \* a message class nobody handles
          Handles,    \* Res -> SUBSET Classes
          MaxOps
None == "none"

VARIABLES reg,        \* Classes -> Res \cup {None}   (registered_events, keyed by class name)
          last,       \* [op, arg, res, called]  the latest operation and what it did
          nops
vars == <<reg, last, nops>>

Init == reg = [c \in Classes |-> None] /\ last = [op |-> "init", arg |-> None, res |-> "ok", called |-> None] /\ nops = 0

Free(r) == {c \in Handles[r] : reg[c] = None}
Count == nops < MaxOps /\ nops' = nops + 1

\* register(resource): all of its handlers, or refused if one of its classes is taken (the earlier
\* handler stays).  What a refused call leaves behind for the resource's other classes is not
\* specified: any subset of its free classes may have been added.
RegisterOk(r) ==
  /\ Count
  /\ Free(r) = Handles[r]
  /\ reg' = [c \in Classes |-> IF c \in Handles[r] THEN r ELSE reg[c]]
  /\ last' = [op |-> "register", arg |-> r, res |-> "ok", called |-> None]
RegisterRefused(r) ==
  /\ Count
  /\ Free(r) # Handles[r]
  /\ \E S \in SUBSET Free(r) : reg' = [c \in Classes |-> IF c \in S THEN r ELSE reg[c]]
  /\ last' = [op |-> "register", arg |-> r, res |-> "refused", called |-> None]
\* unregister(resource): exactly that resource's handlers go
Unregister(r) ==
  /\ Count
  /\ reg' = [c \in Classes |-> IF reg[c] = r THEN None ELSE reg[c]]
  /\ last' = [op |-> "unregister", arg |-> r, res |-> "ok", called |-> None]
\* dispatch(msg): the one handler of msg's class, or DispatchError and nothing called
Dispatch(c) ==
  /\ Count
  /\ UNCHANGED reg
  /\ last' = IF c \in Classes /\ reg[c] # None
             THEN [op |-> "dispatch", arg |-> c, res |-> "ok", called |-> reg[c]]
             ELSE [op |-> "dispatch", arg |-> c, res |-> "DispatchError", called |-> None]

Next == \/ \E r \in Res : RegisterOk(r) \/ RegisterRefused(r) \/ Unregister(r)
        \/ \E c \in Classes \cup {Unknown} : Dispatch(c)
Spec == Init /\ [][Next]_vars

\* ---- C20 -----------------------------------------------------------------
TypeOK == reg \in [Classes -> Res \cup {None}]
\* a handler is only ever installed for a class its resource handles
OwnClassesOnly == \A c \in Classes : reg[c] # None => c \in Handles[reg[c]]
\* dispatch invokes exactly the registered handler, or raises and calls nothing
DispatchExact == last.op = "dispatch" =>
                   IF last.arg \in Classes /\ reg[last.arg] # None
                   THEN last.res = "ok" /\ last.called = reg[last.arg]
                   ELSE last.res = "DispatchError" /\ last.called = None
\* a second handler for a class is refused and the earlier one stays
SecondRefused == [][\A r \in Res : (last'.op = "register" /\ last'.arg = r /\ Free(r) # Handles[r])
                        => (last'.res = "refused" /\ \A c \in Classes : reg[c] # None => reg'[c] = reg[c])]_vars
\* register / unregister are inverses
UnregisterRemoves == [][last'.op = "unregister" => \A c \in Classes : reg'[c] # last'.arg]_vars
CanRegisterAgain == \A r \in Res : (\A c \in Handles[r] : reg[c] = None \/ reg[c] = r) =>
                      LET after == [c \in Classes |-> IF reg[c] = r THEN None ELSE reg[c]] IN
                      \A c \in Handles[r] : after[c] = None      \* so RegisterOk(r) is enabled right after Unregister(r)
=============================================================================

------------------------------ MODULE Obs_Codec ------------------------------
(* Pass 1: TLC enumerates the value grammar (atoms at every boundary,          *)
(* containers of them, containers of containers from a representative set,     *)
(* fixture objects and enum members, out-of-domain values) and sequences for   *)
(* the channel property.  Pass 2: TLC judges what the real serializer did.      *)
EXTENDS Codec, Json, IOUtils, SequencesExt
CONSTANTS Deep       \* TRUE: also containers of containers
Ints == {Atom("int", v) : v \in InInts \cup OutInts}
Floats == {Atom("float", v) : v \in InFloats \cup OutFloats}
Strs == {Atom("str", v) : v \in InStrs \cup OutStrs}
Bytes == {Atom("bytes", v) : v \in InBytes \cup OutBytes}
Misc == {Atom("bool", "T"), Atom("bool", "F"), Atom("none", ""), Atom("bad", "complex"), Atom("bad", "object"), Atom("enum", "Color.RED"), Atom("enum", "Shape.CIRCLE"), Atom("enum", "Facing.NORTH")}
Atoms == Ints \cup Floats \cup Strs \cup Bytes \cup Misc
Reps == {Atom("int", "128"), Atom("int", "-2147483649"), Atom("float", "0.1"), Atom("str", "multibyte"), Atom("bytes", "00ff"), Atom("none", ""), Atom("bool", "T"),
         Atom("enum", "Color.RED"), Atom("int", "9223372036854775808")}
HReps == {Atom("int", "128"), Atom("int", "-1"), Atom("str", "a"), Atom("str", "multibyte"), Atom("bytes", "00ff"), Atom("bool", "F"), Atom("none", ""), Atom("float", "1.5"), Atom("enum", "Color.RED")}
SeqsUpTo(S, n) == UNION {[1..m -> S] : m \in 0..n}
Lists1 == {Node(t, "", e) : t \in {"list", "tuple"}, e \in SeqsUpTo(Atoms, 1)} \cup {Node(t, "", e) : t \in {"list", "tuple"}, e \in [1..2 -> Reps]}
Sets1 == {Node("set", "", e) : e \in {s \in SeqsUpTo(HReps, 2) : Len(s) < 2 \/ s[1] # s[2]}}
KV == {Node("kv", "", <<k, v>>) : k \in HReps, v \in Reps}
Dicts1 == {Node("dict", "", e) : e \in {s \in SeqsUpTo(KV, 2) : Len(s) < 2 \/ s[1].e[1] # s[2].e[1]}}
Objs1 == {Node("obj", "Point", <<x, y>>) : x \in Reps, y \in {Atom("str", "a"), Atom("none", ""), Node("list", "", <<Atom("int", "1")>>)}}
         \cup {Node("obj", "Empty", <<>>)}
         \* a subclass that adds a field to a Serializable base class: all three fields belong to the value
         \cup {Node("obj", "Player", <<x, y, z>>) : x \in {Atom("int", "128"), Atom("none", "")}, y \in {Atom("str", "a"), Atom("str", "multibyte")}, z \in {Atom("int", "-1"), Atom("float", "0.1")}}
         \* a class with a read-only computed attribute next to its two fields
         \cup {Node("obj", "Gauge", <<x, y>>) : x \in {Atom("int", "-1"), Atom("none", "")}, y \in {Atom("int", "128"), Atom("str", "a")}}
         \* fields annotated as containers: None, the empty container and a filled one are three different values, in every position
         \cup {Node("obj", "Bag", <<x, y>>) : x \in {Atom("none", ""), Node("list", "", <<>>), Node("list", "", <<Atom("int", "1")>>)},
                                              y \in {Atom("none", ""), Node("dict", "", <<>>), Node("dict", "", <<Node("kv", "", <<Atom("str", "a"), Atom("int", "1")>>)>>)}}
Over == {Node(t, "overlong", <<>>) : t \in {"list", "set", "dict"}}
Depth1 == Lists1 \cup Sets1 \cup Dicts1 \cup Objs1 \cup Over
CReps == {Node("list", "", <<>>), Node("tuple", "", <<Atom("int", "1"), Atom("str", "a")>>), Node("set", "", <<Atom("int", "128")>>), Node("dict", "", <<Node("kv", "", <<Atom("str", "a"), Atom("float", "0.1")>>)>>),
          Node("obj", "Point", <<Atom("int", "1"), Atom("str", "a")>>), Node("list", "", <<Atom("bad", "object")>>), Node("tuple", "", <<>>)}
Depth2 == {Node(t, "", e) : t \in {"list", "tuple"}, e \in SeqsUpTo(CReps, 2)}
          \cup {Node("set", "", <<c>>) : c \in {x \in CReps : x.t = "tuple"}}                          \* a tuple is hashable: a set may hold it
          \cup {Node("dict", "", <<Node("kv", "", <<k, c>>)>>) : k \in {Atom("str", "a"), Atom("int", "1"), Node("tuple", "", <<Atom("int", "1"), Atom("str", "a")>>)}, c \in CReps}
          \cup {Node("obj", "Point", <<c, d>>) : c \in CReps, d \in CReps}
Values == Atoms \cup Depth1 \cup (IF Deep THEN Depth2 ELSE {})
\* channel sequences: several values written one after another, then read back
ChanReps == {Atom("int", "0"), Atom("int", "-32769"), Atom("str", ""), Atom("str", "multibyte"), Atom("bytes", "L300"), Atom("none", ""), Atom("float", "nan"),
             Node("list", "", <<Atom("int", "1")>>), Node("dict", "", <<>>), Node("obj", "Point", <<Atom("int", "1"), Atom("str", "a")>>), Atom("enum", "Shape.CIRCLE"),
             Node("obj", "Bag", <<Atom("none", ""), Atom("none", "")>>)}
Chans == {s \in SeqsUpTo(ChanReps, 3) : Len(s) >= 2}

VARIABLE i
GenInit == i = 0 /\ JsonSerialize(IOEnv.OUT_FILE, [values |-> SetToSeq(Values), chans |-> SetToSeq(Chans)])
CNext == UNCHANGED i
Inp == JsonDeserialize(IOEnv.OUT_FILE)
Obs == JsonDeserialize(IOEnv.OBS_FILE)
\* Obs.values[k] = observation for Inp.values[k];  Obs.chans[k] = [kinds, backs (sequence of terms), aligned (0/1: stream positions line up and the stream is fully consumed)]
NV == Len(Inp.values)
Chunk == 300
NC1 == (NV + Chunk - 1) \div Chunk
ObsInit == i \in 1..(NC1 + 1)
RowRange == ((i - 1) * Chunk + 1)..(IF i * Chunk < NV THEN i * Chunk ELSE NV)
ChanOK(s, o) == /\ o.aligned = 1 /\ Len(o.backs) = Len(s)
                /\ \A k \in DOMAIN s : EqT(o.backs[k], Norm(s[k], FALSE))
AllOK == IF i <= NC1 THEN \A k \in RowRange : ValueOK(Inp.values[k], Obs.values[k])
         ELSE \A k \in DOMAIN Inp.chans : ChanOK(Inp.chans[k], Obs.chans[k])
Complete == i = 1 => (ToSet(Inp.values) = Values /\ ToSet(Inp.chans) = Chans /\ Len(Obs.values) = NV /\ Len(Obs.chans) = Len(Inp.chans))
Where == [i |-> i, bad |-> IF i <= NC1 THEN {<<k, Inp.values[k], Obs.values[k], InDomain(Inp.values[k])>> : k \in {x \in RowRange : ~ValueOK(Inp.values[x], Obs.values[x])}}
                           ELSE {<<k, Inp.chans[k], Obs.chans[k], TRUE>> : k \in {x \in DOMAIN Inp.chans : ~ChanOK(Inp.chans[x], Obs.chans[x])}}]
=============================================================================

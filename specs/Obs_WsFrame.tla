---------------------------- MODULE Obs_WsFrame ----------------------------
(* Observation table for the frame codec: row k =                            *)
(*   <<opcode, mask, n, key(4 bytes), header bytes as serialised by the      *)
(*     library, parsed opcode, parsed mask, parsed length, payload_ok,       *)
(*     bytes left in the buffer after parsing>>                              *)
EXTENDS WsFrame, TLC, Json, IOUtils
Rows == JsonDeserialize(IOEnv.OBS_FILE)
VARIABLE i
Chunk == 500
Init == i \in 1..((Len(Rows) + Chunk - 1) \div Chunk)
Next == UNCHANGED i
RowOK(r) == /\ r[5] = Header(1, r[1], r[2], r[3], r[4])            \* encoded as the RFC prescribes
            /\ r[6] = r[1] /\ r[7] = r[2] /\ r[8] = r[3]            \* parses back to the same frame
            /\ r[9] = 1 /\ r[10] = 0                                \* payload identical (unmasked), nothing left over
Range == ((i - 1) * Chunk + 1)..(IF i * Chunk < Len(Rows) THEN i * Chunk ELSE Len(Rows))
AllOK == \A k \in Range : RowOK(Rows[k])
Where == [i |-> i, bad |-> {<<Rows[k][1], Rows[k][2], Rows[k][3], Rows[k][5], Header(1, Rows[k][1], Rows[k][2], Rows[k][3], Rows[k][4]),
                               Rows[k][6], Rows[k][7], Rows[k][8], Rows[k][9], Rows[k][10]>> : k \in {x \in Range : ~RowOK(Rows[x])}}]
=============================================================================

------------------------------- MODULE EventQ -------------------------------
(***************************************************************************)
(* pylon/engine.py - EventQueue (scene events, first in first out, with a   *)
(* `with queue.suppress(A, B): ...` block that drops events of the named     *)
(* types while it is open) and PriorityQueue (ascending priority, insertion  *)
(* order among equal priorities; entries are never compared).               *)
(*                                                                         *)
(* suppress() REPLACES the suppressed set when it is called (not when the   *)
(* block is entered) and every block exit empties it: an inner block lifts   *)
(* the outer block's suppression.  The model does what the code does; the    *)
(* ghost `open` counts the blocks that are still open.                      *)
(***************************************************************************)
EXTENDS Integers, Sequences, FiniteSets, TLC

CONSTANTS MaxOps, Types, Prios

VARIABLES evs,        \* EventQueue.events: <<[t, n]>> (type, serial number of the push)
          sup, open,
          npush,
          taken,      \* ghost: serial numbers handed out by getEvent, in order
          heap,       \* PriorityQueue: set of [p, i] (priority, insertion index)
          nidx,
          nops, last
vars == <<evs, sup, open, npush, taken, heap, nidx, nops, last>>

Err == [err |-> "IndexError"]
Init == evs = <<>> /\ sup = {} /\ open = 0 /\ npush = 0 /\ taken = <<>> /\ heap = {} /\ nidx = 0 /\ nops = 0 /\ last = [op |-> "init"]
Op == nops < MaxOps /\ nops' = nops + 1
PQ == UNCHANGED <<heap, nidx>>
EQ == UNCHANGED <<evs, sup, open, npush, taken>>

Push(t) == /\ Op /\ npush' = npush + 1
           /\ evs' = IF t \in sup THEN evs ELSE Append(evs, [t |-> t, n |-> npush + 1])
           /\ last' = [op |-> "push", t |-> t]
           /\ UNCHANGED <<sup, open, taken>> /\ PQ
GetEvent == /\ Op
            /\ IF evs = <<>> THEN /\ last' = [op |-> "get", res |-> Err] /\ UNCHANGED <<evs, taken>>
                             ELSE /\ evs' = Tail(evs) /\ taken' = Append(taken, Head(evs).n) /\ last' = [op |-> "get", res |-> Head(evs)]
            /\ UNCHANGED <<sup, open, npush>> /\ PQ
Suppress(S) == /\ Op /\ sup' = S /\ open' = open + 1 /\ last' = [op |-> "suppress", s |-> S] /\ UNCHANGED <<evs, npush, taken>> /\ PQ
Exit == /\ Op /\ open > 0 /\ sup' = {} /\ open' = open - 1 /\ last' = [op |-> "exit"] /\ UNCHANGED <<evs, npush, taken>> /\ PQ

Min == CHOOSE e \in heap : \A f \in heap : e.p < f.p \/ (e.p = f.p /\ e.i <= f.i)
PPush(p) == /\ Op /\ heap' = heap \cup {[p |-> p, i |-> nidx]} /\ nidx' = nidx + 1 /\ last' = [op |-> "ppush", p |-> p] /\ EQ
PPop == /\ Op
        /\ IF heap = {} THEN last' = [op |-> "ppop", res |-> Err] /\ UNCHANGED heap
                        ELSE heap' = heap \ {Min} /\ last' = [op |-> "ppop", res |-> Min]
        /\ UNCHANGED nidx /\ EQ
PPeek == /\ Op /\ last' = [op |-> "ppeek", res |-> IF heap = {} THEN Err ELSE Min] /\ UNCHANGED <<heap, nidx>> /\ EQ

NextEQ == (\E t \in Types : Push(t)) \/ GetEvent \/ (\E S \in SUBSET Types : Suppress(S)) \/ Exit
NextPQ == (\E p \in Prios : PPush(p)) \/ PPop \/ PPeek
SpecEQ == Init /\ [][NextEQ]_vars
SpecPQ == Init /\ [][NextPQ]_vars

\* events leave in the order they were accepted, each once
Fifo == /\ \A a, b \in DOMAIN taken : a < b => taken[a] < taken[b]
        /\ \A a \in DOMAIN taken, k \in DOMAIN evs : taken[a] < evs[k].n
        /\ \A a, b \in DOMAIN evs : a < b => evs[a].n < evs[b].n
\* with no block open nothing is suppressed
ClosedMeansOpen == open = 0 => sup = {}
\* what pop hands out is no larger than anything left, and among equals the oldest
PopIsLeast == (last.op = "ppop" /\ last.res # Err) => \A f \in heap : last.res.p < f.p \/ (last.res.p = f.p /\ last.res.i < f.i)
=============================================================================

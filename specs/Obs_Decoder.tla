----------------------------- MODULE Obs_Decoder -----------------------------
(* Judge of the hostile-input observations: row =                             *)
(*  <<n (input bytes), outcome, calls (deserialize_value invocations),         *)
(*    peak_kib (tracemalloc peak), ms (wall), clean (1: value made only of      *)
(*    supported / registered types)>>                                           *)
(* outcome: "value" | "exception" | "memoryerror" | "baseexception" | "timeout" *)
EXTENDS Integers, Sequences, TLC, Json, IOUtils
Rows == JsonDeserialize(IOEnv.OBS_FILE)
VARIABLE i
Chunk == 1000
Init == i \in 1..((Len(Rows) + Chunk - 1) \div Chunk)
Next == UNCHANGED i
RowRange == ((i - 1) * Chunk + 1)..(IF i * Chunk < Len(Rows) THEN i * Chunk ELSE Len(Rows))
Bound(n) == n \div 2 + 8                    \* invocations: each consumes its 2 header bytes
MemBound(n) == (64 * n) \div 1024 + 1024    \* KiB: a small multiple of the input size plus the interpreter frames of a recursion that the recursion limit cuts off
RowOK(r) == /\ r[2] \in {"value", "exception"}                      \* a value or an ordinary exception: no hang, no MemoryError, nothing outside Exception
            /\ (r[2] = "value" => r[6] = 1)                          \* composed only of supported and registered types
            /\ r[3] <= Bound(r[1])                                   \* never iterates beyond the input
            /\ r[4] <= MemBound(r[1])                                \* never allocates beyond a small multiple of the input
AllOK == \A k \in RowRange : RowOK(Rows[k])
Where == [i |-> i, bad |-> {<<k, Rows[k]>> : k \in {x \in RowRange : ~RowOK(Rows[x])}}]
=============================================================================

--------------------------- MODULE Gen_BitWindow ---------------------------
(* BitWindow with every explored transition printed, one line per          *)
(* (window state, inserted number): the spec -> code replay feeds each one *)
(* to the real BitField.  `last` is hidden by a VIEW so that the state      *)
(* space is windows x positions only.                                       *)
EXTENDS BitWindow, TLC
CONSTANT Emit
NoLast == <<cur, bits, hi, R>>
GInsert(p) ==
  LET r == WInsert(cur, bits, Wrap(p), W) IN
  /\ Insert(p, r.out)
  /\ Emit => PrintT(<<"tr", cur, bits, Wrap(p), r.out, r.cur, r.bits>>)
GInsertFirst   == \E p \in Candidates : WInsert(cur, bits, Wrap(p), W).out = "first" /\ GInsert(p)
GInsertAdvance == \E p \in Candidates : WInsert(cur, bits, Wrap(p), W).out = "advance" /\ GInsert(p)
GInsertFill    == \E p \in Candidates : WInsert(cur, bits, Wrap(p), W).out = "fill" /\ GInsert(p)
GInsertDup     == \E p \in Candidates : WInsert(cur, bits, Wrap(p), W).out = "dup" /\ GInsert(p)
GInsertStale   == \E p \in Candidates : WInsert(cur, bits, Wrap(p), W).out = "stale" /\ GInsert(p)
GNext == GInsertFirst \/ GInsertAdvance \/ GInsertFill \/ GInsertDup \/ GInsertStale
GSpec == Init /\ [][GNext]_vars

\* Random walks (-simulate): one successor per step, chosen by TLC's seeded generator, so that
\* walks at the real widths (W = 256: hundreds of candidates per step) stay cheap.
Walk == \E p \in {RandomElement(Candidates)} : Insert(p, WInsert(cur, bits, Wrap(p), W).out)   \* \E binds the draw once
WalkSpec == Init /\ [][Walk]_vars
=============================================================================

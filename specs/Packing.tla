------------------------------ MODULE Packing ------------------------------
(***************************************************************************)
(* Size arithmetic of connection.py: the limits Packet.setMTU derives from  *)
(* the MTU, how ConnectionBase.send / FragmentSender.build split a payload, *)
(* and the fit test of _build_packet_impl.  Checked for every MTU 512..1500 *)
(* and every payload length around the boundaries: every message the split  *)
(* produces must be able to travel (else it stays queued for ever - "no     *)
(* payload size is silently left unsent"), datagrams respect MTU-28, the    *)
(* slices add up, and payloads above the limit are refused.                  *)
(***************************************************************************)
EXTENDS Integers, Sequences, FiniteSets, TLC
CONSTANT MaxFragments       \* Packet.MAX_FRAGMENTS (8192)

MaxSize(mtu) == mtu - 28                                  \* Packet.MAX_SIZE
MaxPayload(mtu) == MaxSize(mtu) - 20 - 16 - 2             \* Packet.MAX_PAYLOAD_SIZE
MaxFrag(mtu) == IF MaxPayload(mtu) < 1024 + 6 THEN MaxPayload(mtu) - 6 ELSE 1024     \* Packet.MAX_FRAGMENT_SIZE
FragLimit(mtu) == MaxFrag(mtu) * MaxFragments
Area(mtu) == MaxPayload(mtu) + 2                           \* payload area of a datagram = what the packer compares against
Overhead(n) == IF n = 0 THEN 0 ELSE IF n = 1 THEN 2 ELSE 5 * n

\* FragmentSender.build: message payload sizes (slice + 6 byte prefix)
RECURSIVE Frags(_, _)
Frags(rem, mtu) == IF rem <= 0 THEN <<>>
                   ELSE IF rem < MaxPayload(mtu) - 6 THEN <<rem + 6>>
                   ELSE <<MaxFrag(mtu) + 6>> \o Frags(rem - MaxFrag(mtu), mtu)
Split(len, mtu) == IF len <= MaxPayload(mtu) THEN <<len>> ELSE Frags(len, mtu)
FitsAlone(sz, mtu) == sz + Overhead(1) <= Area(mtu)
RECURSIVE Sum(_)
Sum(s) == IF s = <<>> THEN 0 ELSE Head(s) + Sum(Tail(s))

\* boundary lengths for one MTU
Lens(mtu) == LET P == MaxPayload(mtu) F == MaxFrag(mtu) IN
   {x \in (0..3) \cup UNION {(k * F - 8)..(k * F + 8) : k \in 1..3} \cup ((P - 10)..(P + 10)) \cup UNION {(k * F + P - 16)..(k * F + P + 4) : k \in 1..2} : x >= 0}

VARIABLES mtu, len
Init == mtu \in 512..1500 /\ len \in Lens(mtu)
Next == UNCHANGED <<mtu, len>>
S == Split(len, mtu)
SumOK == IF len <= MaxPayload(mtu) THEN S = <<len>> ELSE Sum(S) = len + 6 * Len(S)          \* C06
NotStuck == \A i \in DOMAIN S : FitsAlone(S[i], mtu)                                        \* C05 / C09
SizeOK == \A i \in DOMAIN S : 20 + S[i] + Overhead(1) + 16 <= MaxSize(mtu)                  \* C09
NotFragmented == len <= MaxPayload(mtu) => Len(S) = 1                                       \* C06
=============================================================================

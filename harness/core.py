"""Shared plumbing for the per-property checks: context, verdicts, evidence, known findings."""
import os, sys, json, time, random, re, traceback, hashlib

VERIF = os.path.dirname(os.path.dirname(os.path.abspath(__file__)))
REPO = os.environ.get("VERIF_REPO", "/repo")
sys.path.insert(0, os.path.join(VERIF, "harness"))

import tlc as T   # noqa: E402


class Machinery(Exception):
    """Something in the checking machinery failed (exit 2); says nothing about the property."""


def load_findings():
    """KNOWN_FINDINGS.txt -> {(property, sig): description} for open findings."""
    out = {}
    p = os.path.join(VERIF, "KNOWN_FINDINGS.txt")
    if os.path.exists(p):
        for line in open(p):
            line = line.strip()
            if not line or line.startswith("#"):
                continue
            m = re.match(r'open:\s+property=(\S+)\s+sig=(\S+)\s+(.*)', line)
            if m:
                out[(m.group(1), m.group(2))] = m.group(3)
    return out


class Ctx:
    def __init__(self, pid, tier, seed):
        self.pid = pid
        self.tier = tier
        self.quick = tier == "quick"
        self.seed = seed
        self.rnd = random.Random(seed)
        self.t0 = time.time()
        self.level = "model_checking"
        self.states = 0
        self.transitions = 0
        self.traces = 0           # traces/behaviours validated against the implementation
        self.evaluations = 0
        self.distinct = set()
        self.distinct_n = 0
        self.samples = []
        self.rule = ""
        self.assumptions = []
        self.extra = {}
        self.tlc_runs = []
        self.violations = []      # (clause, replay path)
        self.known = []           # (sig, text)
        self.findings = load_findings()
        self.exhaustive = None
        self.notes = []

    # ---------------------------------------------------------------- TLC
    def mc(self, module, cfg, need=(), label=None, count=True, **kw):
        """Run TLC; returns the Result.  Coverage of the actions in `need` must be non-zero (vacuity guard)."""
        r = T.run(module, cfg, **kw)
        rec = dict(module=module, label=label or module, **r.summary())
        rec["coverage"] = {k: v for k, v in r.coverage.items()}
        self.tlc_runs.append(rec)
        if r.violation and r.violation["kind"] == "error":
            raise Machinery("TLC error in %s: %s" % (label or module, r.violation["text"][:3000]))
        if count:
            self.states += r.distinct
            self.transitions += r.generated
        if r.ok:
            for a in need:
                if r.coverage.get(a, [0, 0])[1] == 0:
                    raise Machinery("vacuity: action %s never taken in %s (coverage %s)" % (a, label or module, r.coverage))
        return r

    # ---------------------------------------------------------------- verdicts
    def fail(self, clause, replay, sig=None):
        """Record a violation.  `replay` is a JSON-able object describing the failing case."""
        if sig is not None and (self.pid, sig) in self.findings:
            if sig not in [k for k, _ in self.known]:
                self.known.append((sig, self.findings[(self.pid, sig)]))
            return
        if len(self.violations) >= 20:
            self.violations.append((clause, None))
            return
        d = os.path.join(os.environ.get("VERIF_REPLAY_DIR") or os.path.join(VERIF, "replays"), self.pid)
        os.makedirs(d, exist_ok=True)
        body = json.dumps(dict(property=self.pid, clause=clause, tier=self.tier, seed=self.seed, case=replay),
                          indent=1, default=_default, sort_keys=True)
        name = re.sub(r'[^A-Za-z0-9_.-]+', '_', clause)[:60] + "-" + hashlib.sha1(body.encode()).hexdigest()[:8] + ".json"
        path = os.path.join(d, name)
        with open(path, "w") as f:
            f.write(body)
        if len(self.violations) < 20:
            print("VIOLATION property=%s replay=%s" % (self.pid, path))
            print("  clause: %s" % clause)
        self.violations.append((clause, path))

    def sample(self, obj, limit=6):
        if len(self.samples) < limit:
            self.samples.append(obj)

    def case(self, key=None, nontrivial=True):
        """Count one evaluated case; key identifies it for distinctness."""
        self.evaluations += 1
        if nontrivial and key is not None:
            if len(self.distinct) < 2_000_000:
                self.distinct.add(key if isinstance(key, (int, str, bytes, tuple)) else repr(key))

    def note(self, s):
        self.notes.append(s)
        print("  " + s)

    # ---------------------------------------------------------------- evidence
    def write_evidence(self, failed_machinery=None):
        cov = dict(self.extra)
        dn = max(self.distinct_n, len(self.distinct))
        cov.update(evaluations=self.evaluations, distinct_nontrivial=dn, rule=self.rule,
                   samples=self.samples[:8] or ["(none recorded)"],
                   states=self.states, transitions=self.transitions,
                   traces_validated_against_impl=self.traces, tlc_runs=self.tlc_runs)
        if self.exhaustive is not None:
            cov["exhaustive"] = self.exhaustive
        if self.known:
            cov["known_findings_reported"] = [k for k, _ in self.known]
        if self.notes:
            cov["notes"] = self.notes
        if failed_machinery:
            cov["machinery_failure"] = failed_machinery
        ev = dict(property_id=self.pid, tier=self.tier, seed=self.seed, level=self.level, coverage=cov,
                  assumptions=self.assumptions, wall_s=round(time.time() - self.t0, 2),
                  violations=len(self.violations))
        evdir = os.environ.get("VERIF_EVIDENCE_DIR") or os.path.join(VERIF, "evidence")      # (the mutant campaign writes elsewhere)
        os.makedirs(evdir, exist_ok=True)
        with open(os.path.join(evdir, self.pid + ".json"), "w") as f:
            json.dump(ev, f, indent=1, default=_default, sort_keys=True)
            f.write("\n")


def _default(o):
    if isinstance(o, (set, frozenset)):
        try:
            return sorted(o)
        except TypeError:
            return list(o)
    if isinstance(o, bytes):
        return o.hex()
    if isinstance(o, tuple):
        return list(o)
    return repr(o)


def main(argv):
    import argparse, importlib
    ap = argparse.ArgumentParser()
    ap.add_argument("pid")
    ap.add_argument("--tier", default=os.environ.get("VERIF_TIER", "quick"), choices=["quick", "thorough"])
    ap.add_argument("--replay", default=None)
    a = ap.parse_args(argv)
    seed = int(os.environ.get("VERIF_SEED", "20260926"))
    ctx = Ctx(a.pid, a.tier, seed)
    sys.path.insert(0, REPO)
    os.environ.setdefault("PYTHONHASHSEED", "0")
    try:
        mod = importlib.import_module("props." + a.pid.lower())
    except ImportError as e:
        print("no check for %s: %s" % (a.pid, e))
        return 2
    try:
        if a.replay:
            mod.replay(ctx, json.load(open(a.replay)))
        else:
            mod.run(ctx)
    except Machinery as e:
        print("MACHINERY-FAILURE property=%s %s" % (a.pid, e))
        ctx.write_evidence(failed_machinery=str(e)[:2000])
        return 2
    except T.TLCError as e:
        print("MACHINERY-FAILURE property=%s %s" % (a.pid, e))
        ctx.write_evidence(failed_machinery=str(e)[:2000])
        return 2
    except Exception:
        traceback.print_exc()
        print("MACHINERY-FAILURE property=%s unexpected exception in the harness" % a.pid)
        ctx.write_evidence(failed_machinery=traceback.format_exc()[-2000:])
        return 2
    ctx.write_evidence()
    for sig, text in ctx.known:
        print("KNOWN-FINDING: property=%s sig=%s %s" % (a.pid, sig, text))
    if ctx.violations:
        if len(ctx.violations) > 20:
            print("  (%d violations in total; first 20 listed)" % len(ctx.violations))
        return 1
    print("OK property=%s tier=%s states=%d transitions=%d impl_traces=%d evaluations=%d wall=%.1fs" % (
        a.pid, a.tier, ctx.states, ctx.transitions, ctx.traces, ctx.evaluations, time.time() - ctx.t0))
    return 0


if __name__ == "__main__":
    import core          # one copy of this module only (exception classes are compared by identity)
    sys.exit(core.main(sys.argv[1:]))

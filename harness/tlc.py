"""Run TLC / SANY and parse what comes back.  Everything goes through run()."""
import os, re, shutil, subprocess, tempfile, time, json
from tlaval import parse_state, parse_value

JAR_CP = "/opt/veriftools/tla/tla2tools.jar:/opt/veriftools/tla/CommunityModules-deps.jar"
SPECS = os.path.join(os.path.dirname(os.path.dirname(os.path.abspath(__file__))), "specs")
WORK_ROOT = os.environ.get("VERIF_WORK", "/var/tmp/verif-work")


class TLCError(Exception):
    """Machinery failure (parse error, crash, timeout): never a property verdict."""


class Result:
    def __init__(self):
        self.rc = None
        self.out = ""
        self.generated = 0
        self.distinct = 0
        self.depth = 0
        self.coverage = {}     # action name -> [distinct, total]
        self.violation = None  # None or dict(kind=..., name=..., text=...)
        self.trace = []        # list of dict(n=, action=, state=) for an error trace
        self.printed = []      # values PrintT'ed (raw text)
        self.wall_s = 0.0
        self.ok = False
        self.cmd = ""

    def summary(self):
        return dict(generated=self.generated, distinct=self.distinct, depth=self.depth,
                    violation=self.violation and {k: self.violation[k] for k in ("kind", "name")},
                    wall_s=round(self.wall_s, 2))


def workdir(tag="w"):
    os.makedirs(WORK_ROOT, exist_ok=True)
    return tempfile.mkdtemp(prefix=tag + "-", dir=WORK_ROOT)


_msg = re.compile(r'@!@!@STARTMSG (\d+):(\d+) @!@!@\n(.*?)\n?@!@!@ENDMSG \1 @!@!@', re.S)


def run(module, cfg, *, workers=16, timeout=900, simulate=None, depth=None, seed=None, dump=None,
        coverage=True, env=None, cont=False, specdir=SPECS, extra=(), heap=None, wd=None, deadlock_off=False,
        dfs=False, parse_states="auto", gcthreads=None):
    """module: name of the root module (file <specdir>/<module>.tla); cfg: path or text of a config."""
    own_wd = wd is None
    wd = wd or workdir("tlc")
    try:
        if "\n" in cfg or not cfg.endswith(".cfg"):
            cfg_path = os.path.join(wd, "run.cfg")
            with open(cfg_path, "w") as f:
                f.write(cfg)
        else:
            cfg_path = cfg if os.path.isabs(cfg) else os.path.join(specdir, cfg)
        java = ["java", "-XX:+UseParallelGC", "-Xss64m"]
        if heap:
            java.append("-Xmx%s" % heap)
        if gcthreads:
            java.append("-XX:ParallelGCThreads=%d" % gcthreads)
        if dfs:
            java.append("-Dtlc2.tool.queue.IStateQueue=StateDeque")
        java += ["-DTLA-Library=" + specdir, "-cp", JAR_CP, "tlc2.TLC"]
        args = ["-tool", "-noGenerateSpecTE", "-metadir", os.path.join(wd, "meta"), "-config", cfg_path,
                "-workers", str(workers)]
        if coverage and not simulate:
            args += ["-coverage", "1"]
        if simulate:
            args += ["-simulate", simulate]
        if depth:
            args += ["-depth", str(depth)]
        if seed is not None:
            args += ["-seed", str(seed)]
        if dump:
            args += ["-dump"] + list(dump)
        if cont:
            args += ["-continue"]
        if deadlock_off:
            args += ["-deadlock"]
        args += list(extra)
        args.append(os.path.join(specdir, module + ".tla"))
        e = dict(os.environ)
        e.pop("JAVA_TOOL_OPTIONS", None)
        if env:
            e.update({k: str(v) for k, v in env.items()})
        r = Result()
        r.parse_states = parse_states
        r.cmd = " ".join(java[-1:] + args)
        t0 = time.time()
        try:
            p = subprocess.run(java + args, cwd=wd, env=e, stdout=subprocess.PIPE, stderr=subprocess.STDOUT,
                               timeout=timeout)
        except subprocess.TimeoutExpired as ex:
            subprocess.run(["pkill", "-f", os.path.join(wd, "meta")], check=False)
            r.out = (ex.stdout or b"").decode("utf-8", "replace")
            r.wall_s = time.time() - t0
            r.timed_out = True
            _parse(r)
            if simulate:
                return r
            raise TLCError("TLC timed out after %ds: %s" % (timeout, r.cmd))
        r.timed_out = False
        r.wall_s = time.time() - t0
        r.rc = p.returncode
        r.out = p.stdout.decode("utf-8", "replace")
        _parse(r)
        return r
    finally:
        if own_wd:
            shutil.rmtree(wd, ignore_errors=True)


def _parse(r):
    out = r.out
    msgs = [(int(m.group(1)), m.group(3)) for m in _msg.finditer(out)]
    # text outside message markers = PrintT output
    outside = _msg.sub("", out)
    r.printed = [l for l in outside.split("\n") if l.strip()]
    err_texts = []
    success = False
    cov_loc = {}
    for code, text in msgs:
        if code == 2199 or code == 2200 and False:
            pass
        m = re.search(r'(\d+) states generated, (\d+) distinct states found', text)
        if m and code in (2199,):
            r.generated, r.distinct = int(m.group(1)), int(m.group(2))
        if code == 2200 and not r.generated:
            m2 = re.search(r'(\d+) states generated.*?(\d+) distinct states', text, re.S)
            if m2:
                r._progress = (int(m2.group(1)), int(m2.group(2)))
        if code == 2194:
            m = re.search(r'search is (\d+)', text)
            if m:
                r.depth = int(m.group(1))
        if code == 2193:
            success = True
        if code in (2772, 2773):
            m = re.match(r'<(\w+) (line .*? of module \w+)>: (\d+):(\d+)', text)
            if m:
                cov_loc[(m.group(1), m.group(2))] = [int(m.group(3)), int(m.group(4))]
        if code == 2217 or code == 2218:
            m = re.match(r'(\d+): <(.*?)>\n(.*)', text, re.S)
            if m:
                act = m.group(2)
                am = re.match(r'(\w+) line', act)
                r.trace.append(dict(n=int(m.group(1)), action=am.group(1) if am else act, state=None, _raw=m.group(3)))
            else:
                m = re.match(r'(\d+): (Stuttering|Back to state.*)', text)
                if m:
                    r.trace.append(dict(n=int(m.group(1)), action=m.group(2), state={}))
        if code == 2107:
            body = text.split("\n", 1)[1] if "\n" in text else ""
            try:
                r.trace.append(dict(n=1, action="Initial predicate", state=parse_state(body.strip())))
            except Exception:
                pass
        if code in (2110, 2111, 2112, 2113, 2114, 2115, 2116, 2107, 2108, 2109, 2132, 2133, 2135, 2138,
                    1000, 2103, 2104, 2105, 2106, 2140, 2147, 2154, 2155, 2156, 2157, 2171, 2172, 2173, 2174, 2000):
            err_texts.append((code, text))
    for (name, _), (d, t) in cov_loc.items():
        c = r.coverage.setdefault(name, [0, 0])
        c[0] += d
        c[1] += t
    # split repeated traces (-continue)
    r.traces = []
    for st in r.trace:
        if st["n"] == 1:
            r.traces.append([])
        if r.traces:
            r.traces[-1].append(st)
    # states are parsed lazily: all of a short trace, only the first and last of a long one
    for tr in r.traces:
        idx = range(len(tr)) if (len(tr) <= 300 and getattr(r, "parse_states", "auto") == "auto") else (len(tr) - 1,)
        for i in idx:
            materialise(tr[i])
        for st in tr:
            if st["state"] is None:
                st["state"] = {"_lazy": True}
    r.trace = r.traces[0] if r.traces else []
    if not r.generated and hasattr(r, "_progress"):
        r.generated, r.distinct = r._progress
    # classify
    v = None
    for code, text in msgs:
        if "StackOverflowError" in text or "TLC threw an unexpected exception" in text or "Attempted to" in text:
            v = dict(kind="error", name="tlc-error", text=text)
            break
    for code, text in ([] if v else err_texts):
        m = re.search(r'Invariant (\S+) is violated', text)
        if m:
            v = dict(kind="invariant", name=m.group(1), text=text)
            break
        if "Deadlock reached" in text:
            v = dict(kind="deadlock", name="deadlock", text=text)
            break
        m = re.search(r'Action property (\S+) is violated', text)
        if m:
            v = dict(kind="action_property", name=m.group(1), text=text)
            break
        if "Temporal properties were violated" in text:
            v = dict(kind="temporal", name="temporal", text=text)
            break
        m = re.search(r'[Pp]ostcondition|POSTCONDITION', text)
        if m:
            v = dict(kind="postcondition", name="postcondition", text=text)
            break
        m = re.search(r'Assumption .* is false|Assert', text)
        if m:
            v = dict(kind="assert", name="assert", text=text)
            break
    if v is None and not success and not getattr(r, "timed_out", False):
        # Any "Error:" is an evaluation / semantic error = machinery failure unless classified above
        errs = [t for c, t in msgs if c < 2180 and ("rror" in t or "xception" in t)]
        if r.rc not in (0, None) or errs:
            v = dict(kind="error", name="tlc-error", text="\n".join(errs)[:4000] or out[-3000:])
    r.violation = v
    r.ok = v is None and (success or getattr(r, "timed_out", False))


def materialise(st):
    if st.get("state") is None or st["state"].get("_lazy"):
        raw = st.get("_raw", "")
        try:
            st["state"] = parse_state(raw) if raw.strip() else {}
        except Exception as ex:
            st["state"] = {"_unparsed": raw, "_err": str(ex)}
    return st["state"]


def sany(module, specdir=SPECS):
    p = subprocess.run(["java", "-DTLA-Library=" + specdir, "-cp", JAR_CP, "tla2sany.SANY",
                        os.path.join(specdir, module + ".tla")], stdout=subprocess.PIPE, stderr=subprocess.STDOUT,
                       cwd=workdir("sany"))
    return p.returncode == 0 and b"rror" not in p.stdout, p.stdout.decode()


# ---------------------------------------------------------------- state graph

def dump_graph(module, cfg, **kw):
    """Exhaustively explore and return (states, edges, result).
    states: id -> parsed state dict; edges: list of (src id, action label, dst id); init: set of ids."""
    wd = workdir("dump")
    try:
        path = os.path.join(wd, "graph")
        r = run(module, cfg, dump=("dot,actionlabels", path), wd=wd, coverage=False, **kw)
        if not r.ok:
            return {}, [], set(), r
        txt = open(path + ".dot").read()
        states, edges, init = {}, [], set()
        for m in re.finditer(r'^(-?\d+) \[label="((?:[^"\\]|\\.)*)"(,style = filled)?', txt, re.M):
            lab = re.sub(r'\\(.)', lambda q: "\n" if q.group(1) == "n" else q.group(1), m.group(2))
            states[m.group(1)] = parse_state(lab)
            if m.group(3):
                init.add(m.group(1))
        for m in re.finditer(r'^(-?\d+) -> (-?\d+) \[label="(.*?)"', txt, re.M):
            edges.append((m.group(1), m.group(3), m.group(2)))
        return states, edges, init, r
    finally:
        shutil.rmtree(wd, ignore_errors=True)


def simulate(module, cfg, num, depth, seed, workers=1, timeout=600, **kw):
    """Random behaviours: list of behaviours, each a list of dict(action=, state=)."""
    wd = workdir("sim")
    try:
        base = os.path.join(wd, "tr")
        r = run(module, cfg, simulate="file=%s,num=%d" % (base, num), depth=depth, seed=seed, workers=workers,
                wd=wd, coverage=False, timeout=timeout, **kw)
        behs = []
        for fn in sorted(os.listdir(wd)):
            if not fn.startswith("tr_"):
                continue
            txt = open(os.path.join(wd, fn)).read()
            beh = []
            for m in re.finditer(r'\\\* <(.*?)>\s*\nSTATE_\d+ ==\s*\n(.*?)\n\n', txt + "\n\n", re.S):
                am = re.match(r'(\w+) line', m.group(1))
                beh.append(dict(action=am.group(1) if am else m.group(1), state=parse_state(m.group(2))))
            if beh:
                behs.append(beh)
        return behs, r
    finally:
        shutil.rmtree(wd, ignore_errors=True)

"""Configurations of the exhaustive design model specs/Conn.tla (MC_Conn) used by C04, C05, C07."""


def cfg(**kw):
    d = dict(M=31, Wp=2, Wm=3, T=4, R=2, D=3, K=2, C=2, Pids="{p1, p2}", RetryOf="R_G_N", LossBudget=1, ReplayBudget=0, MaxSent=20,
             RetryOnce="TRUE", StaleDrop="TRUE", StaleMsgDrop="FALSE", props=(), constraint=True,
             invs=("AtMostOnce", "CbAtMostOnce", "TrueMeansAccepted", "GuaranteedNeverFalse", "RingBigEnough"))
    d.update(kw)
    s = "SPECIFICATION Spec\nCONSTANTS\n" + "".join(" %s = %s\n" % (k, d[k]) for k in
                                                    ["M", "Wp", "Wm", "T", "R", "D", "K", "C", "LossBudget", "ReplayBudget", "MaxSent", "RetryOnce", "StaleDrop", "StaleMsgDrop"])
    s += " p1 = p1\n p2 = p2\n p3 = p3\n p4 = p4\n p5 = p5\n Pids = %s\n RetryOf <- %s\n" % (d["Pids"], d["RetryOf"])
    for i in d["invs"]:
        s += "INVARIANT %s\n" % i
    for p in d["props"]:
        s += "PROPERTY %s\n" % p
    if d["constraint"]:
        s += "CONSTRAINT Bound\n"
    s += "CHECK_DEADLOCK FALSE\n"
    return s

"""The two public sending APIs end to end over a perfect (or scripted) virtual link:
real UdpClient (fake socket, fake select) <-> real ServerClientConnection, preset session key, virtual time."""
import impl
from connworld import VClock


class FakeSock:
    def __init__(self):
        self.inbox = []
        self.sent = []

    def sendto(self, data, addr):
        self.sent.append(bytes(data))

    def recvfrom(self, n):
        return self.inbox.pop(0), ("srv", 1)

    def close(self):
        pass


class ApiWorld:
    KEY = b"K" * 16

    def __init__(self, mtu=None):
        self.C = impl.mod("connection")
        self.CL = impl.mod("client")
        self.X = impl.mod("context")
        self.H = impl.mod("handler")
        C, CL = self.C, self.CL
        self.vt = VClock(50_000_000)
        C.time = self.vt
        CL.time = self.vt
        if mtu is not None:
            C.Packet.setMTU(mtu)
        self.sock = FakeSock()
        sock = self.sock

        class Sel:
            @staticmethod
            def select(r, w, x, t):
                return ([sock] if sock.inbox else [], w, [])
        CL.select = Sel
        self.client = CL.UdpClient()
        self.client._make_socket = lambda addr: sock
        # a connected client without running the handshake (C02 covers that)
        self.client.addr = ("srv", 1)
        self.client.sock = sock
        conn = C.ClientServerConnection(("srv", 1))
        conn.clock = self.vt.time
        conn.session_key_bytes = self.KEY
        conn.status = C.ConnectionStatus.CONNECTED
        conn.last_recv_time = self.vt.time()
        self.client.conn = conn
        ctxt = self.X.ServerContext(self.H.EventHandler())
        self.srv = C.ServerClientConnection(ctxt, ("cli", 2))
        self.srv.clock = self.vt.time
        self.srv.session_key_bytes = self.KEY
        self.srv.status = C.ConnectionStatus.CONNECTED
        self.srv.last_recv_time = self.vt.time()
        self.to_client = []
        self.server_got = []
        self.client_got = []

    def close(self):
        import time as _t, select as _s
        self.C.time = _t
        self.CL.time = _t
        self.CL.select = _s
        self.C.Packet.setMTU(1500)

    def tick(self, link_up=True):
        C = self.C
        self.vt.us += 16667
        # client side: one update per pending datagram plus one (update() receives at most one datagram)
        self.sock.inbox.extend(self.to_client)
        self.to_client = []
        for _ in range(len(self.sock.inbox) + 1):
            self.client.update()
        self.client_got += [bytes(m) for _, m in self.client.getMessages()]
        out = self.sock.sent
        self.sock.sent = []
        if link_up:
            for d in out:
                hdr = C.PacketHeader.from_bytes(True, d)
                self.srv._recv_datagram(hdr, d)
        self.server_got += [bytes(m) for _, m in self.srv.incoming_messages]
        self.srv.incoming_messages = []
        res = self.srv.update()
        if res is not None and link_up:
            pkt, key, addr = res
            self.to_client.append(pkt.to_bytes(key))
        return len(out), res is not None

"""Deterministic interleaving of real Python threads at the grain of shared-memory accesses.

No source hooks: the objects a class shares between threads (a lock, a list, an attribute that is re-bound) are replaced, on one
instance, by stand-ins that call `point(kind)` immediately BEFORE the access takes effect.  A worker thread that reaches a point
announces the access it is about to make and sleeps until the driver grants it one step; it then performs that access and runs on to
its next point (or to the end of the operation).  Exactly one of driver / workers runs at any time, so an execution is fully
determined by the sequence of grants - which the driver takes from a TLC state graph (specification -> code) or enumerates itself.
"""
import threading


class Blocked(Exception):
    pass


class Worker(threading.Thread):
    def __init__(self, name):
        super().__init__(name=name, daemon=True)
        self.cmd = None
        self.cmd_sem = threading.Semaphore(0)
        self.grant = threading.Semaphore(0)
        self.arrived = threading.Semaphore(0)
        self.pending = "idle"      # the access this thread is paused in front of, or "idle" (no operation in progress)
        self.error = None
        self.result = None
        self.accesses = []         # every access made, in order
        self.start()

    def run(self):
        while True:
            self.cmd_sem.acquire()
            if self.cmd is None:
                return
            try:
                self.result = self.cmd()
            except BaseException as e:      # reported to the driver, never swallowed
                self.error = e
            self.pending = "idle"
            self.arrived.release()

    # -- called on this thread, from the instrumented objects
    def point(self, kind):
        self.pending = kind
        self.arrived.release()
        self.grant.acquire()
        self.accesses.append(kind)

    # -- called by the driver
    def begin(self, fn, timeout=10):
        """start an operation; returns when the thread is paused at its first access or the operation finished"""
        assert self.pending == "idle"
        self.cmd = fn
        self.cmd_sem.release()
        if not self.arrived.acquire(timeout=timeout):
            raise Blocked("%s did not reach a scheduling point" % self.name)

    def step(self, timeout=10):
        """let the thread perform the access it is paused at and run to its next point"""
        assert self.pending != "idle"
        self.grant.release()
        if not self.arrived.acquire(timeout=timeout):
            raise Blocked("%s blocked inside %s" % (self.name, self.pending))

    def stop(self):
        if self.pending != "idle":      # abandon: let it run free to the end
            self.pending = "abandoned"
            for _ in range(10000):
                self.grant.release()
        self.cmd = None
        self.cmd_sem.release()


def point(kind):
    t = threading.current_thread()
    if isinstance(t, Worker) and t.pending != "abandoned":
        t.point(kind)


class CoopLock:
    """stand-in for threading.Lock: announces acquire / release; never blocks the process (the driver only grants an acquire when the
    lock is free; a grant on a held lock is reported)"""

    def __init__(self):
        self.holder = None

    def acquire(self, blocking=True, timeout=-1):
        point("acq")
        me = threading.current_thread().name
        if self.holder is not None:
            raise Blocked("%s acquires the lock while %s holds it" % (me, self.holder))
        self.holder = me
        return True

    def release(self):
        point("rel")
        self.holder = None

    def __enter__(self):
        self.acquire()
        return self

    def __exit__(self, *a):
        self.release()
        return False

    def locked(self):
        return self.holder is not None


class TList(list):
    """a list whose shared accesses are scheduling points: truth value / len, append, live iteration (element by element, like list_iterator)"""

    def __bool__(self):
        point("len")
        return list.__len__(self) > 0

    def __len__(self):
        point("len")
        return list.__len__(self)

    def append(self, x):
        point("app")
        list.append(self, x)

    def extend(self, xs):
        point("app")
        list.extend(self, xs)

    def __iter__(self):
        i = 0
        while True:
            point("it")
            if i >= list.__len__(self):
                return
            yield list.__getitem__(self, i)
            i += 1

    def pop(self, *a):
        point("pop")
        return list.pop(self, *a)

    def raw(self):
        return [list.__getitem__(self, i) for i in range(list.__len__(self))]


def shared_attribute(obj, name, wrap=lambda v: v):
    """turn obj.<name> into a data descriptor on a one-off subclass: every read announces 'rd', every re-binding announces 'wr'"""
    store = "_tw_" + name
    obj.__dict__[store] = wrap(obj.__dict__.pop(name))

    def getter(self):
        point("rd")
        return self.__dict__[store]

    def setter(self, v):
        point("wr")
        self.__dict__[store] = wrap(v)
    cls = type(obj)
    sub = type("Traced" + cls.__name__, (cls,), {name: property(getter, setter)})
    obj.__class__ = sub
    return store

"""C19 - password hashing: the right password verifies, every other one does not.

Auth.tla is model-checked (fresh salts, right-verifies); its operation space (password class pairs, corruption kinds)
is written out by TLC, concretised by the harness (every truncation position, every field, parameter edits, base64
damage), executed on the real scrypt-based functions in a process pool, and judged by TLC (Obs_Auth).
"""
import base64, json, os, shutil, struct
from concurrent.futures import ProcessPoolExecutor
import impl, tlc as T
from tlaval import to_json
from core import Machinery

PW = {
    "empty": b"",
    "nul": b"pass\x00word",
    "long": bytes(range(256)) * 40,
    "long_tail": bytes(range(256)) * 39 + bytes(range(255)) + b"\x00",   # 10 KiB, differs from "long" in the last byte only
    "long_plus": bytes(range(256)) * 40 + b"x",                           # "long" with one byte appended
    "a": b"correct horse",
    "a_bit": b"correct horsd",        # one bit away from "a"
    "a_trail": b"correct horse\x00",  # one trailing byte
    "a_case": b"Correct horse",
}
KINDS = ["drop_field", "truncate", "b64_params", "b64_data", "edit_N", "edit_r", "edit_p", "edit_saltlen", "edit_digestlen", "edit_lengths", "trunc_digest", "b64_lenient", "method", "version", "extra_field", "empty"]


def parse_fields(h):
    try:
        parts = h.encode("utf-8").split(b":")
        if len(parts) != 4:
            return ("nfields", len(parts))
        return (parts[0], parts[1], base64.b64decode(parts[2]), base64.b64decode(parts[3]))
    except Exception as e:
        return ("unparsable", type(e).__name__)


def corruptions(h, kind, quick):
    parts = h.split(":")
    out = []
    if kind == "drop_field":
        for k in range(4):
            out.append(":".join(parts[:k] + parts[k + 1:]))
        out += [":".join(parts[:2]), parts[0], ":".join(parts[:3])]
    elif kind == "truncate":
        step = 3 if quick else 1
        out += [h[:k] for k in range(0, len(h), step)]
    elif kind == "b64_params":
        p = parts[2]
        out += [":".join([parts[0], parts[1], x, parts[3]]) for x in (p[:-1], p[1:], p + "A", "!" + p[1:], p[:-2] + "==", p.replace(p[2], "*", 1), "")]
    elif kind == "b64_data":
        d = parts[3]
        flip = "B" if d[5] != "B" else "C"
        out += [":".join(parts[:3] + [x]) for x in (d[:-1], d[1:], d[:5] + flip + d[6:], d[:-4], d + "AAAA", d[:20] + flip + d[21:] if d[20] != flip else d[:20] + "D" + d[21:], "", d[:24])]
    elif kind.startswith("edit_"):
        N, r, p, sl, dl = struct.unpack(">HBBBB", base64.b64decode(parts[2]))
        edits = dict(edit_N=[(N // 2, r, p, sl, dl), (N * 2, r, p, sl, dl), (N + 1, r, p, sl, dl), (0, r, p, sl, dl), (1, r, p, sl, dl)],
                     edit_r=[(N, 8, p, sl, dl), (N, 17, p, sl, dl), (N, 0, p, sl, dl)],
                     edit_p=[(N, r, 2, sl, dl), (N, r, 0, sl, dl)],
                     edit_saltlen=[(N, r, p, sl - 1, dl), (N, r, p, sl + 1, dl), (N, r, p, 0, dl), (N, r, p, 255, dl)],
                     edit_digestlen=[(N, r, p, sl, dl - 1), (N, r, p, sl, dl + 1), (N, r, p, sl, 0), (N, r, p, sl, 255)], edit_lengths=[])[kind]
        if kind == "edit_lengths":
            # the two length bytes edited TOGETHER (they decide where the stored salt ends and how many bytes are derived and compared): the grid around the
            # genuine values, the whole data field as salt with nothing left to compare, and - with cheap cost parameters, which is a third edit - every pair
            nd = len(base64.b64decode(parts[3]))
            grid = [(N, r, p, a, b) for a in (0, 1, sl - 1, sl, sl + 1, nd - 1, nd, nd + 1, 255) for b in (0, 1, dl - 1, dl, dl + 1, nd - 1, nd, 255) if (a, b) != (sl, dl)]
            grid += [(N, r, p, a, nd - a) for a in range(0, nd + 1) if a != sl]
            cheap = [(2, 1, 1, a, b) for a in (range(0, 256, 5) if quick else range(256)) for b in ((0, 1, 2, nd - a if 0 <= nd - a <= 255 else 3) if quick else range(0, 256, 3))]
            cheap += [(2, 1, 1, a, b) for a in range(0, nd + 2) for b in (0, 1, max(0, nd - a))]
            edits = grid + sorted(set(cheap))
        for e in edits:
            out.append(":".join([parts[0], parts[1], base64.b64encode(struct.pack(">HBBBB", *e)).decode(), parts[3]]))
    elif kind == "trunc_digest":
        # truncation of the stored digest together with the matching edit of the length byte (scrypt output of length L is a prefix of any longer output)
        N, r, p, sl, dl = struct.unpack(">HBBBB", base64.b64decode(parts[2]))
        data = base64.b64decode(parts[3])
        for L in ([1, 8, 15, 16, 20, 23] if quick else range(1, dl)):
            out.append(":".join([parts[0], parts[1], base64.b64encode(struct.pack(">HBBBB", N, r, p, sl, L)).decode(), base64.b64encode(data[:sl + L]).decode()]))
    elif kind == "b64_lenient":
        # damage that a lenient base64 reader skips over or does not notice: foreign characters inside a field, data after the padding, other unused low bits
        pp, d = parts[2], parts[3]
        alpha = "ABCDEFGHIJKLMNOPQRSTUVWXYZabcdefghijklmnopqrstuvwxyz0123456789+/"
        def lowbits(x):
            if x.endswith("=="):
                k = alpha.index(x[-3])
                return x[:-3] + alpha[k ^ 1] + "=="
            if x.endswith("="):
                k = alpha.index(x[-2])
                return x[:-2] + alpha[k ^ 1] + "="
            return None
        cands = [(pp, d[:7] + "!" + d[7:]), (pp[:3] + " " + pp[3:], d), (pp, d + "AAAA"), (pp, d + "%%%"), (pp, d + "\n$$$"), (pp + "\n", d), (pp, "\t" + d), (pp, d[:10] + "-_" + d[10:]), (pp, d.rstrip("=")),
                 (pp, d + "="), (pp, d[:4] + "\r\n" + d[4:])]
        for x in (lowbits(d), lowbits(pp)):
            if x is not None:
                cands.append((pp, x) if x is not None and x != pp and len(x) == len(d) else (x, d))
        out += [":".join([parts[0], parts[1], a, b]) for a, b in cands]
    elif kind == "method":
        out += [":".join([m] + parts[1:]) for m in ("bcrypt", "", "Scrypt", "scrypt ")]
    elif kind == "version":
        out += [":".join([parts[0], v] + parts[2:]) for v in ("2", "", "01", "1 ")]
    elif kind == "extra_field":
        out += [h + ":", h + ":AAAA", ":" + h, h.replace(":", "::", 1)]
    elif kind == "empty":
        out += ["", ":", ":::", "::::"]
    return out


def _verify(args):
    repo, pw, h = args
    import sys
    if repo not in sys.path[:1]:
        sys.path.insert(0, repo)
    from mpgameserver.auth import Auth
    def once():
        try:
            r = Auth.verify_password(pw, h)
            return "true" if r is True else "false" if r is False else "other:returned %r" % (r,)
        except ValueError:
            return "ValueError"
        except TypeError:
            return "TypeError"
        except MemoryError:
            return "other:MemoryError"
        except Exception as e:
            return "other:%s" % type(e).__name__
    # the verdict is a function of (password, hash string): the same question asked again, in the same process, gets the same answer
    first = once()
    again = once()
    if again != first:
        return "other:answer changes when the same question is asked again (%s, then %s)" % (first, again)
    return first


def run(ctx):
    A = impl.mod("auth")
    ctx.level = "exploration"
    ctx.rule = ("operation space (password class pairs x corruption kinds) enumerated by TLC from Auth.tla, each corruption kind concretised to many strings; "
                "distinct = (password pair, concrete hash string); non-trivial = the passwords differ or the string is corrupted")
    ctx.assumptions += ["scrypt has no practical second pre-images (cryptographic strength is assumed, not modelled)",
                        "a textual variant that parses to the identical (method, version, params, salt+digest) fields is the same hash, not a corruption",
                        "parameter edits are capped so that no call asks scrypt for more than 64 MiB"]
    pws = list(PW) if not ctx.quick else ["empty", "nul", "a", "a_bit", "a_trail", "a_case", "long", "long_tail", "long_plus"]
    consts = "CONSTANTS\n Passwords = {%s}\n Kinds = {%s}\n" % (", ".join('"%s"' % p for p in pws), ", ".join('"%s"' % k for k in KINDS))
    r = ctx.mc("Auth", "SPECIFICATION Spec\n" + consts.replace("Passwords = {%s}" % ", ".join('"%s"' % p for p in pws), 'Passwords = {"a", "a_bit", "empty"}')
               + "INVARIANT FreshSalts\nINVARIANT RightVerifies\nCHECK_DEADLOCK FALSE\n", need=["Hash", "Verify", "VerifyCorrupt"], label="Auth")
    if not r.ok:
        ctx.fail("Auth specification: %s violated" % r.violation["name"], dict(trace=r.trace))
        return
    # verification under faults of the key-derivation step (the 32 MiB scrypt work area can fail to allocate): whatever happens inside, a wrong password
    # is never reported as right - an exception is an acceptable answer, True is not
    holder = A if hasattr(A, "Scrypt") else getattr(A, "scrypt", None)      # `from ... import Scrypt` or `from ... import scrypt`
    KDF = getattr(holder, "Scrypt", None)
    if KDF is not None:
        good = A.Auth.hash_password(PW["a"])
        for nfail in (1, 2, 3, 8):
            for exc in (MemoryError, OSError):
                left = [nfail]

                class Faulty:
                    """stands in for the KDF class (which cannot be subclassed): the first `nfail` uses of any instance raise, later ones are the real thing"""
                    def __init__(s, *a, **k):
                        s.real = KDF(*a, **k)

                    def verify(s, *a, **k):
                        if left[0] > 0:
                            left[0] -= 1
                            raise exc("injected fault in the key derivation")
                        return s.real.verify(*a, **k)

                    def derive(s, *a, **k):
                        if left[0] > 0:
                            left[0] -= 1
                            raise exc("injected fault in the key derivation")
                        return s.real.derive(*a, **k)
                holder.Scrypt = Faulty
                try:
                    for q in ("a_bit", "empty"):
                        left[0] = nfail
                        try:
                            out = A.Auth.verify_password(PW[q], good)
                        except Exception:
                            out = "raised"
                        ctx.case(("fault", nfail, exc.__name__, q))
                        if out is True:
                            ctx.fail("verify_password(%s, hash of 'a') returns True when the key derivation fails %d time(s) with %s" % (q, nfail, exc.__name__),
                                     dict(wrong_password=q, faults=nfail, exception=exc.__name__))
                finally:
                    holder.Scrypt = KDF
    wd = T.workdir("c19")
    try:
        inp = os.path.join(wd, "ops.json")
        g = ctx.mc("Obs_Auth", "INIT GenInit\nNEXT ONext\n" + consts + "CHECK_DEADLOCK FALSE\n", env=dict(OUT_FILE=inp, OBS_FILE=inp), coverage=False, workers=1, count=False, label="Obs_Auth generate")
        if not g.ok:
            raise Machinery("op generation failed: %s" % (g.violation,))
        ops = json.load(open(inp))["ops"]
        # "each has a fresh salt" must not depend on application-visible generator state: the application may seed the global PRNG (a level
        # seed, a test fixture), so the second round of hashes is made from exactly the PRNG state the first round started in
        import random as _random
        _random.seed(ctx.seed)
        st = _random.getstate()
        hashes = {p: A.Auth.hash_password(PW[p]) for p in pws}
        _random.setstate(st)
        hashes2 = {p: A.Auth.hash_password(PW[p]) for p in pws}
        jobs, meta = [], []
        rows = []
        budget = {}   # per kind, keep the corruption sweep against two stored passwords only (each string costs up to 0.1 s)
        for o in ops:
            if o["op"] == "twice":
                rows.append(dict(op="twice", q="", p=o["p"], kind="", out="differ" if hashes[o["p"]] != hashes2[o["p"]] else "same", same=0))
            elif o["op"] == "verify":
                jobs.append((impl.REPO, PW[o["q"]], hashes[o["p"]]))
                meta.append(dict(op="verify", q=o["q"], p=o["p"], kind="", same=0, h=hashes[o["p"]]))
            else:
                # the interesting verifier input for a corrupted hash is the right password (could wrongly say True) and one wrong password
                full = o["q"] == o["p"] and o["p"] in (("a", "nul") if ctx.quick else pws)
                cands = corruptions(hashes[o["p"]], o["kind"], ctx.quick)
                if not full:
                    cands = cands[:1]
                orig = parse_fields(hashes[o["p"]])
                for c in cands:
                    jobs.append((impl.REPO, PW[o["q"]], c))
                    # (a string that differs from the stored one is a corruption even when a lenient base64 reader would extract the same bytes from it)
                    meta.append(dict(op="corrupt", q=o["q"], p=o["p"], kind=o["kind"], same=int(c == hashes[o["p"]]), h=c))
        with ProcessPoolExecutor(16) as ex:
            outs = list(ex.map(_verify, jobs, chunksize=4))
        for m, out in zip(meta, outs):
            rows.append(dict(op=m["op"], q=m["q"], p=m["p"], kind=m["kind"], out=out, same=m["same"]))
            ctx.case((m["q"], m["h"]), nontrivial=m["op"] == "corrupt" or m["q"] != m["p"])
        obs = os.path.join(wd, "obs.json")
        json.dump(rows, open(obs, "w"))
        j = ctx.mc("Obs_Auth", "INIT ObsInit\nNEXT ONext\n" + consts + "INVARIANT RowOK\nINVARIANT Covers\nALIAS Where\nCHECK_DEADLOCK FALSE\n", env=dict(OUT_FILE=inp, OBS_FILE=obs),
                   coverage=False, label="Obs_Auth judge", cont=True)
        ctx.extra.update(abstract_ops=len(ops), concrete_calls=len(jobs), outcomes={k: outs.count(k) for k in set(outs)},
                         textual_variants_with_identical_fields=sum(m["same"] for m in meta))
        ctx.sample(dict(op="verify", q="a_bit", p="a", outcome=[r_["out"] for r_ in rows if r_["op"] == "verify" and r_["q"] == "a_bit" and r_["p"] == "a"]))
        k = next(i for i, m in enumerate(meta) if m["op"] == "corrupt" and m["kind"] == "truncate")
        ctx.sample(dict(op="corrupt", kind="truncate", hash=meta[k + 5]["h"], outcome=outs[k + 5]))
        if not j.ok:
            if j.violation["kind"] != "invariant":
                raise Machinery("judge failed: %s" % j.violation["text"][:1500])
            allrows = rows
            seen = set()
            for tr in j.traces:
                st = to_json(tr[-1]["state"])
                i = st.get("i")
                if i in seen or i is None:
                    continue
                seen.add(i)
                row = st.get("row", {})
                nt = i - 1 - sum(1 for r_ in allrows if r_["op"] == "twice")
                h = meta[nt]["h"] if 0 <= nt < len(meta) and row.get("op") != "twice" else None
                ctx.fail("%s: verify_password(%s, %s of hash_password(%s)) gives %s, specification expects %s%s"
                         % (j.violation["name"], row.get("q"), row.get("kind") or "hash", row.get("p"), row.get("out"), st.get("expected"),
                            (" [hash string %r]" % h) if h is not None else ""), dict(row=row, hash=h, password_hex=PW.get(row.get("q"), b"").hex()[:200]))
    finally:
        shutil.rmtree(wd, ignore_errors=True)


def replay(ctx, doc):
    A = impl.mod("auth")
    c = doc["case"]
    try:
        print(A.Auth.verify_password(bytes.fromhex(c["password_hex"]), c["hash"]))
    except Exception as e:
        print("raises", type(e).__name__, e)

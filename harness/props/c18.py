"""C18 - WebSocket frames round-trip per RFC 6455; TCP segmentation is harmless.

(O) WsFrame!Header is the RFC's rule; the library's serialised header and its parse-back are tabulated for
opcode x mask x payload length and judged by TLC.  (R) WsStream is model-checked for every frame sequence and
every set of cut positions within the bound; every behaviour of its state graph (frames, cuts) is replayed into the
real WebSocketTemporaryHandler and the frames the endpoint receives are compared with the specification after each read.
"""
import json, os, shutil, struct, random
import impl, tlc as T
from tlaval import to_json
from core import Machinery


def run(ctx):
    H = impl.mod("http_server")
    ctx.level = "model_checking"
    ctx.rule = ("frame table: one row per (opcode, mask, payload length); stream machine: one replayed behaviour per (frame lengths, set of cut positions) "
                "path of the TLC state graph; distinct = rows + behaviours; non-trivial = length >= 126 or at least one cut inside a frame")
    ctx.assumptions += ["payload bytes and the XOR masking are exercised with random content by the harness; the specification abstracts them to positions",
                        "frames are final (FIN=1), unfragmented, as the library builds them - except the one scripted fragmented message (open finding ws-continuation-frame-desync)"]
    frame_table(ctx, H)
    stream_machine(ctx, H)
    fragmented_message(ctx, H)


class FakeRequest:
    def __init__(self):
        self.written = b""
        self.chunked = 1

    def write(self, data):
        self.written += data


def frame_table(ctx, H):
    ops = [H.WebSocketOpCode.Text, H.WebSocketOpCode.Binary, H.WebSocketOpCode.Ping, H.WebSocketOpCode.Pong, H.WebSocketOpCode.Close]
    bounds = [0, 1, 2, 124, 125, 126, 127, 128, 129, 255, 256, 257, 1000, 65534, 65535, 65536, 65537, 70000]
    rnd = random.Random(ctx.seed)
    cases = []
    for op in ops:
        for mask in (0, 1):
            for n in bounds:
                cases.append((op, mask, n))
    if ctx.quick:
        for n in list(range(0, 300)) + list(range(65400, 65700, 7)):
            cases.append((H.WebSocketOpCode.Binary, n % 2, n))
    else:
        for n in range(0, 70001):
            cases.append((H.WebSocketOpCode.Binary if n % 3 else H.WebSocketOpCode.Text, n % 2, n))
        for n in list(range(0, 400)) + list(range(65300, 65800)):
            for op in ops:
                cases.append((op, (n + 1) % 2, n))
    rows = []
    # frames are built, written and parsed in batches: several frames are alive at the same time (an application queues frames before it writes them; a
    # reader holds a parsed frame while the next one arrives), and each must keep its own header fields
    BATCH = 5
    rnd.shuffle(cases)                        # so that a batch mixes opcodes, mask flags and length classes
    for b0 in range(0, len(cases), BATCH):
        batch = []
        for op, mask, n in cases[b0:b0 + BATCH]:
            payload = bytes(rnd.getrandbits(8) for _ in range(min(n, 64))) + b"\x41" * max(0, n - 64)
            if op == H.WebSocketOpCode.Text:
                payload = bytes(0x20 + (b % 0x5f) for b in payload)
            fr = H.WebSocketFrame()
            fr.flags.fin = 1
            fr.flags.opcode = op
            fr.flags.mask = mask
            fr.payload = payload
            fr.payload_length = len(payload)
            key = bytes(rnd.getrandbits(8) for _ in range(4))
            fr.masking_key = key
            batch.append(dict(op=op, mask=mask, n=n, payload=payload, fr=fr, key=key))
        # ... and frames built by the library's own constructors (what handler.send / close use): text with multi-byte characters whose BYTE length
        # crosses the 125/126 and 65535/65536 boundaries while the character count does not
        if b0 % (BATCH * 40) == 0:
            for msg in ("", "héllo wörld", "\u00e9" * 62 + "ab", "\u00e9" * 63, "\u00e9" * 100, "\u2713" * 21845, "\u00e9" * 32768, "\U0001f600" * 16384, "x" * 126):
                fr = H.WebSocketFrame.Text(msg)
                data = msg.encode("utf-8")
                batch.append(dict(op=H.WebSocketOpCode.Text, mask=0, n=len(data), payload=data, fr=fr, key=b"\x00\x00\x00\x00"))
            for ctor, op in ((H.WebSocketFrame.Binary, H.WebSocketOpCode.Binary), (H.WebSocketFrame.Ping, H.WebSocketOpCode.Ping), (H.WebSocketFrame.Pong, H.WebSocketOpCode.Pong)):
                data = bytes(rnd.getrandbits(8) for _ in range(rnd.choice([0, 5, 125])))
                batch.append(dict(op=op, mask=0, n=len(data), payload=data, fr=ctor(data), key=b"\x00\x00\x00\x00"))
        for it in batch:                      # every frame of the batch exists before the first one is written
            try:
                it["hdr"] = it["fr"].serializeHeader() + it["fr"].serializeDataHeader()
            except Exception as e:
                ctx.fail("serialising a %s frame of %d bytes raises %s" % (it["op"].name, it["n"], type(e).__name__), dict(op=it["op"].name, mask=it["mask"], n=it["n"]))
                it["hdr"] = None
        for it in batch:
            if it["hdr"] is None:
                continue
            wire_payload = bytes(b ^ it["key"][i % 4] for i, b in enumerate(it["payload"])) if it["mask"] else bytes(it["fr"].payload)
            # what the library itself writes for this frame (its three writers, on a socket that records): header, length / key, and the payload - masked
            # with the frame's key when the mask flag is set (RFC 6455 5.3), whatever the key
            class Sock:
                def __init__(s):
                    s.out = bytearray()

                def sendall(s, d):
                    s.out += bytes(d)
            sk = Sock()
            try:
                it["fr"].writeHeader(sk)
                it["fr"].writeDataHeader(sk)
                it["fr"].writeData(sk)
                written = bytes(sk.out)
            except Exception as e:
                written = b"raised " + type(e).__name__.encode()
            if written != it["hdr"] + wire_payload and it["n"] <= 70000:
                k = next((i for i, (x, y) in enumerate(zip(written, it["hdr"] + wire_payload)) if x != y), min(len(written), len(it["hdr"]) + len(wire_payload)))
                ctx.fail("frame opcode=%d mask=%d length=%d key=%s: the bytes the library writes differ from the RFC 6455 encoding at offset %d (header is %d bytes): written %s, RFC %s"
                         % (it["op"].value, it["mask"], it["n"], it["key"].hex(), k, len(it["hdr"]), written[k:k + 8].hex(), (it["hdr"] + wire_payload)[k:k + 8].hex()),
                         dict(kind="written", opcode=it["op"].value, mask=it["mask"], n=it["n"], key=it["key"].hex()), sig=None)
            buf = H.WebSocketTemporaryRingBuffer(FakeRequest())
            buf._push(it["hdr"] + wire_payload)
            try:
                it["back"] = H.readFrameFactory(buf)()
                it["left"] = len(buf.buf)
            except Exception as e:
                it["back"] = None
        for it in batch:                      # ... and every parsed frame is read only after the last one was parsed
            if it["hdr"] is None:
                continue
            back = it.get("back")
            if back is not None:
                try:
                    pop, pmask, plen = back.flags.opcode.value, back.flags.mask, (back.payload_length if back.payload_length < 2 ** 31 else -2)
                    pok = int(bytes(back.payload) == it["payload"])
                    left = it["left"]
                except Exception:
                    pop, pmask, plen, pok, left = -1, -1, -1, 0, -1
            else:
                pop, pmask, plen, pok, left = -1, -1, -1, 0, -1
            rows.append([it["op"].value, it["mask"], it["n"], list(it["key"]), list(it["hdr"]), pop, pmask, plen, pok, left])
            ctx.case(("frame", it["op"].value, it["mask"], it["n"]), nontrivial=it["n"] >= 126)
    wd = T.workdir("c18")
    try:
        path = os.path.join(wd, "frames.json")
        json.dump(rows, open(path, "w"))
        r = ctx.mc("Obs_WsFrame", "INIT Init\nNEXT Next\nINVARIANT AllOK\nALIAS Where\nCHECK_DEADLOCK FALSE\n", env=dict(OBS_FILE=path), coverage=False,
                   label="Obs_WsFrame", heap="8g", cont=True)
        ctx.extra["frame_rows"] = len(rows)
        ctx.sample(dict(kind="frame_row", columns="opcode,mask,n,key,header,parsed_opcode,parsed_mask,parsed_len,payload_ok,left", row=rows[len(rows) // 2]))
        if not r.ok:
            if r.violation["kind"] != "invariant":
                raise Machinery("frame judge failed: %s" % r.violation["text"][:1500])
            seen = 0
            for tr in r.traces:
                for b in to_json(tr[-1]["state"].get("bad", []))[:4]:
                    seen += 1
                    ctx.fail("frame opcode=%d mask=%d length=%d: library header %s, RFC 6455 header %s; parsed back as opcode=%s mask=%s length=%s payload_ok=%s left=%s"
                             % (b[0], b[1], b[2], b[3], b[4], b[5], b[6], b[7], b[8], b[9]), dict(kind="frame", opcode=b[0], mask=b[1], n=b[2]))
            if not seen:
                ctx.fail("frame table rejected by TLC", dict(text=r.violation["text"][:400]))
    finally:
        shutil.rmtree(wd, ignore_errors=True)


def fragmented_message(ctx, H):
    """A client that fragments a message (RFC 6455 5.4): Text with FIN = 0, then a continuation frame (opcode 0) with FIN = 1, then ordinary frames.  Whatever the
    endpoint is told about the two fragments, the frames BEHIND them are client frames like any other: delivered exactly once, in order, and nothing escapes."""
    def mk(b0, payload, key=b"\x11\x22\x33\x44"):
        return bytes([b0, 0x80 | len(payload)]) + key + bytes(b ^ key[i % 4] for i, b in enumerate(payload))
    stream = mk(0x01, b"Hel") + mk(0x80, b"lo") + mk(0x81, b"next") + mk(0x82, b"bin")
    for cuts in ([len(stream)], [1] * len(stream), [9, 8, len(stream)]):
        delivered = []

        class Endpt:
            @staticmethod
            def callback(ws, opcode, payload):
                delivered.append((opcode, bytes(payload) if isinstance(payload, (bytes, bytearray)) else payload))
        buf = H.WebSocketTemporaryRingBuffer(FakeRequest())
        h = H.WebSocketTemporaryHandler(("h", 1), {}, {}, buf, Endpt)
        p, errs = 0, []
        for n in cuts:
            try:
                h(stream[p:p + n])
            except Exception as e:
                errs.append(type(e).__name__)
            p += n
        tail = [d for d in delivered if d in ((H.WebSocketOpCode.Text, "next"), (H.WebSocketOpCode.Binary, b"bin"))]
        ctx.case(("fragmented", tuple(cuts[:3])))
        if errs or tail != [(H.WebSocketOpCode.Text, "next"), (H.WebSocketOpCode.Binary, b"bin")]:
            ctx.fail("a fragmented client message (Text FIN=0 'Hel', continuation FIN=1 'lo') followed by Text 'next' and Binary 'bin', read in chunks %s: the handler raised %s and delivered %s - "
                     "WebSocketOpCode has no member for opcode 0, parseHeader raises after two bytes were consumed and the stream loses its frame boundaries"
                     % (cuts[:3], sorted(set(errs)) or "nothing", [(getattr(o, "value", o), x) for o, x in delivered]), dict(cuts=cuts[:3], errors=errs[:4]), sig="ws-continuation-frame-desync")
            return


def stream_machine(ctx, H):
    if ctx.quick:
        lens, maxf, maxc = "{0, 1, 3}", 2, 3
    else:
        lens, maxf, maxc = "{0, 1, 3}", 3, 4
    cfg = ("SPECIFICATION Spec\nCONSTANTS\n FrameLens = %s\n MaxFrames = %d\n MaxCuts = %d\nINVARIANT PrefixOnly\nINVARIANT NoLag\nINVARIANT AllWhenDrained\n"
           "PROPERTY Monotone\nCHECK_DEADLOCK FALSE\n" % (lens, maxf, maxc))
    r = ctx.mc("WsStream", cfg, need=["Next"], label="WsStream")
    if not r.ok:
        ctx.fail("WsStream specification: %s violated" % r.violation["name"], dict(trace=r.trace))
        return
    states, edges, init, gr = T.dump_graph("WsStream", cfg.replace("PROPERTY Monotone\n", ""), workers=1)
    if not states:
        raise Machinery("no WsStream graph")
    succ = {}
    for s, _, d in edges:
        succ.setdefault(s, []).append(d)
    # real-size frames too (126- and 127-class), with random cuts, judged by the same rule
    nbeh = [0]
    rnd = random.Random(ctx.seed)

    def replay_path(frames, reads, expect):
        """frames: payload lengths; reads: chunk sizes; expect: delivered count after each read"""
        delivered = []

        nbeh[0] += 0
        active = (len(frames) + len(reads)) % 2 == 1      # every second behaviour is replayed against an endpoint that answers: it sends a message on its first
                                                           # frame and closes the connection itself on its second - the client's later frames are still delivered

        class Endpt:
            @staticmethod
            def callback(ws, opcode, payload):
                delivered.append((opcode, payload))
                if active and len(delivered) == 1:
                    ws.send("got it")
                if active and len(delivered) == 2:
                    ws.close()
        req = FakeRequest()
        buf = H.WebSocketTemporaryRingBuffer(req)
        h = H.WebSocketTemporaryHandler(("h", 1), {}, {}, buf, Endpt)
        stream = b""
        sent = []
        for k, n in enumerate(frames):
            op = H.WebSocketOpCode.Binary if k % 2 == 0 else H.WebSocketOpCode.Text
            payload = bytes(0x30 + rnd.randrange(40) for _ in range(n))
            key = bytes(rnd.getrandbits(8) for _ in range(4))
            b0 = 0x80 | op.value
            if n <= 125:
                hdr = bytes([b0, 0x80 | n])
            elif n <= 65535:
                hdr = bytes([b0, 0x80 | 126]) + struct.pack("!H", n)
            else:
                hdr = bytes([b0, 0x80 | 127]) + struct.pack("!Q", n)
            stream += hdr + key + bytes(b ^ key[i % 4] for i, b in enumerate(payload))
            sent.append((op, payload.decode() if op == H.WebSocketOpCode.Text else payload))
        p = 0
        if expect is None:
            rec = []
            for n in reads:
                chunk = stream[p:p + n]
                p += n
                raised = 0
                try:
                    h(chunk)
                except Exception:
                    raised = 1
                got = [(o, bytes(x) if isinstance(x, (bytes, bytearray)) else x) for o, x in delivered]
                rec.append([n, len(got), int(got == sent[:len(got)]), raised])
            return rec
        for k, (n, exp) in enumerate(zip(reads, expect)):
            chunk = stream[p:p + n]
            p += n
            err = None
            try:
                h(chunk)
            except Exception as e:
                err = "%s: %s" % (type(e).__name__, e)
            got = [(o, bytes(x) if isinstance(x, (bytes, bytearray)) else x) for o, x in delivered]
            if err or got != sent[:exp]:
                return dict(frames=list(frames), reads=list(reads), after_read=k + 1, expected_delivered=exp, got_delivered=len(got),
                            error=err, content_ok=got == sent[:len(got)])
        return None

    def walk(s, frames, reads, expect):
        if len(ctx.violations) > 40:
            return
        if not succ.get(s):
            nbeh[0] += 1
            cut_inside = any(True for _ in reads[:-1])
            ctx.case(("beh", tuple(frames), tuple(reads)), nontrivial=cut_inside)
            bad = replay_path(frames, reads, expect)
            if bad:
                ctx.fail("TCP reads %s of frames with payload lengths %s: after read %d the endpoint has %d frame(s), specification says %d%s"
                         % (bad["reads"], bad["frames"], bad["after_read"], bad["got_delivered"], bad["expected_delivered"],
                            (" (handler raised %s)" % bad["error"]) if bad["error"] else ""), dict(kind="stream", **bad))
            return
        for d in succ[s]:
            st = states[d]
            walk(d, frames, reads + [st["pos"] - states[s]["pos"]], expect + [st["delivered"]])

    import sys
    sys.setrecursionlimit(10000)
    for i in init:
        walk(i, list(states[i]["frames"]), [], [])
        if len(ctx.violations) > 40:
            break
    ctx.traces += nbeh[0]
    ctx.extra["stream_behaviours_replayed"] = nbeh[0]
    ctx.states += gr.distinct
    ctx.transitions += gr.generated
    # (T) real-size frames (126- and 127-length classes among small ones), random TCP chunking: recorded and judged by Trace_WsStream
    ntr = 40 if ctx.quick else 400
    traces = []
    for t in range(ntr):
        nf = rnd.randint(1, 5)
        f = [rnd.choice([0, 1, 3, 125, 126, 127, 130, 200, 1000, 65535, 65536, 70000] if rnd.random() < 0.6 else [0, 1, 2, 3, 5, 20]) for _ in range(nf)]
        total = sum((6 if n <= 125 else 8 if n <= 65535 else 14) + n for n in f)
        ncut = rnd.randint(0, min(8, total - 1))
        ends, acc = [], 0
        for n in f:
            acc += (6 if n <= 125 else 8 if n <= 65535 else 14) + n
            ends.append(acc)
        interesting = sorted(set(x for e in ends for x in (e - 1, e, e + 1, e - 5, e + 2, e + 3, e + 7) if 0 < x < total))
        cuts = sorted(set(rnd.choice(interesting) if interesting and rnd.random() < 0.7 else rnd.randint(1, total - 1) for _ in range(ncut))) if total > 1 else []
        reads = [b - a for a, b in zip([0] + cuts, cuts + [total])]
        rec = replay_path(f, reads, None)
        traces.append(dict(frames=f, reads=rec))
        ctx.case(("trace", tuple(f), tuple(reads)))
    wd = T.workdir("c18t")
    try:
        path = os.path.join(wd, "ws.json")
        json.dump(traces, open(path, "w"))
        r = ctx.mc("Trace_WsStream", "SPECIFICATION TSpec\nINVARIANT AllAtEnd\nALIAS Where\nCHECK_DEADLOCK TRUE\n", env=dict(TRACE_FILE=path), need=["Read"], label="Trace_WsStream")
        if r.ok:
            ctx.traces += ntr
        else:
            st = to_json(T.materialise(r.trace[-1])) if r.trace else {}
            ctx.fail("recorded handler run is not a behaviour of WsStream (%s): frames %s, stuck at read %s = [bytes, delivered, content_ok, raised] %s, specification expects %s delivered"
                     % (r.violation["name"], st.get("frames"), st.get("l"), st.get("ev"), st.get("expected")), dict(kind="stream_trace", state=st))
    finally:
        shutil.rmtree(wd, ignore_errors=True)
    ctx.sample(dict(kind="stream_behaviour", frames=[0, 3], reads=[4, 2, 9], expected_delivered_after_each_read=[0, 1, 2]))


def replay(ctx, doc):
    print(json.dumps(doc["case"]))

"""X02 (extension, beyond the listed properties) - the HTTP router's rate limiter: CacheDict, RollingCounter, RateLimiter.

specs/Lru.tla, specs/RateLimit.tla (+ RateLimitProps.tla).  The specification follows the code statement by statement and names two
deviations as constants (ResetKeepsIndex, CapacityIsAKey).  The check
  1. replays every transition of the TLC state graph into the real objects (virtual clock, no hooks) for each variant of the constants and
     so DETERMINES which variant the code implements - none fitting is a violation;
  2. model-checks what that variant guarantees: the code as it stands satisfies `NeverLimits` (no request is ever refused: the limiter is
     inert), the evident intention satisfies BurstRefused but not SlowClientsPass;
  3. reports the consequences of the variant found as findings (KNOWN_FINDINGS.txt, property X02).
"""
import json
import impl, tlc as T
from tlaval import to_json
from core import Machinery
from graphreplay import replay_graph


class Clock:
    def __init__(self, ms):
        self.ms = ms

    def time(self):
        return self.ms / 1000.0

    def __getattr__(self, n):
        import time as _t
        return getattr(_t, n)


def consts(rk, ck, quick, keys='{"a", "b"}', maxms=None, ins=None):
    return ("CONSTANTS\n Keys = %s\n Limit = 2\n Bins = 4\n BinMs = 10\n CacheLen = 2\n StartMs = 1000\n MaxMs = %d\n Steps = {5, 10, 40}\n MaxInserts = %d\n ResetKeepsIndex = %s\n CapacityIsAKey = %s\n"
            % (keys, maxms or (1060 if quick else 1100), ins or (4 if quick else 5), "TRUE" if rk else "FALSE", "TRUE" if ck else "FALSE"))


def limiter_world(H):
    clock = Clock(1000)
    H.time = clock
    rl = H.RateLimiter(2, 40, 2)          # limit, interval_ms (4 bins of 10 ms), capacity
    rl.counter.cache_len = 2               # the length in effect is the model's CacheLen (the constructor's own argument does not arrive - CapacityIsAKey)
    return dict(rl=rl, clock=clock, H=H)


def limiter_obs(w, over=None):
    rl = w["rl"]
    order = list(rl.counter.keys())
    ctr = {}
    for k in order:
        c = dict.__getitem__(rl.counter, k)
        ctr[k] = (c._current_index, tuple(c._counts)) if hasattr(c, "_counts") else (0, ())
    return (tuple(order), tuple(sorted(ctr.items())), over)


def limiter_apply(w, op):
    kind, a = op
    if kind == "tick":
        w["clock"].ms += a
        return limiter_obs(w)
    try:
        over = bool(w["rl"].insert(a))
        cnt = dict.__getitem__(w["rl"].counter, a)._count
    except Exception as e:
        return ("raised", type(e).__name__)
    return limiter_obs(w, (over, cnt))


def limiter_canon(st):
    st = to_json(st)
    order = tuple(st["order"])
    ctr = tuple(sorted((k, (v["cur"], tuple(v["counts"]))) for k, v in (st["ctr"].items() if isinstance(st["ctr"], dict) else [])))
    last = st["last"]
    return (order, ctr, (bool(last["over"]), last["count"]) if last["op"] == "insert" else None)


def limiter_op(st):
    last = to_json(st["last"])
    return ("tick", last["count"]) if last["op"] == "tick" else ("insert", last["k"])


def run(ctx):
    H = impl.mod("http_server")
    real_time = H.time
    ctx.level = "model_checking"
    ctx.exhaustive = True
    ctx.rule = ("every transition of the TLC state graphs of Lru.tla and RateLimit.tla taken on the real CacheDict / RateLimiter under a virtual clock; "
                "distinct = transitions; non-trivial = insert / set / get transitions")
    ctx.assumptions += ["extension check: not one of the listed properties", "clock range starts beyond Bins * BinMs (any real clock does)"]
    try:
        # ---- CacheDict against Lru.tla
        lc = 'CONSTANTS\n Keys = {"a", "b", "c"}\n Vals = {"x", "y"}\n Cap = 2\n'
        r = ctx.mc("Lru", "SPECIFICATION Spec\n" + lc + "INVARIANT Bounded\nINVARIANT MruSafe\nCHECK_DEADLOCK FALSE\n", need=["Get", "Has"], label="Lru")
        if not r.ok:
            ctx.fail("Lru specification: %s violated" % r.violation["name"], dict(trace=to_json([s["state"] for s in r.trace[-6:]])))
        states, edges, init, g = T.dump_graph("Lru", "SPECIFICATION Spec\n" + lc + "CHECK_DEADLOCK FALSE\n", workers=1)

        def lru_apply(d, op):
            kind, k, v = op
            try:
                res = ""
                if kind == "set":
                    d[k] = v
                elif kind == "get":
                    res = d[k]
                else:
                    res = "yes" if k in d else "no"
            except KeyError:
                res = "KeyError"
            return (tuple(d.keys()), tuple(sorted(dict.items(d))), res)
        n, mm = replay_graph(states, edges, init, lambda: H.CacheDict(cache_len=2), lru_apply,
                             lambda st: (st["last"]["op"], st["last"]["k"], st["last"]["v"]),
                             lambda st: (tuple(st["order"]), tuple(sorted(dict(st["val"]).items())) if st["val"] else (), st["last"]["res"]),
                             on_case=lambda s, op: ctx.case(("lru", s, op), nontrivial=op[0] != "has"))
        ctx.extra["lru_transitions"] = n
        for m in mm[:3]:
            ctx.fail("CacheDict leaves Lru.tla: after %s, %s gives %s; specification allows %s" % (json.dumps(m["path"][-4:]), m["op"], m["observed"], m["allowed"]), m)
        # ---- which variant of RateLimit.tla is the code?
        fits = []
        for rk in (True, False):
            for ck in (True, False):
                cs = consts(rk, ck, ctx.quick)
                states, edges, init, g = T.dump_graph("RateLimit", "SPECIFICATION Spec\n" + cs + "CHECK_DEADLOCK FALSE\n", workers=1)
                if not states:
                    raise Machinery("RateLimit graph dump failed: %s" % (g.violation,))
                n, mm = replay_graph(states, edges, init, lambda: limiter_world(H), limiter_apply, limiter_op, limiter_canon,
                                     on_case=lambda s, op: ctx.case(("rl", rk, ck, s, op), nontrivial=op[0] == "insert"))
                ctx.extra["ratelimit_variant_RK=%s_CK=%s" % (rk, ck)] = dict(transitions=n, mismatches=len(mm), first=mm[0] if mm else None)
                if not mm:
                    fits.append((rk, ck))
        ctx.extra["variants_that_fit_the_code"] = [dict(ResetKeepsIndex=a, CapacityIsAKey=b) for a, b in fits]
        if not fits:
            m = ctx.extra["ratelimit_variant_RK=True_CK=True"]["first"]
            ctx.fail("RateLimiter fits no variant of RateLimit.tla; against the as-built variant: after %s, %s gives %s; specification allows %s"
                     % (json.dumps(m["path"][-4:]), m["op"], m["observed"], m["allowed"]), m)
            return
        rk, ck = fits[0]
        # ---- what the variants guarantee
        a = ctx.mc("RateLimitProps", "SPECIFICATION HSpec\n" + consts(True, True, ctx.quick) + "INVARIANT TypeOK\nINVARIANT NeverLimits\nINVARIANT CountHonest\nCHECK_DEADLOCK FALSE\n",
                   label="as built: NeverLimits")
        if not a.ok:
            raise Machinery("the as-built variant does not satisfy %s (the model no longer shows the finding)" % a.violation["name"])
        one = consts(False, False, ctx.quick, keys='{"a"}', maxms=1160, ins=6)
        small = consts(False, False, ctx.quick, keys='{"a"}', maxms=1090 if ctx.quick else 1130, ins=5 if ctx.quick else 6)
        b = ctx.mc("RateLimitProps", "SPECIFICATION HSpec\n" + small + "INVARIANT TypeOK\nINVARIANT BurstRefused\nINVARIANT CountHonest\nCHECK_DEADLOCK FALSE\n", label="intention: BurstRefused")
        if not b.ok:
            raise Machinery("the intended variant does not satisfy %s" % b.violation["name"])
        c = ctx.mc("RateLimitProps", "SPECIFICATION HSpec\n" + one + "INVARIANT SlowClientsPass\nCHECK_DEADLOCK FALSE\n", label="intention: SlowClientsPass (expected to fail)", count=False, coverage=False)
        ctx.extra["intended_variant_SlowClientsPass"] = "violated (bins are not consecutive in time: 2 requests, a pause of 4 bins, 1 request -> refused)" if not c.ok else "holds"
        ctx.note("RateLimit.tla variant implemented by the code: ResetKeepsIndex=%s CapacityIsAKey=%s" % (rk, ck))
        if rk:
            ctx.fail("RateLimiter never refuses a request (RollingCounter.increment does not store the bin index when it resets): invariant NeverLimits holds in the variant the code implements",
                     dict(variant=dict(ResetKeepsIndex=rk, CapacityIsAKey=ck)), sig="limiter-never-limits")
        elif not c.ok:
            ctx.fail("RateLimiter refuses slow clients: SlowClientsPass is violated in the variant the code implements", dict(trace=to_json([s["state"] for s in c.trace[-8:]])), sig="limiter-overblocks")
        if ck:
            ctx.fail("RateLimiter's capacity argument becomes a dictionary entry 'capacity'; the cache keeps its default length",
                     dict(variant=dict(ResetKeepsIndex=rk, CapacityIsAKey=ck)), sig="capacity-is-a-key")
    finally:
        H.time = real_time


def replay(ctx, doc):
    print(json.dumps(doc["case"], indent=1)[:2000])

"""C03 - AES-GCM nonces never repeat; nothing but the hellos travels in clear.

Design: specs/Nonce.tla model-checked (rate cap + clock => fresh (dir, second, seq)); the control configuration (a ring that wraps
within one second) must fail.  Code: every seal of the real endpoints is observed at the crypto boundary (crypto.encrypt_gcm wrapped
from outside); per emission the premises are clauses of Trace_Conn (B_seq, B_rate, B_sec, B_dir, B_sealed, B_aad) and of the compact
Trace_Nonce on long histories that wrap the counter; global uniqueness of the (key, iv) pairs is judged by TLC on the grouped table.
"""
import json, os, shutil, struct
from concurrent.futures import ProcessPoolExecutor
import tlc as T
import connworld as W
from tlaval import to_json, parse_value
from core import Machinery
from props import conn_judge as J


def design(ctx):
    ok = "SPECIFICATION Spec\nCONSTANTS\n M = 5\n Interval = 1\n TicksPerSecond = 3\n MaxTime = %d\nPROPERTY NoReuse\nINVARIANT NeverZero\nCHECK_DEADLOCK FALSE\n" % (12 if ctx.quick else 14)
    r = ctx.mc("Nonce", ok, label="Nonce M=5 interval=1 second=3 ticks (a wrap takes longer than a second)", need=["Advance", "Emit"])
    if not r.ok:
        ctx.fail("Nonce model: %s violated" % r.violation["name"], dict(trace=r.trace[-8:]))
    ctl = ctx.mc("Nonce", ok.replace("TicksPerSecond = 3", "TicksPerSecond = 8"), label="Nonce control: second=8 ticks (ring wraps within a second)", count=False, coverage=False)
    if ctl.ok:
        raise Machinery("the control configuration of Nonce does not refute NoReuse: the invariant does not rest on the rate cap")
    ctx.extra["control_refuted"] = "NoReuse refuted in %d steps when the ring wraps within one second" % len(ctl.trace)
    if not ctx.quick:
        r2 = ctx.mc("Nonce", "SPECIFICATION Spec\nCONSTANTS\n M = 7\n Interval = 2\n TicksPerSecond = 13\n MaxTime = 28\nPROPERTY NoReuse\nINVARIANT NeverZero\nCHECK_DEADLOCK FALSE\n",
                    label="Nonce M=7 interval=2 second=13 ticks")
        if not r2.ok:
            ctx.fail("Nonce model: %s violated" % r2.violation["name"], dict(trace=r2.trace[-8:]))


def _long(args):
    seed, nticks, start = args[:3]
    tick_us = args[3] if len(args) > 3 else W.TICK_US
    w = W.ConnWorld(start_seq=start, tick_us=tick_us, keepalive=args[4] if len(args) > 4 else None)
    try:
        pol = W.RandomPolicy(seed, p_send=0.0, p_loss=0.05, p_dup=0.02, p_replay=0.0, maxdelay=4)
        import random
        rnd = random.Random(seed)
        # one message per tick and side (so that a datagram leaves at the rate cap), mixed sizes and retry modes, with idle
        # stretches in which only keep-alives carry the counter
        pol.sends = lambda tick, name, world: [] if (tick // 400) % 20 == 7 else [(rnd.choice([4, 20, 300, 1434, 1500]), rnd.choice([0, 0, 1, -1]), False)]
        ev = w.run(pol, nticks, heal_after=None)
        rows = [[0 if e["e"] == "c" else 1, e["now"], e["dseq"], e["sec"], int(e["sealed"]), e["nseals"], e["aadok"], e["toserver"], e["leak"]] for e in ev if e["ev"] == "build"]
        return dict(start=start or 0, rows=rows), list(w.ivs), len(w.seals)
    finally:
        w.close()


def group(ivs):
    g = {}
    for name, iv in ivs:
        magic, ctime, seq, ack = struct.unpack(">4sLHH", iv)
        g.setdefault((magic, seq), []).append([ctime >> 16, ctime & 0xFFFF, ack])
    return list(g.values())


def long_histories(ctx):
    n, nticks = (2, 76000) if ctx.quick else (6, 72000 * 3 + 4000)
    jobs = [(ctx.seed * 100 + i, nticks, [65000, None, 64000, 30000][i % 4]) for i in range(n)]
    # the application polls four times faster than the cap allows: the cap itself has to space the emissions (shorter histories)
    jobs += [(ctx.seed * 100 + 50 + i, 12000 if ctx.quick else 60000, [None, 65300][i % 2], 4100) for i in range(2)]
    # ... and with a keep-alive interval below the send interval (0: "always due" - unusual but settable): the cap must hold whatever is due
    jobs += [(ctx.seed * 100 + 60, 6000 if ctx.quick else 30000, 65400, 4100, 0.0)]
    n = len(jobs)
    with ProcessPoolExecutor(min(n, 8)) as ex:
        res = list(ex.map(_long, jobs))
    wd = T.workdir("c03")
    try:
        # per-emission premises
        path = os.path.join(wd, "rows.json")
        open(path, "w").write(json.dumps([r[0] for r in res]))
        t = T.run("Trace_Nonce", "SPECIFICATION TSpec\nCONSTANTS\n M = 65535\n IntervalUnits = 166\nCHECK_DEADLOCK FALSE\n", env=dict(TRACE_FILE=path), workers=1, heap="8g",
                  timeout=3000, parse_states="last")
        if t.violation or not t.ok:
            raise Machinery("Trace_Nonce failed: %s" % ((t.violation or {}).get("text", t.out[-800:])[:1500]))
        ctx.tlc_runs.append(dict(module="Trace_Nonce", label="Trace_Nonce (%d histories, %d emissions)" % (n, sum(len(r[0]["rows"]) for r in res)), **t.summary()))
        ctx.states += t.distinct
        ctx.transitions += t.generated
        verdicts = 0
        for line in t.printed:
            if line.startswith('"ACCEPT '):
                verdicts += 1
                ctx.traces += 1
            elif line.startswith('"REJECT '):
                verdicts += 1
                st = to_json(parse_value(parse_value(line)[7:]))
                ctx.fail("emission %s of history %s violates premise(s) %s of the nonce argument: row [side, now, dseq, sec, sealed, nseals, aadok, toserver, leak] = %s (previous seq %s, previous emission %s)"
                         % (st["l"], st["tid"], sorted(st["failing"]), st["row"], st["seq"], st["last"]), dict(kind="emission", **st))
        if verdicts != n:
            raise Machinery("Trace_Nonce: %d verdicts for %d histories" % (verdicts, n))
        # global uniqueness on the grouped table, per history (one session key each)
        nseals = 0
        for k, (_, ivs, ns) in enumerate(res):
            nseals += ns
            groups = group(ivs)
            gp = os.path.join(wd, "groups%d.json" % k)
            open(gp, "w").write(json.dumps(groups))
            r = ctx.mc("Obs_Nonce", "INIT Init\nNEXT Next\nINVARIANT NoReuse\nINVARIANT ClockPremise\nALIAS Where\nCHECK_DEADLOCK FALSE\n", env=dict(OBS_FILE=gp), coverage=False,
                       label="Obs_Nonce history %d (%d seals, %d groups, largest %d)" % (k, len(ivs), len(groups), max(len(g) for g in groups)), workers=4, heap="6g")
            if not r.ok:
                bad = to_json(T.materialise(r.trace[-1]).get("bad", [])) if r.trace else []
                ctx.fail("history %d: %s violated - two datagrams sealed with the same (key, nonce): %s" % (k, r.violation["name"], bad[:2]), dict(kind="nonce", groups=bad[:5]))
            ctx.case(("hist", k), nontrivial=True)
        ctx.extra["seals_observed"] = nseals
        ctx.extra["wraps_per_direction"] = round(max(len(r[0]["rows"]) for r in res) / 2 / 65535, 2)
        ctx.evaluations += nseals
        ctx.distinct_n += nseals
        ctx.sample(dict(kind="emission_rows", columns="side,now(100us),dseq,sec,sealed,nseals,aadok,toserver,leak", rows=res[0][0]["rows"][:3]))
    finally:
        shutil.rmtree(wd, ignore_errors=True)


def _slow_handshake(args):
    """Real UdpClient + real server loop with a one-way delay so that the handshake round trip is around the message time-out; the handler greets
    the client from connect(); every datagram the server emits must be sealed (Trace_Server clause A_sealed)."""
    seed, delay_ticks = args
    import srvworld as SW
    w = SW.ServerWorld(seed=seed, conn_timeout=6.0)
    try:
        w.greet = True
        for k in range(3):
            cl = w.add_client(k + 1, ("10.4.0.%d" % k, 6000 + k))
            w.clients[k + 1]["delay"] = delay_ticks + k
            # an impatient application: it sends right after connect(), without waiting for the connect callback (every retry mode, one large payload)
            tag = w.aid(w.clients[k + 1]["addr"]).to_bytes(4, "big")
            cl.send(tag + b"DATAlogin-secret-sent-before-the-handshake-finished", retry=(0, 1, -1)[k])
            if k == 2:
                cl.send(tag + b"DATA" + b"early-large-" * 200, retry=1)
        for t in range(60 * 5):
            if t == 200:
                for k in (1, 2, 3):
                    if w.clients[k]["cl"].connected():
                        w.clients[k]["cl"].send(w.aid(w.clients[k]["addr"]).to_bytes(4, "big") + b"DATAsecret-from-client", retry=-1)
            w.tick()
        w.shutdown()
        return w.ev
    finally:
        w.close()


def run(ctx):
    ctx.level = "model_checking"
    ctx.rule = ("every seal (call of crypto.encrypt_gcm) of both real endpoints is one evaluation; distinct = seals; non-trivial = all (each is checked for the premises "
                "and enters the uniqueness table)")
    ctx.assumptions += ["non-decreasing clock and 32-bit seconds (as the statement says)", "AES-GCM with distinct nonces is secure (cryptographic strength is assumed)",
                        "preset session key; the handshake datagrams are judged by C02 and by the server-world runs"]
    design(ctx)
    long_histories(ctx)
    q = ctx.quick
    # handshakes whose round trip is around the 1 s message time-out (one-way delays 0.4 .. 0.7 s): nothing but the single signed hello in clear
    from concurrent.futures import ProcessPoolExecutor
    from props import srv_judge as SJ
    jobs = [(ctx.seed + d, d) for d in (range(24, 44, 3) if q else range(20, 46))]
    with ProcessPoolExecutor(min(16, len(jobs))) as ex:
        traces = list(ex.map(_slow_handshake, jobs))
    SJ.judge_and_report(ctx, "C03", traces, ["slow-handshake one-way delay %d ticks" % j[1] for j in jobs])
    J.run_scenarios(ctx, "C03", [
        dict(name="rate-cap-mixed", n=3 if q else 24, nticks=700 if q else 3000, heal_after=500 if q else 2500,
             policy=dict(p_send=0.6, p_loss=0.1, maxdelay=8, retries=(0, 1, -1)), world=dict(start_seq="alt")),
        dict(name="idle-keepalives", n=1 if q else 12, nticks=900 if q else 3000, heal_after=700 if q else 2500,
             policy=dict(p_send=0.02, p_loss=0.05), world=dict(start_seq=65520)),
    ])

"""Exhaustive TLC runs of the design model specs/Conn.tla (MC_Conn) for C04, C05, C07, and the deterministic replays of the
two known findings against the real code (scripted environments derived from the model's counterexamples)."""
import connworld as W
from connmodel import cfg
from core import Machinery
from props import conn_judge as J

ALL4 = dict(Pids="{p1, p2, p3, p4}", RetryOf="R_AllPlain", Wp=1, Wm=2, D=2, K=1)


def expect_hold(ctx, label, kw, need=("AppSend", "Tick", "Deliver", "AckIn"), timeout=2400):
    r = ctx.mc("MC_Conn", cfg(**kw), label="Conn " + label, need=need, timeout=timeout)
    if not r.ok:
        ctx.fail("design model Conn (%s): %s %s violated" % (label, r.violation["kind"], r.violation["name"]),
                 dict(model=label, constants=kw, trace=[dict(action=s["action"], state=s["state"]) for s in r.trace[-12:]]))
    return r


def expect_fail(ctx, label, kw, inv):
    """Control configuration: with the code's protection switched off in the model the invariant must fail (vacuity guard)."""
    r = ctx.mc("MC_Conn", cfg(**kw), label="Conn control " + label, count=False, coverage=False, timeout=900)
    if r.ok or r.violation["name"] != inv:
        raise Machinery("control configuration %s did not refute %s (got %s): the model would not notice the defect" % (label, inv, r.violation))
    ctx.extra.setdefault("controls_refuted", []).append("%s: %s refuted in %d steps" % (label, inv, len(r.trace)))
    return r


def c04_models(ctx):
    expect_hold(ctx, "C04 replay: 4 plain messages, Wp=1 Wm=2, loss 1, replay %d" % (1 if ctx.quick else 2),
                dict(ALL4, LossBudget=1, ReplayBudget=1 if ctx.quick else 2), need=("AppSend", "Tick", "Deliver", "Lose"))
    expect_fail(ctx, "StaleDrop=FALSE (stale datagram accepted again)", dict(ALL4, LossBudget=1, ReplayBudget=1, StaleDrop="FALSE"), "AtMostOnce")
    # the known finding in the model: a retransmission older than the message window is delivered twice
    r = ctx.mc("MC_Conn", cfg(Pids="{p1, p2, p3, p4}", RetryOf="R_Plain3", Wp=1, Wm=2, LossBudget=1, ReplayBudget=0, D=2, K=1), label="Conn finding msg-stale-redelivery",
               count=False, coverage=False, timeout=900)
    if r.ok:
        ctx.note("the design model no longer reproduces msg-stale-redelivery with 3 plain + 1 guaranteed message")
    else:
        ctx.extra["model_counterexample_msg_stale_redelivery"] = dict(invariant=r.violation["name"], steps=len(r.trace), actions=[s["action"] for s in r.trace])


def c07_models(ctx):
    expect_hold(ctx, "C07 callbacks: guaranteed + plain, RTT<=5 > resend 2, time-out 6, loss 1",
                dict(D=2, T=6, props=("CbEventually", "Quiesce"), constraint=False), need=("AppSend", "Tick", "Deliver", "AckIn", "Lose", "AckLost"))
    expect_fail(ctx, "RetryOnce=FALSE (one callback per acknowledged datagram)", dict(D=2, T=6, RetryOnce="FALSE"), "CbAtMostOnce")
    if not ctx.quick:
        expect_hold(ctx, "C07 callbacks: guaranteed + best-effort + plain, loss 2", dict(D=1, T=4, LossBudget=2, Pids="{p1, p2, p3}", RetryOf="R_G_B_N",
                                                                                       props=("CbEventually", "Quiesce"), constraint=False))
        expect_hold(ctx, "C07 callbacks: guaranteed + best-effort, RTT<=5, loss 2", dict(D=2, T=6, LossBudget=2, Pids="{p1, p2}", RetryOf="R_G_B",
                                                                                     props=("CbEventually", "Quiesce"), constraint=False))


def c05_models(ctx):
    expect_hold(ctx, "C05 delivery: guaranteed + plain, loss 2 (the same datagram can be lost twice)",
                dict(D=1, T=4, LossBudget=2, props=("Delivery", "Quiesce"), constraint=False), need=("AppSend", "Tick", "Deliver", "AckIn", "Lose", "AckLost"))
    expect_hold(ctx, "C05 delivery: guaranteed + plain, RTT<=5 > resend interval, loss 1", dict(D=2, T=6, props=("Delivery", "Quiesce"), constraint=False))
    if not ctx.quick:
        expect_hold(ctx, "C05 delivery: guaranteed + best-effort + plain, loss 2", dict(D=1, T=4, LossBudget=2, Pids="{p1, p2, p3}", RetryOf="R_G_B_N",
                                                                                    props=("Delivery", "Quiesce"), constraint=False))
        expect_hold(ctx, "C05 delivery: 3 messages, RTT<=5, loss 1", dict(D=2, T=6, Pids="{p1, p2, p3}", RetryOf="R_G_B_N", props=("Delivery", "Quiesce"), constraint=False), timeout=3000)


# ---------------------------------------------------------------- known findings, replayed on the real code at the real constants
def script_msg_stale(_=None):
    """Guaranteed message delivered, every ack lost for > 1 s, > 256 newer messages accepted meanwhile, then the retransmission arrives."""
    w = W.ConnWorld()
    try:
        def sends(tick, name, world):
            if name != "c":
                return []
            if tick == 0:
                return [(20, -1, True)]
            if 1 <= tick <= 45:
                return [(6, 0, False)] * 7
            return []

        def fate(tick, name, dgid, world):
            return [] if (name == "s" and tick < 70) else [0]
        return w.run(W.FnPolicy(sends, fate), 150, heal_after=100, quiesce_ticks=300)
    finally:
        w.close()


def script_ctx_expired(_=None):
    """2-fragment guaranteed payload: every copy of the second fragment is lost for 2 s; an unrelated fragmented message arrives after the 2.0 s expiry and
    sweeps the partly filled context; the third copy then opens a fresh context that can never complete."""
    w = W.ConnWorld()
    try:
        def sends(tick, name, world):
            if name == "c" and tick == 0:
                return [(2000, -1, True)]
            if name == "c" and tick == 121:
                return [(2000, 0, False)]
            return []

        def fate(tick, name, dgid, world):
            b = world.ev[-1]
            carries = b.get("ev") == "build" and any(m["type"] == 7 and m["idx"] == 2 and m["pid"] == 1 for m in b["msgs"])
            if name == "c" and carries:
                return [] if tick < 119 else [8]      # every copy for almost 2 s is lost, the next one is slow
            return [0]
        return w.run(W.FnPolicy(sends, fate), 260, heal_after=200, quiesce_ticks=300)
    finally:
        w.close()


def finding_replay(ctx, mine):
    """Replays the scripted counterexample; the judge must accept it only with the named deviation and must reject it strictly."""
    if mine == "C04":
        name, script, sig, field = "msg-stale-redelivery", script_msg_stale, "msg-stale-redelivery", "staleDup"
    else:
        name, script, sig, field = "frag-context-expired", script_ctx_expired, "frag-context-expired", "d7"
    tr = script()
    rej, r = J.judge(ctx, [tr], "Trace_Conn finding %s (deviation admitted)" % name, stale=True, ctxdev=True)
    used = False
    if rej:
        J.report(ctx, rej, [tr], "scripted replay of " + name, mine)
    for a in r.accepted:
        v = a[field]
        used = bool(v if field == "staleDup" else (v["c"] or v["s"]))
    rej2, _ = J.judge(ctx, [tr], "Trace_Conn finding %s (strict)" % name, stale=False, ctxdev=False)
    strict_rejects = bool(rej2)
    ctx.extra["finding_" + name] = dict(real_code_reproduces=used, strict_judge_rejects=strict_rejects,
                                        strict_clause=rej2[0]["failing"] if rej2 else None, events=len(tr))
    ctx.traces += 1
    if used:
        if not strict_rejects:
            raise Machinery("the strict judge accepts the %s counterexample: it would not notice the defect" % name)
        ctx.fail("scripted counterexample of %s reproduces on the real code (strict judge rejects at clause %s)" % (name, rej2[0]["failing"]),
                 dict(script=name, strict=rej2[0]), sig=sig)
    else:
        ctx.note("the scripted counterexample of %s no longer reproduces on this tree" % name)

"""C11 - hostile datagrams cannot stop the server, hurt other clients or be amplified.

The real server loop in lock-step (harness/srvworld.py) is flooded with random bytes of every length, truncated / oversized genuine
datagrams, valid headers with garbage bodies for every packet type, valid-CRC undecodable hellos, replayed hellos from thousands of
spoofed addresses, for several block lists and MTUs, while an honest canary client keeps issuing requests.  specs/Trace_Server.tla judges
every event: loop alive (A_alive), block list before any processing (A_blocked, A_notblocked), never more bytes to an unproven address than
it sent (A_noamplify), canary requests answered in time (A_echo), and the lifecycle of the honest clients untouched (L_x).
"""
import os, random, struct
from props import srv_judge as SJ


def hostile(args):
    seed, nticks, kw = args
    import srvworld as SW
    import impl
    rnd = random.Random(seed)
    blocklist = kw.get("blocklist", ())
    late = kw.get("late_blocklist", False)
    w = SW.ServerWorld(seed=seed, conn_timeout=3.0, blocklist=() if late else blocklist, mtu=kw.get("mtu"), handler_raise=0.0, echo_deadline=0.6)
    if late:
        # the application configures the block list AFTER it built the server object (the documentation only asks for "before run()"), and replaces it later
        w.set_blocklist({blocklist[0]})
    crc32 = impl.mod("crypto").crc32
    C = w.C
    try:
        w.add_client(1, ("10.2.0.1", 3001))
        w.add_client(2, ("10.2.0.2", 3002))
        blocked_client = None
        if blocklist:
            blocked_client = w.add_client(3, (blocklist[0], 3003))       # an honest program on a block-listed address: must be ignored completely
        rid = 0
        recsize = C.Packet.RECV_SIZE
        lengths = list(range(0, 64)) + [recsize - 1, recsize, recsize + 1, 1472, 1473, 2048, 4096]
        keyed = dict(conn=None, addr=("6.6.200.%d" % (seed % 200 + 1), 4444), stage=0)     # an attacker that does the key exchange honestly and then misbehaves
        for t in range(nticks):
            # -- the half-open keyed attacker: a real hello (so it holds the session key), never the challenge response; instead one datagram typed CHALLENGE_RESP
            #    that bundles a DISCONNECT with a keep-alive, then a tiny refresh now and then so that the half-open entry is not forgotten
            try:
                if t == 20:
                    keyed["conn"] = C.ClientServerConnection(keyed["addr"])
                    keyed["conn"].clock = w.vt.time
                    keyed["conn"]._sendClientHello()
                    w.inject(keyed["conn"]._encode_packet(keyed["conn"]._build_packet()), keyed["addr"], kind="keyed-attacker")
                elif keyed["conn"] is not None and keyed["stage"] == 0 and t > 22:
                    hellos = [d for d in w.sent_to.get(keyed["addr"], []) if len(d) > 12 and d[12] == 2]
                    if hellos:
                        keyed["conn"]._recv_datagram(C.PacketHeader.from_bytes(False, hellos[0]), hellos[0])
                        keyed["stage"] = 1
                elif keyed["stage"] == 1 and keyed["conn"].session_key_bytes:
                    hdr = C.PacketHeader.create(False, int(w.vt.time()), C.PacketType.CHALLENGE_RESP, C.SeqNum(40), C.SeqNum(1), 0)
                    pkt = C.Packet.create(hdr, [C.PendingMessage(C.SeqNum(41), C.PacketType.DISCONNECT, b"", None, C.RetryMode.NONE),
                                                C.PendingMessage(C.SeqNum(42), C.PacketType.KEEP_ALIVE, b"", None, C.RetryMode.NONE)])
                    w.inject(pkt.to_bytes(keyed["conn"].session_key_bytes), keyed["addr"], kind="keyed-attacker")
                    keyed["stage"] = 2
                elif keyed["stage"] == 2 and t % 80 == 0:
                    hdr = C.PacketHeader.create(False, int(w.vt.time()), C.PacketType.CHALLENGE_RESP, C.SeqNum(50 + t // 80), C.SeqNum(1), 0)
                    w.inject(C.Packet.create(hdr, []).to_bytes(keyed["conn"].session_key_bytes), keyed["addr"], kind="keyed-attacker")
            except Exception:
                keyed["stage"] = 9
            if late and t == nticks // 2:
                w.set_blocklist(set(blocklist))
            # canary requests once the clients are connected
            for cid in (1, 2):
                if w.clients[cid]["cl"].connected() and t % 7 == cid:
                    rid += 1
                    w.request(cid, rid)
            n = rnd.randint(0, kw.get("rate", 12))
            for _ in range(n):
                kind = rnd.choice(["random", "random", "hdr-garbage", "crc-hello", "trunc", "oversize", "spoof-hello", "short-hello", "from-client-addr", "hdr-from-client-addr", "blocked"])
                src = ("6.6.%d.%d" % (rnd.randint(0, 255), rnd.randint(0, 255)), rnd.randint(1, 65000))
                if kind == "random":
                    d = bytes(rnd.getrandbits(8) for _ in range(rnd.choice(lengths)))
                elif kind == "hdr-garbage":
                    body = bytes(rnd.getrandbits(8) for _ in range(rnd.randint(0, 200)))
                    hdr = struct.pack(">4sLHHBHBL", b"FSOS", int(w.vt.time()), rnd.randint(0, 65535), rnd.randint(0, 65535), rnd.randint(0, 9), rnd.choice([0, len(body), 65535, 7]),
                                      rnd.choice([0, 1, 2, 255]), rnd.getrandbits(32))
                    d = hdr + body
                elif kind == "crc-hello":
                    body = struct.pack(">H", rnd.randint(1, 65535)) + bytes(rnd.getrandbits(8) for _ in range(rnd.choice([0, 5, 100, 1400])))
                    hdr = struct.pack(">4sLHHBHBL", b"FSOS", int(w.vt.time()), 1, 0, 1, len(body), 1, 0)
                    d = hdr + body
                    d += struct.pack(">L", crc32(d))
                elif kind in ("trunc", "oversize"):
                    pool = [x for ds in w.seen_from.values() for x in ds]
                    if not pool:
                        continue
                    g = rnd.choice(pool)
                    d = g[:rnd.randint(0, len(g))] if kind == "trunc" else g + bytes(rnd.getrandbits(8) for _ in range(rnd.choice([1, 16, 2000])))
                elif kind == "spoof-hello":
                    hellos = [x for ds in w.seen_from.values() for x in ds if len(x) > 12 and x[12] == 1]
                    if not hellos:
                        continue
                    d = rnd.choice(hellos)
                elif kind == "short-hello":
                    # a hello that is well formed in every respect (valid key, version, header length field, CRC) except that most of its padding is missing:
                    # the padding is what keeps the reply smaller than the request
                    hellos = [x for ds in w.seen_from.values() for x in ds if len(x) > 12 and x[12] == 1]
                    if not hellos:
                        continue
                    g = rnd.choice(hellos)
                    keep = rnd.choice([100, 110, 130, 166, 200, 300, 330, 600])
                    body = bytearray(g[:20 + keep])
                    body[13:15] = struct.pack(">H", keep)
                    # (a single-message datagram carries seq(2) + payload, with no inner length field: the header's length field is all there is to adjust)
                    d = bytes(body) + struct.pack(">L", crc32(bytes(body)))
                elif kind == "hdr-from-client-addr":
                    # spoofed source = an established client; well-formed header (any type, any sequence / ack numbers), garbage body
                    body = bytes(rnd.getrandbits(8) for _ in range(rnd.randint(16, 120)))
                    d = struct.pack(">4sLHHBHBL", b"FSOS", int(w.vt.time()), rnd.randint(1, 65535), rnd.randint(0, 65535), rnd.choice([3, 4, 5, 6, 7]), max(0, len(body) - 16),
                                    rnd.choice([0, 1, 2]), rnd.getrandbits(32)) + body
                    src = w.clients[rnd.choice([1, 2])]["addr"]
                elif kind == "from-client-addr":
                    d = bytes(rnd.getrandbits(8) for _ in range(rnd.randint(0, 80)))
                    src = w.clients[rnd.choice([1, 2])]["addr"]
                else:
                    if not blocklist:
                        continue
                    d = bytes(rnd.getrandbits(8) for _ in range(40))
                    src = (rnd.choice(blocklist), rnd.randint(1, 9))
                w.inject(d, src, kind=kind)
            w.tick()
            if not w.th.is_alive():
                break
        w.shutdown()
        return w.ev
    finally:
        w.close()


def small_mtu(args):
    """'for every MTU': the padding of the client hello shrinks with the MTU, the signed server hello does not - what does an address that sends one hello and
    never answers get back?  Returns (mtu, bytes in, bytes out, handshake completes)."""
    seed, mtu = args
    import srvworld as SW
    w = SW.ServerWorld(seed=seed, conn_timeout=3.0, mtu=mtu)
    try:
        addr = ("10.11.0.1", 4100)
        cl = w.add_client(1, addr)
        w.clients[1]["deaf"] = True             # the address never answers
        for t in range(40):
            w.tick()
        nin = sum(len(d) for d in w.seen_from[addr] if len(d) > 12 and d[12] == 1)
        nout = sum(len(d) for d in w.sent_to[addr])
        w.clients[1]["deaf"] = False
        w2 = None
        return mtu, nin, nout
    finally:
        w.close()


def run(ctx):
    ctx.level = "model_checking"
    ctx.rule = ("events of recorded executions of the real server loop under a hostile flood judged by TLC against Trace_Server; distinct = hostile datagrams + datagrams sent + handler events; "
                "non-trivial = every hostile datagram that reaches datagramReceived")
    ctx.assumptions += ["CPU exhaustion by hello floods (each hello costs an EC key generation and a signature) and wall-clock performance are out of scope",
                        "the server loop is driven in lock-step under a virtual clock; sockets and the Twisted reactor are replaced"]
    q = ctx.quick
    from concurrent.futures import ProcessPoolExecutor
    jobs = []
    for i, kw in enumerate([dict(), dict(blocklist=("9.9.9.9",)), dict(mtu=512), dict(blocklist=("9.9.9.9", "6.6.6.6"), mtu=1000), dict(rate=40),
                               dict(blocklist=("9.9.9.9", "6.6.6.6"), late_blocklist=True),
                               # a server bound to "::" sees IPv4 peers in IPv4-mapped form: that is what an operator lists, and what the transport reports
                               dict(blocklist=("::ffff:203.0.113.7", "2001:db8::bad", "FE80:0:0:0:0:0:0:1"), late_blocklist=True)] * (1 if q else 6)):
        jobs.append((ctx.seed * 10 + i, 500 if q else 1500, kw))
    with ProcessPoolExecutor(min(16, len(jobs))) as ex:
        traces = list(ex.map(hostile, jobs))
    SJ.judge_and_report(ctx, "C11", traces, ["hostile#%d(seed=%d,%s)" % (i, j[0], j[2]) for i, j in enumerate(jobs)])
    # amplification at the small end of the MTU range
    mj = [(ctx.seed, m) for m in ((368, 372, 380, 392, 400, 512) if q else list(range(366, 420, 2)) + [512, 576])]
    with ProcessPoolExecutor(min(8, len(mj))) as ex:
        sm = list(ex.map(small_mtu, mj))
    worst = [r for r in sm if r[1] and r[2] > r[1]]
    for r in sm:
        ctx.case(("small-mtu", r[0]))
    ctx.extra["small_mtu_rows"] = [list(r) for r in sm]
    if worst:
        ctx.fail("an address that sends one client hello and never answers is sent more bytes than it sent when the MTU is small: %s [mtu, bytes in, bytes out] - the hello's padding shrinks "
                 "with the MTU, the signed server hello (about 329 bytes) does not" % [list(r) for r in worst[:6]], dict(rows=[list(r) for r in worst]), sig="hello-amplification-at-small-mtu")
    SJ.run_scenarios(ctx, "C11", [dict(name="many-clients-garbage", n=4 if q else 30, nticks=1200 if q else 3000, kw=dict(garbage=0.6, hello_flood=0.05, p_raise=0.0))])

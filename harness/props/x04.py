"""X04 (extension, beyond the listed properties) - Timer and the input pipeline of the pygame engine (delay line, jitter buffer).

specs/Input.tla: three small machines over integer time.  TLC checks NoDrift / ExactDelay / AppliedInOrder / AppliedClocksAscend /
AtMostOnce / DelayedEnough; every transition of each state graph is then taken on the real Timer, InputController and
RemoteInputController (pygame replaced by an inert stand-in module, time values dyadic so that the floats of the code are exact) and the
observable state compared after each step.
"""
import sys, types, json, io, contextlib
import impl, tlc as T
from tlaval import to_json
from core import Machinery
from graphreplay import replay_graph

U = 7680.0      # model time units per second
CONSTS = ("CONSTANTS\n Duration = 960\n Half = 64\n Dts = {120, 240, 840, 2040}\n InputDelay = 2\n NetDelay = 240\n Clocks = {0, 120, 240, 480, 960}\n MaxEvents = %d\n MaxTime = %d\n")


class Inert(types.ModuleType):
    def __getattr__(self, n):
        if n.startswith("__"):
            raise AttributeError(n)
        v = Inert(self.__name__ + "." + n)
        setattr(self, n, v)
        return v

    def __call__(self, *a, **k):
        return Inert("call")

    def __int__(self):
        return 0

    def __index__(self):
        return 0

    def __hash__(self):
        return id(self)


def engine():
    if "pygame" not in sys.modules:
        sys.modules["pygame"] = Inert("pygame")
        for sub in ("pygame._sdl2", "pygame._sdl2.video"):
            sys.modules[sub] = Inert(sub)
    return impl.mod("pylon.engine")


class Entity:
    def __init__(self):
        self.inputs, self.states = [], []

    def onUserInput(self, ev):
        self.inputs.append(ev)

    def setState(self, st):
        if not (isinstance(st, tuple) and st and st[0] == "interp"):
            self.states.append(st)

    def getState(self):
        return ("cur",)

    def update(self, dt):
        pass

    def interpolateState(self, a, b, p):
        return ("interp", p)


class Msg:
    def __init__(self, clock, state):
        self.clock, self.state = clock, state


def units(x, scale=1):
    v = x * U * scale
    if v != int(v):
        return ("inexact", repr(x))
    return int(v)


def run(ctx):
    Tm = impl.mod("timer")
    E = engine()
    ctx.level = "model_checking"
    ctx.exhaustive = True
    ctx.rule = "every transition of the three state graphs of Input.tla taken on the real Timer / InputController / RemoteInputController; distinct = transitions; non-trivial = all"
    ctx.assumptions += ["extension check: not one of the listed properties", "pygame is replaced by an inert stand-in module (the classes bound here do not draw)",
                        "time values are dyadic rationals, so the floating-point arithmetic of the code is exact and comparable with the integer model"]
    ev, mt = (4, 1920) if ctx.quick else (5, 2880)
    c = CONSTS % (ev, mt)
    runs = [("TimerSpec", "INVARIANT NoDrift\nINVARIANT TimerEarlyAtMostHalf\n", c.replace("MaxTime = %d" % mt, "MaxTime = 9600")),
            ("LineSpec", "INVARIANT AppliedInOrder\nINVARIANT ExactDelay\n", c),
            ("RemoteSpec", "INVARIANT AppliedClocksAscend\nINVARIANT AtMostOnce\nINVARIANT NeverDroppedAndApplied\nINVARIANT DelayedEnough\n", c)]
    rc = (CONSTS % (3, 1200)).replace("Dts = {120, 240, 840, 2040}", "Dts = {120, 240, 840}") if ctx.quick else CONSTS % (4, 1920)      # the graph that is walked on the real jitter buffer
    for spec, invs, cs in runs:
        r = ctx.mc("Input", "SPECIFICATION %s\n" % spec + cs + invs + "CHECK_DEADLOCK FALSE\n", label="Input " + spec, coverage=False)
        if not r.ok:
            ctx.fail("Input.tla %s: %s violated" % (spec, r.violation["name"]), dict(trace=to_json([s["state"] for s in r.trace[-8:]])))
            return

    # ---- Timer
    def mk_timer():
        w = dict(fires=0)
        w["t"] = Tm.Timer(960 / U, lambda: w.__setitem__("fires", w["fires"] + 1))
        return w

    def ap_timer(w, op):
        before = w["fires"]
        w["t"].update(op[1] / U)
        return (units(w["t"].elapsed_t), w["fires"], w["fires"] - before)
    g = graph("TimerSpec", runs[0][2])
    n, mm = replay_graph(*g, mk_timer, ap_timer, lambda st: (st["last"]["op"], st["last"]["a"]),
                         lambda st: (st["elapsed"], st["fires"], int(bool(st["last"]["fired"]))), on_case=lambda s, op: ctx.case(("timer", s, op)))
    report(ctx, "Timer", n, mm)

    # ---- InputController (delay line)
    def mk_line():
        ent = Entity()
        return dict(ent=ent, c=E.InputController(None, ent, client=None, input_delay=2, update_interval=1e9))

    def ap_line(w, op):
        if op[0] == "input":
            w["c"].onUserInput(op[1])
        else:
            w["c"].update(1 / 64)
        return (tuple(tuple(x) for x in w["c"].event_queue), tuple(w["ent"].inputs))
    g = graph("LineSpec", c)
    n, mm = replay_graph(*g, mk_line, ap_line, lambda st: (st["last"]["op"], st["last"]["a"]),
                         lambda st: (tuple(tuple(x) for x in st["line"]), tuple(st["applied"])), on_case=lambda s, op: ctx.case(("line", s, op)))
    report(ctx, "InputController", n, mm)

    # ---- RemoteInputController (jitter buffer)
    def mk_remote():
        ent = Entity()
        return dict(ent=ent, c=E.RemoteInputController(ent, input_delay=240 / U), n=0)

    def ap_remote(w, op):
        with contextlib.redirect_stdout(io.StringIO()):
            if op[0] == "receive":
                w["n"] += 1
                w["c"].receiveState(Msg(op[1] / U, w["n"]))
            else:
                w["c"].update(op[1] / U)
        q = sorted((p, i, m.state) for p, i, m in w["c"].state_queue._heap)
        return (units(w["c"].input_clock, 64), tuple((units(p), sid) for p, _i, sid in q), tuple(w["ent"].states))
    g = graph("RemoteSpec", rc)
    n, mm = replay_graph(*g, mk_remote, ap_remote, lambda st: (st["last"]["op"], st["last"]["a"]),
                         lambda st: (st["iclock"], tuple((m["clock"], m["id"]) for m in st["queue"]), tuple(st["setstates"])), on_case=lambda s, op: ctx.case(("remote", s, op)))
    report(ctx, "RemoteInputController", n, mm)


def graph(spec, consts):
    states, edges, init, g = T.dump_graph("Input", "SPECIFICATION %s\n" % spec + consts + "CHECK_DEADLOCK FALSE\n", workers=1)
    if not states:
        raise Machinery("Input graph dump failed for %s: %s" % (spec, g.violation))
    return states, edges, init


def report(ctx, what, n, mm):
    ctx.extra[what + "_transitions"] = n
    ctx.traces += n
    for m in mm[:3]:
        ctx.fail("%s leaves Input.tla: after %s, %s gives %s; specification allows %s" % (what, json.dumps(m["path"][-5:]), m["op"], m["observed"], m["allowed"]), m)


def replay(ctx, doc):
    print(json.dumps(doc["case"], indent=1)[:3000])

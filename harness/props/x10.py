"""X10 (extension, beyond the listed properties) - KeyboardInputDevice of the pygame engine: what the player's keys become before they are sent to the server.

specs/InputDevice.tla: a keyboard of seven keys (two of them configured for UP, two for the same button), the device's memory (`order`, `buttons`) and what each
handle_event call tells the callback.  TLC checks NoDuplicates / OrderIsHeld / DirWellFormed / AllReleasedIsNone; every transition of the state graph is taken on
the real class (pygame replaced by an inert stand-in) and memory + callback events compared.  Two statements one expects of an input device (HeldIsRemembered,
HeldButtonPressed: what is reported is a function of what is held down) fail in the specification the real class follows: reported as findings.
"""
import json, sys
import impl, tlc as T
from tlaval import to_json
from core import Machinery
from graphreplay import replay_graph
from props.x04 import engine

DIRS = {1: (1, 2), 2: (3,), 4: (4,), 8: (5,)}
BTNS = {1: (6, 7)}


def run(ctx):
    E = engine()
    pg = sys.modules["pygame"]
    pg.KEYDOWN, pg.KEYUP = 768, 769
    ctx.level = "model_checking"
    ctx.exhaustive = True
    ctx.rule = "every transition of the state graph of InputDevice.tla taken on the real KeyboardInputDevice; distinct = transitions; non-trivial = all"
    ctx.assumptions += ["extension check: not one of the listed properties", "pygame is replaced by an inert stand-in module; key events are objects with .type and .key"]
    n = 6 if ctx.quick else 8
    c = "CONSTANTS\n MaxOps = %d\n" % n
    r = ctx.mc("InputDevice", "SPECIFICATION Spec\n" + c + "INVARIANT NoDuplicates\nINVARIANT OrderIsHeld\nINVARIANT DirWellFormed\nINVARIANT AllReleasedIsNone\nCHECK_DEADLOCK FALSE\n",
               label="InputDevice MaxOps=%d" % n, coverage=False)
    if not r.ok:
        ctx.fail("InputDevice.tla: %s violated" % r.violation["name"], dict(trace=to_json([s["state"] for s in r.trace[-8:]])))
        return
    expected = {}
    for inv in ("HeldIsRemembered", "HeldButtonPressed"):
        expected[inv] = ctx.mc("InputDevice", "SPECIFICATION Spec\n" + c + "INVARIANT %s\nCHECK_DEADLOCK FALSE\n" % inv, label="InputDevice (expected statement %s)" % inv, count=False, coverage=False)
    states, edges, init, g = T.dump_graph("InputDevice", "SPECIFICATION Spec\n" + c + "CHECK_DEADLOCK FALSE\n", workers=1)
    if not states:
        raise Machinery("graph dump failed: %s" % (g.violation,))
    D = E.Direction

    class Ev:
        def __init__(s, typ, key):
            s.type, s.key = typ, key

    def make():
        w = dict(events=[])

        def cb(ev):
            k = ev.kind.name() if hasattr(ev.kind, "name") and callable(ev.kind.name) else str(ev.kind)
            if "DIRECTION" in k:
                w["events"].append(("dir", ev.direction.value))
            elif "PRESS" in k:
                w["events"].append(("press", ev.button))
            elif "RELEASE" in k:
                w["events"].append(("release", ev.button))
            else:
                w["events"].append(("other", k))
        w["dev"] = E.KeyboardInputDevice({D(d): keys for d, keys in DIRS.items()}, dict(BTNS), cb)
        return w

    def apply(w, op):
        w["events"] = []
        err = ""
        try:
            w["dev"].handle_event(Ev(768 if op[0] == "down" else 769, op[1]))
        except Exception as e:
            err = "%s: %s" % (type(e).__name__, e)
        dev = w["dev"]
        try:
            vec = tuple(dev._getDirectionVector())
            rep = dev._getDirection().value
        except Exception as e:
            vec, rep = None, "%s" % type(e).__name__
        return (tuple(d.value for d in dev.order), tuple(sorted((b, bool(v)) for b, v in dev.buttons.items())), tuple(w["events"]), rep, vec, err)

    def vec_of(d):
        return ((1 if d & 2 else -1 if d & 8 else 0), (-1 if d & 1 else 1 if d & 4 else 0))

    def report(order):
        ud = lr = 0
        for d in order:
            if d in (1, 4) and not ud:
                ud = d
            if d in (2, 8) and not lr:
                lr = d
        return ud + lr

    def canon(st):
        st = to_json(st)
        order = tuple(st["order"])
        btn = st["buttons"]
        buttons = tuple(sorted((int(b), bool(v)) for b, v in (btn.items() if isinstance(btn, dict) else enumerate(btn, 1))))
        rep = report(order)
        return (order, buttons, tuple((e[0], e[1]) for e in st["last"]["events"]), rep, vec_of(rep), "")
    n_tr, mm = replay_graph(states, edges, init, make, apply, lambda st: (st["last"]["op"], st["last"]["key"]), canon, on_case=lambda s, op: ctx.case((s, op)))
    ctx.traces = n_tr
    ctx.extra.update(graph_states=len(states), transitions_taken_on_real_object=n_tr, expected_statements_violated_in_model=[k for k, b in expected.items() if not b.ok])
    for m in mm[:3]:
        ctx.fail("KeyboardInputDevice leaves InputDevice.tla: after %s, %s gives [order, buttons, callback events, direction, vector, error] = %s; specification allows %s"
                 % (json.dumps(m["path"][-6:]), m["op"], m["observed"], m["allowed"]), m)
    if mm:
        return
    if not expected["HeldIsRemembered"].ok:
        tr = [to_json(s["state"]["last"]) for s in expected["HeldIsRemembered"].trace[1:]]
        ctx.fail("KeyboardInputDevice forgets a direction that is still held when two keys are configured for it (W and the up arrow): the KEYUP of either key removes the direction from the "
                 "device's memory and reports the new direction, although the other key is still down - the player keeps the key pressed and the character stops. HeldIsRemembered is violated in "
                 "the specification the real class was found to follow, e.g. %s" % json.dumps(tr), dict(trace=tr), sig="input-direction-lost-with-two-keys")
    if not expected["HeldButtonPressed"].ok:
        tr = [to_json(s["state"]["last"]) for s in expected["HeldButtonPressed"].trace[1:]]
        ctx.fail("KeyboardInputDevice reports BUTTON_RELEASE (and remembers the button as released) when one of two keys configured for the button goes up while the other is still held; a second "
                 "KEYDOWN for a button already pressed reports BUTTON_PRESS again. HeldButtonPressed is violated in the specification the real class was found to follow, e.g. %s" % json.dumps(tr),
                 dict(trace=tr), sig="input-button-released-with-two-keys")


def replay(ctx, doc):
    print(json.dumps(doc["case"], indent=1)[:3000])

"""C09 - reliability-layer property judged on recorded executions (see conn_judge / specs/Trace_Conn.tla)."""
from props import packing, wire
from props import conn_judge as J


def run(ctx):
    ctx.level = "model_checking"
    ctx.rule = ("events of recorded executions of two real endpoints judged by TLC against Trace_Conn; distinct = recv + build events; "
                "non-trivial = every recv/build event (each is checked against the full clause set)")
    wire.run(ctx)
    packing.model(ctx)
    packing.grid(ctx, "C09", [512, 513, 1095, 1096, 1472, 1500] if ctx.quick else list(range(512, 1501, 2)))
    J.run_scenarios(ctx, "C09", scenarios(ctx))


def scenarios(ctx):
    q = ctx.quick
    return [
        dict(name="bursts-of-tiny-messages", n=4 if q else 12, nticks=450 if q else 1200, heal_after=300 if q else 900,
             policy=dict(burst=0.03, p_loss=0.02, lens=[0, 1, 2, 3, 4, 5, 50, 700, 1400], retries=(0, 0, -1, 1), burst_lens=[0, 0, 1]), world=dict(start_seq="alt")),
        dict(name="bursts-resent-after-a-hitch", n=3 if q else 10, nticks=350 if q else 1000, heal_after=250 if q else 750,
             policy=dict(burst=0.04, p_send=0.1, p_loss=0.05, mindelay=14, maxdelay=22, lens=[0, 1, 5], retries=(1, -1), burst_lens=[0, 0, 0, 1], burst_retries=(1, 1, -1), p_stall=0.08),
             world=dict(start_seq="alt")),
        dict(name="bursts-mtu512", n=2 if q else 8, nticks=450 if q else 1200, heal_after=300 if q else 900,
             policy=dict(burst=0.03, p_loss=0.02, retries=(0, -1, 1)), world=dict(start_seq="alt", mtu=512)),
        dict(name="mixed-mtu1096", n=2 if q else 8, nticks=600 if q else 1200, heal_after=400 if q else 900,
             policy=dict(p_send=0.5, p_loss=0.05), world=dict(start_seq="alt", mtu=1096)),
    ]

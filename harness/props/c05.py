"""C05 - reliability-layer property judged on recorded executions (see conn_judge / specs/Trace_Conn.tla)."""
from props import packing
from props import conn_judge as J, conn_model as CM


def run(ctx):
    ctx.level = "model_checking"
    ctx.rule = ("events of recorded executions of two real endpoints judged by TLC against Trace_Conn; distinct = recv + build events; "
                "non-trivial = every recv/build event (each is checked against the full clause set)")
    CM.c05_models(ctx)
    CM.finding_replay(ctx, "C05")
    packing.model(ctx)
    packing.grid(ctx, "C05", sorted(set(range(512, 1501, 24)) | {512, 513, 576, 600, 1280, 1472, 1499, 1500} | set(range(1090, 1101))) if ctx.quick else list(range(512, 1501)))
    if not ctx.quick:
        J.schedule_sweep(ctx, "C05", True)
    J.run_scenarios(ctx, "C05", scenarios(ctx))
    starvation(ctx)


def starvation(ctx):
    """"Every interleaving with other traffic": a guaranteed message of the largest single-datagram size is queued while the application keeps sending one small
    guaranteed message per frame over a lossless link whose round trip exceeds the resend interval.  Datagrams leave on every frame; the queued message must be
    on one of them within a bounded time (here: two seconds), not only once the other traffic pauses."""
    from connworld import ConnWorld, FnPolicy
    for one_way in (6, 4):                      # ticks: 100 ms and 67 ms one way
        for big in ("max", "max-34"):
            w = ConnWorld()
            try:
                P = w.C.Packet
                ln = P.MAX_PAYLOAD_SIZE if big == "max" else P.MAX_PAYLOAD_SIZE - 34
                pol = FnPolicy(fate=lambda *a: [one_way])

                def sends(tick, name, world):
                    out = []
                    if name == "c" and tick < 330:
                        out.append((20, -1, False))
                    if name == "c" and tick == 30:
                        out.append((ln, -1, True))
                    return out
                pol._s = sends
                w.run(pol, 420)
                big_pid = next(e["pid"] for e in w.ev if e["ev"] == "send" and e["len"] == ln)
                sent_at = next((e["now"] for e in w.ev if e["ev"] == "build" and e["e"] == "c" and any(m["pid"] == big_pid for m in e["msgs"])), None)
                t30 = [e["now"] for e in w.ev if e["ev"] == "build" and e["e"] == "c"][30]
                ctx.case(("starvation", one_way, big))
                ctx.evaluations += 1
                waited = None if sent_at is None else (sent_at - t30) / 1e4
                if sent_at is None or waited > 2.0:
                    ctx.fail("a guaranteed message of %d bytes queued while one 20-byte guaranteed message per frame keeps being sent over a lossless link with %d ms one-way delay %s: "
                             "_build_packet_impl packs the retries that are due first and skips a queued message that no longer fits, and with a round trip above the resend interval a retry is due on every frame"
                             % (ln, one_way * 1000 // 60, "was never put on the wire in 6.5 s" if sent_at is None else "waited %.2f s for its first datagram (it left when the other traffic paused)" % waited),
                             dict(one_way_ticks=one_way, length=ln, first_datagram_after_s=waited), sig="large-message-starved-by-retries")
            finally:
                w.close()


def scenarios(ctx):
    q = ctx.quick
    return [
        dict(name="guaranteed-lossy", n=6 if q else 40, nticks=1000 if q else 3000, heal_after=600 if q else 2400,
             policy=dict(p_loss=0.2, p_dup=0.05, retries=(-1, -1, -1, 0), maxdelay=10), world=dict(start_seq="alt")),
        dict(name="guaranteed-mtu576", n=3 if q else 20, nticks=900 if q else 2500, heal_after=600 if q else 2000,
             policy=dict(p_loss=0.15, retries=(-1, -1, 0)), world=dict(start_seq="alt", mtu=576)),
        dict(name="guaranteed-fragments", n=4 if q else 30, nticks=1000 if q else 3000, heal_after=600 if q else 2400,
             policy=dict(p_send=0.2, p_loss=0.12, retries=(-1,), lens=[1500, 2000, 2451, 2452, 3000, 3500, 5000, 100]), world=dict(start_seq="alt")),
        # one direction dark for 1.5 .. 3.5 s - longer than two ack time-outs, shorter than the 5 s silence limit - then healed: every guaranteed message still arrives
        dict(name="guaranteed-across-outages", n=4 if q else 24, nticks=1100 if q else 3000, heal_after=800 if q else 2400,
             policy=dict(p_send=0.08, p_loss=0.03, p_outage=0.004, outage_len=(90, 210), retries=(-1, -1, 0), lens=[0, 1, 100, 1433, 1434, 1435, 3000]), world=dict(start_seq="alt")),
        # applications whose callbacks raise (a strict `assert ok` on an unretried neighbour): the guaranteed message that shared its datagrams still arrives
        dict(name="guaranteed-with-raising-callbacks", n=3 if q else 16, nticks=900 if q else 2500, heal_after=600 if q else 2000,
             policy=dict(p_send=0.6, p_loss=0.1, p_outage=0.006, outage_len=(70, 130), p_cb=1.0, retries=(1, -1, 1, -1, 0), lens=[4, 20, 100, 600]), world=dict(start_seq="alt", cb_raise=0.5)),
        # a lost guaranteed message whose retransmission arrives behind a burst of more than 256 newer messages (the width of the message window)
        dict(name="guaranteed-under-bursts", n=4 if q else 10, nticks=900 if q else 1500, heal_after=600 if q else 1100,
             policy=dict(p_send=0.15, p_loss=0.2, retries=(-1,), lens=[4, 20, 600, 1500], burst=0.03, burst_lens=(4, 4, 5), burst_retries=(0,), maxdelay=4), world=dict(start_seq="alt")),
    ]

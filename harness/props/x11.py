"""X11 (extension, beyond the listed properties) - the primitives of mpgameserver/crypto.py that C01-C03 take for granted.

specs/Crypto.tla: a Dolev-Yao term algebra (key pairs, ECDH + HKDF key derivation with a salt, ECDSA signatures, AES-GCM boxes); TLC checks the laws the handshake
relies on (Agreement, KeySeparation, SigBinds) and enumerates the operation space; every operation is executed on the real functions (ecdh_client / ecdh_server with
the salt the server drew, sign / verify with tampered signatures and messages, encrypt_gcm / decrypt_gcm with every tamper kind at several lengths incl. the empty
plaintext, key serialisation in five forms, ecc_asym_*), and TLC judges the outcomes.  Level: exploration.
"""
import json, os, shutil
import impl, tlc as T
from tlaval import to_json
from core import Machinery

MSGS = {"m1": b"hello", "m2": b"hellp", "empty": b""}


def run(ctx):
    X = impl.mod("crypto")
    ctx.level = "exploration"
    ctx.rule = "operation space of Crypto.tla enumerated by TLC, each operation executed on the real functions; distinct = operations; non-trivial = all"
    ctx.assumptions += ["extension check: not one of the listed properties", "cryptographic strength (ECDH, HKDF, ECDSA, AES-GCM) is assumed; the check establishes how the code uses the primitives"]
    lens = [0, 1, 16, 17, 1400] if ctx.quick else [0, 1, 2, 15, 16, 17, 31, 32, 33, 255, 1400, 70000]
    consts = "CONSTANTS\n Keys = {\"k1\", \"k2\", \"k3\"}\n Salts = {\"s\", \"t\"}\n Msgs = {\"m1\", \"m2\", \"empty\"}\n Lens = {%s}\n" % ", ".join(map(str, lens))
    wd = T.workdir("x11")
    try:
        inp = os.path.join(wd, "ops.json")
        g = ctx.mc("Crypto", "INIT GenInit\nNEXT ONext\n" + consts + "INVARIANT Laws\nCHECK_DEADLOCK FALSE\n", env=dict(OUT_FILE=inp, OBS_FILE=inp), coverage=False, workers=1, label="Crypto laws + generate")
        if not g.ok:
            if g.violation and g.violation["kind"] == "invariant":
                ctx.fail("Crypto.tla: a law of the algebra fails", dict(text=g.violation["text"][:400]))
                return
            raise Machinery("generation failed: %s" % (g.violation,))
        ops = json.load(open(inp))["ops"]
        K = {k: X.EllipticCurvePrivateKey.new() for k in ("k1", "k2", "k3")}
        rows = []
        for o in ops:
            out = "?"
            try:
                if o["op"] == "ecdh":
                    salt, ks = X.ecdh_server(K[o["b"]], K[o["pa"]].getPublicKey())
                    kc = X.ecdh_client(K[o["a"]], K[o["pb"]].getPublicKey(), salt if o["same_salt"] else bytes(b ^ 1 for b in salt))
                    salt2, ks2 = X.ecdh_server(K[o["b"]], K[o["pa"]].getPublicKey())
                    if salt2 == salt or ks2 == ks or len(ks) != 16 or len(salt) < 8:
                        out = "server salt / key not fresh or wrong size"
                    else:
                        out = "equal" if kc == ks else "differ"
                elif o["op"] == "sign":
                    sig = K[o["k"]].sign(MSGS[o["m"]])
                    t = o["tamper"]
                    if t == "flip":
                        sig = sig[:-3] + bytes([sig[-3] ^ 4]) + sig[-2:]
                    elif t == "truncate":
                        sig = sig[:-1]
                    elif t == "empty":
                        sig = b""
                    elif t == "other-msg-sig":
                        sig = K[o["k"]].sign(MSGS[o["m"]] + b"x")
                    try:
                        r = K[o["kv"]].getPublicKey().verify(sig, MSGS[o["mv"]])
                        out = "ok" if r is None else "returned %r" % (r,)
                    except X.EllipticCurvePublicKey.InvalidSignature:
                        out = "reject"
                elif o["op"] == "seal":
                    key, iv, aad = b"K" * 16, b"N" * 12, b"header-of-twenty-byt"
                    data = bytes((7 * i) & 255 for i in range(o["len"]))
                    box = X.encrypt_gcm(key, iv, aad, data)
                    if len(box) != len(data) + 16 or (data and data[:8] in box and len(data) >= 8):
                        out = "box has the wrong size or shows the plaintext"
                    else:
                        t = o["tamper"]
                        k2, iv2, aad2, b2 = key, iv, aad, box
                        if t == "key":
                            k2 = b"K" * 15 + b"L"
                        elif t == "iv":
                            iv2 = b"N" * 11 + b"O"
                        elif t == "aad":
                            aad2 = aad[:-1] + b"u"
                        elif t == "ct-bit":
                            p = max(0, len(box) - 17)
                            b2 = box[:p] + bytes([box[p] ^ 1]) + box[p + 1:]
                        elif t == "first-bit":
                            b2 = bytes([box[0] ^ 0x80]) + box[1:]
                        elif t == "tag-bit":
                            b2 = box[:-1] + bytes([box[-1] ^ 1])
                        elif t == "truncate-1":
                            b2 = box[:-1]
                        elif t == "truncate-tag":
                            b2 = box[:-16]
                        elif t == "extend":
                            b2 = box + b"\x00"
                        elif t == "empty":
                            b2 = b""
                        try:
                            r = X.decrypt_gcm(k2, iv2, aad2, b2)
                            out = "same" if r == data and t == "none" else "opened as %d bytes" % len(r)
                        except Exception:
                            out = "reject"
                elif o["op"] == "keyser":
                    k = K[o["k"]]
                    f = o["form"]
                    probe = b"probe-" + f.encode()
                    if f == "priv-der":
                        k2 = X.EllipticCurvePrivateKey.fromBytes(k.getBytes())
                        k2.getPublicKey().verify(k.sign(probe), probe), k.getPublicKey().verify(k2.sign(probe), probe)
                        out = "same" if k2.getPublicKey().getBytes() == k.getPublicKey().getBytes() else "another key"
                    elif f == "priv-pem":
                        k2 = X.EllipticCurvePrivateKey.fromPEM(k.getPrivateKeyPEM())
                        k.getPublicKey().verify(k2.sign(probe), probe)
                        out = "same" if k2.getPublicKey().getBytes() == k.getPublicKey().getBytes() else "another key"
                    elif f == "pub-der":
                        p2 = X.EllipticCurvePublicKey.fromBytes(k.getPublicKey().getBytes())
                        p2.verify(k.sign(probe), probe)
                        out = "same" if p2.getBytes() == k.getPublicKey().getBytes() else "another key"
                    elif f == "pub-pem":
                        p2 = X.EllipticCurvePublicKey.fromPEM(k.getPublicKey().getPublicKeyPEM())
                        p2.verify(k.sign(probe), probe)
                        out = "same" if p2.getBytes() == k.getPublicKey().getBytes() else "another key"
                    else:
                        from cryptography.hazmat.primitives.asymmetric import ec
                        p2 = X.EllipticCurvePublicKey.uncompress(ec.SECP256R1(), k.getPublicKey().compress())
                        p2.verify(k.sign(probe), probe)
                        out = "same" if p2.getBytes() == k.getPublicKey().getBytes() else "another key"
                elif o["op"] == "asym":
                    shared, peer = X.ecc_asym_encrypt_key(K[o["k"]].getPublicKey())
                    shared2, peer2 = X.ecc_asym_encrypt_key(K[o["k"]].getPublicKey())
                    back = X.ecc_asym_decrypt_key(K[o["kd"]], peer)
                    out = "not fresh" if shared == shared2 or peer == peer2 else "equal" if back == shared else "differ"
            except Exception as e:
                out = "raised %s: %s" % (type(e).__name__, str(e)[:80])
            rows.append(dict(out=out))
            ctx.case(json.dumps(o, sort_keys=True))
        obs = os.path.join(wd, "obs.json")
        json.dump(rows, open(obs, "w"))
        j = ctx.mc("Crypto", "INIT ObsInit\nNEXT ONext\n" + consts + "INVARIANT RowOK\nINVARIANT Complete\nALIAS Where\nCHECK_DEADLOCK FALSE\n", env=dict(OUT_FILE=inp, OBS_FILE=obs), coverage=False,
                   label="Crypto judge (%d operations)" % len(ops), cont=True, workers=4)
        outs = {}
        for o, r in zip(ops, rows):
            outs[o["op"] + ":" + r["out"][:20]] = outs.get(o["op"] + ":" + r["out"][:20], 0) + 1
        ctx.extra.update(operations=len(ops), outcomes=outs)
        ctx.sample(dict(op=ops[0], observed=rows[0]["out"]))
        if not j.ok:
            if j.violation["kind"] != "invariant":
                raise Machinery("judge failed: %s" % j.violation["text"][:1500])
            seen = set()
            for tr in j.traces:
                st = to_json(tr[-1]["state"])
                if st.get("i") in seen:
                    continue
                seen.add(st.get("i"))
                ctx.fail("crypto.py leaves Crypto.tla: %s gives %s, the algebra expects %s" % (json.dumps(st.get("op"), sort_keys=True), st.get("observed"), st.get("expected")), dict(op=st.get("op"), observed=st.get("observed")))
    finally:
        shutil.rmtree(wd, ignore_errors=True)


def replay(ctx, doc):
    print(json.dumps(doc["case"], indent=1)[:3000])

"""C04 - at-most-once delivery: duplicates, replays and retransmissions are dropped."""
from props import conn_judge as J, conn_model as CM


def scenarios(ctx):
    q = ctx.quick
    return [
        dict(name="replay-heavy", n=6 if q else 40, nticks=900 if q else 2500, heal_after=600 if q else 2000,
             policy=dict(p_replay=0.15, p_dup=0.15, p_loss=0.05, replay_back=400, maxdelay=12), world=dict(start_seq="alt")),
        dict(name="reorder-long-delay", n=4 if q else 30, nticks=900 if q else 2500, heal_after=600 if q else 2000,
             policy=dict(p_replay=0.03, p_dup=0.2, p_loss=0.1, maxdelay=50, retries=(0, -1, 1, 1)), world=dict(start_seq="alt")),
        dict(name="many-small-messages", n=3 if q else 20, nticks=700 if q else 2000, heal_after=500 if q else 1600,
             policy=dict(p_send=0.8, p_replay=0.1, p_dup=0.1, lens=[4, 4, 5, 9, 20], replay_back=300, retries=(0, 1, -1)), world=dict(start_seq="alt")),
    ]


def run(ctx):
    ctx.level = "model_checking"
    ctx.rule = ("events of recorded executions of two real endpoints judged by TLC against Trace_Conn; distinct = recv + build events; "
                "non-trivial = every recv/build event (each is checked against the full clause set)")
    CM.c04_models(ctx)
    CM.finding_replay(ctx, "C04")
    J.lateness_sweep(ctx, "C04", list(range(30, 36)) if ctx.quick else list(range(1, 45)), starts=(None, 65520))
    J.gap_sweep(ctx, "C04", list(range(30, 37)) if ctx.quick else list(range(20, 70)))
    J.after_disconnect(ctx, "C04")
    if not ctx.quick:
        J.schedule_sweep(ctx, "C04", True)
    J.run_scenarios(ctx, "C04", scenarios(ctx))
    # the last hop: from the connection's queue to the application's handler, in the real server loop, with handlers that raise (clause L_once of Trace_Server)
    from props import srv_judge as SJ
    q = ctx.quick
    SJ.run_scenarios(ctx, "C04", [dict(name="server-loop-hand-over", n=4 if q else 24, nticks=900 if q else 2500, kw=dict(nclients=4, p_raise=0.15, p_send=0.3, reuse_addr=0.2, replay=0.05))])

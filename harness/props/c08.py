"""C08 - sequence-number ring and receive-window bookkeeping are exact.

TLC: ring laws on every pair of positions for small rings (MC_SeqRing); the window structure against a
mathematical ghost for every insertion history within the bound (BitWindow), small rings/windows and the real
ring with W=8.  Binding: (R) every transition TLC explored at M=65535/W=8 is replayed into the real BitField;
simulation walks at W in {16,32,64,256} are replayed step by step; (T) long random histories of the real
BitField are validated by Trace_BitWindow; (O) a table of real SeqNum results at M=65535 is judged by TLC
against the SeqRing operators and their mathematical meaning.
"""
import json, os, random, shutil
import impl, tlc as T
from tlaval import parse_value
from core import Machinery

M_REAL = 65535


def run(ctx):
    C = impl.mod("connection")
    ctx.level = "model_checking"
    ctx.assumptions += ["numbers compared are less than half the ring apart (the statement's own range)",
                        "BitField widths are multiples of 8 (constructor contract); small widths are design-level only"]
    ctx.rule = ("distinct = distinct (window state, inserted number) transitions replayed into BitField + distinct SeqNum "
                "(a, b, k) rows judged; non-trivial = the insert is not the first one / the row crosses the wrap or the half-ring boundary")
    M_code = int(C.SeqNum._max_sequence)
    ring_laws(ctx)
    apalache_ring(ctx)
    window_model(ctx)
    replay_transitions(ctx, C, M_code)
    replay_walks(ctx, C, M_code)
    trace_validation(ctx, C, M_code)
    seqnum_table(ctx, C, M_code)
    ack_fields(ctx)
    from props import conn_judge as J
    J.after_disconnect(ctx, "C08")


# ------------------------------------------------------------------ design: ring laws
def ring_laws(ctx):
    for M in ([7, 15] if ctx.quick else [7, 8, 15, 31, 63]):
        cfg = "INIT Init\nNEXT Next\nCONSTANT M = %d\nINVARIANT NeverZero\nINVARIANT AddExact\nINVARIANT DiffExact\nINVARIANT OrderExact\nCHECK_DEADLOCK FALSE\n" % M
        r = ctx.mc("MC_SeqRing", cfg, label="MC_SeqRing M=%d" % M)
        if not r.ok:
            ctx.fail("ring law %s fails for M=%d" % (r.violation["name"], M), dict(trace=r.trace))


def apalache_ring(ctx):
    """The same laws at the real ring size for ALL positions at once, symbolically (Apalache + Z3, specs/ApaSeqRing.tla).  Reported separately;
    a tool failure or time-out is a note, not a verdict (DESIGN.md section 5)."""
    import subprocess, shutil, tempfile, time
    if not shutil.which("apalache-mc"):
        ctx.note("apalache-mc not found: symbolic ring-law check skipped")
        return
    out = tempfile.mkdtemp(prefix="apa-", dir=T.WORK_ROOT if os.path.isdir(T.WORK_ROOT) else None)
    t0 = time.time()
    try:
        p = subprocess.run(["apalache-mc", "check", "--init=Init", "--next=Next", "--inv=All", "--length=0", "--out-dir=" + out, os.path.join(T.SPECS, "ApaSeqRing.tla")],
                           stdout=subprocess.PIPE, stderr=subprocess.STDOUT, timeout=420, cwd=out)
        txt = p.stdout.decode("utf-8", "replace")
        if "The outcome is: NoError" in txt:
            ctx.extra["apalache_ring_laws"] = "NeverZero, AddExact, DiffExact, OrderExact hold for all positions p, q in three laps with |p-q| <= 32767 and all k in 0..65535 at M = 65535 (symbolic, %.0f s)" % (time.time() - t0)
        elif "The outcome is: Error" in txt:
            ctx.fail("ring laws refuted symbolically by Apalache at M=65535 (specs/ApaSeqRing.tla)", dict(output=txt[-1500:]))
        else:
            ctx.note("Apalache gave no verdict (%s)" % txt[-200:].replace("\n", " "))
    except subprocess.TimeoutExpired:
        ctx.note("Apalache timed out after 420 s: symbolic ring-law check skipped")
    finally:
        shutil.rmtree(out, ignore_errors=True)


# ------------------------------------------------------------------ design: window vs mathematical ghost
def _bw_cfg(M, W, start, span, reach, props=True, view=False):
    s = "SPECIFICATION Spec\nCONSTANTS\n M = %d\n W = %d\n Start = %d\n Span = %d\n Reach = %d\n" % (M, W, start, span, reach)
    s += "INVARIANT WindowExact\nINVARIANT ContainsExact\nINVARIANT StaleOnlyBeyondWindow\n"
    if props:
        s += "PROPERTY DupExact\n"
    if view:
        s += "VIEW NoLast\n"
    s += "CHECK_DEADLOCK FALSE\n"
    return s


def window_model(ctx):
    combos = [(7, 2), (15, 3)] if ctx.quick else [(7, 2), (15, 2), (15, 3), (15, 4), (31, 3), (31, 4)]
    for M, W in combos:
        half = (M - 1) // 2
        reach = min(W + 2, half)
        r = ctx.mc("BitWindow", _bw_cfg(M, W, M - 2, M + 4, reach), label="BitWindow M=%d W=%d" % (M, W),
                   need=["InsertFirst", "InsertAdvance", "InsertFill", "InsertDup"] + (["InsertStale"] if reach > W else []))
        if not r.ok:
            ctx.fail("window invariant %s fails for M=%d W=%d" % (r.violation["name"], M, W), dict(trace=r.trace))


# ------------------------------------------------------------------ (R) every transition at the real ring, W = 8
def replay_transitions(ctx, C, M_code):
    W = 8
    starts = [1, 65530] if ctx.quick else [1, 32760, 65520, 65530]
    for start in starts:
        span, reach = (12, 10) if ctx.quick else (16, 11)
        cfg = _bw_cfg(M_REAL, W, start, span, reach, props=False, view=True).replace("SPECIFICATION Spec", "SPECIFICATION GSpec") + "CONSTANT Emit = TRUE\n"
        r = ctx.mc("Gen_BitWindow", cfg, label="Gen_BitWindow start=%d" % start, workers=1,
                   need=["GInsertAdvance", "GInsertFill", "GInsertDup", "GInsertStale"])
        if not r.ok:
            ctx.fail("window invariant %s fails at the real ring (start %d)" % (r.violation["name"], start), dict(trace=r.trace))
            continue
        n = 0
        for line in r.printed:
            if not line.startswith('<<"tr"'):
                continue
            _, cur, bits, s, out, cur2, bits2 = parse_value(line)
            n += 1
            bf = C.BitField(W)
            bf.current_seqnum = C.SeqNum(cur)
            bf.bits = impl.from_offsets(bits, W)
            raised = False
            try:
                bf.insert(C.SeqNum(s))
            except C.DuplicationError:
                raised = True
            got = (raised, int(bf.current_seqnum), impl.offsets(bf.bits, W))
            exp = (out == "dup", cur2, sorted(bits2))
            ctx.case(("tr", cur, tuple(sorted(bits)), s), nontrivial=cur != 0)
            if got != exp:
                ctx.fail("BitField.insert differs from BitWindow on transition (cur=%d bits=%s insert %d): expected %s got %s"
                         % (cur, sorted(bits), s, exp, got),
                         dict(kind="transition", W=W, cur=cur, bits=sorted(bits), s=s, expected=exp, got=got))
            # contains() on the resulting window for the neighbourhood
            for probe_off in range(-2, W + 3):
                p = int(C.SeqNum(cur2) - probe_off) if probe_off > 0 else int(C.SeqNum(cur2) + (-probe_off)) if probe_off < 0 else cur2
                expc = probe_off == 0 or (probe_off > 0 and probe_off in bits2)
                if bool(bf.contains(C.SeqNum(p))) != expc:
                    ctx.fail("BitField.contains(%d) on window (cur=%d bits=%s) is %s, specification says %s"
                             % (p, cur2, sorted(bits2), not expc, expc),
                             dict(kind="contains", W=W, cur=cur2, bits=sorted(bits2), probe=p))
            if n <= 2:
                ctx.sample(dict(kind="transition", cur=cur, bits=sorted(bits), insert=s, outcome=out, cur_after=cur2, bits_after=sorted(bits2)))
        if n == 0:
            raise Machinery("Gen_BitWindow printed no transitions")
        ctx.traces += n
        ctx.extra["transitions_replayed"] = ctx.extra.get("transitions_replayed", 0) + n


# ------------------------------------------------------------------ (R) simulation walks at the real widths
def replay_walks(ctx, C, M_code):
    widths = [16, 32, 256] if ctx.quick else [8, 16, 32, 64, 128, 256]
    for W in widths:
        num = (40 if W <= 64 else 12) if ctx.quick else (400 if W <= 64 else 100)
        depth = 3 * W + 40 if W <= 64 else W + 200
        start = ctx.rnd.choice([1, 65535 - W - 5, 65500])
        cfg = ("SPECIFICATION WalkSpec\nCONSTANTS\n M = %d\n W = %d\n Start = %d\n Span = %d\n Reach = %d\n Emit = FALSE\n"
               "INVARIANT WindowExact\nCHECK_DEADLOCK FALSE\n" % (M_REAL, W, start, depth + 3 * W, W + 3))
        behs, r = T.simulate("Gen_BitWindow", cfg, num, depth, ctx.seed % 100000 + W, workers=1, timeout=600)
        if not behs:
            raise Machinery("no simulation behaviours for W=%d: %s" % (W, r.out[-800:]))
        for beh in behs:
            bf = C.BitField(W)
            hist = []
            for st in beh[1:]:
                s = st["state"]["last"]["s"]
                out = st["state"]["last"]["out"]
                raised = False
                try:
                    bf.insert(C.SeqNum(s))
                except C.DuplicationError:
                    raised = True
                hist.append(s)
                got = (raised, int(bf.current_seqnum), impl.offsets(bf.bits, W))
                exp = (out == "dup", st["state"]["cur"], sorted(st["state"]["bits"]))
                ctx.case(("walk", W, len(hist), s, exp[1], tuple(exp[2][:8])), nontrivial=len(hist) > 1)
                if got != exp:
                    ctx.fail("BitField(%d) leaves the specification after %d inserts: expected %s got %s" % (W, len(hist), exp, got),
                             dict(kind="walk", W=W, history=hist, expected=exp, got=got))
                    break
            ctx.traces += 1
        ctx.sample(dict(kind="walk", W=W, first_inserts=[st["state"]["last"]["s"] for st in behs[0][1:13]],
                        outcomes=[st["state"]["last"]["out"] for st in behs[0][1:13]]))
        ctx.extra["walks_replayed"] = ctx.extra.get("walks_replayed", 0) + len(behs)


# ------------------------------------------------------------------ (T) code -> spec
def trace_validation(ctx, C, M_code):
    wd = T.workdir("c08t")
    try:
        for W in ([32, 256] if ctx.quick else [8, 32, 64, 256]):
            ntr, nev = (12, 2500) if ctx.quick else (24, 5000)      # (48 x 12000 events made a 73 MB document that exhausts the heap of TLC's JSON reader)
            traces = []
            for t in range(ntr):
                rnd = random.Random(ctx.seed * 1000 + W * 10 + t)
                bf = C.BitField(W)
                pos = rnd.choice([1, 65535 - rnd.randint(0, 3 * W), rnd.randint(1, 65535)])
                hi = pos
                evs = []
                for _ in range(nev):
                    x = rnd.random()
                    if x < 0.45:
                        p = hi + rnd.randint(1, 3)
                    elif x < 0.55:
                        p = hi + rnd.randint(1, W + 40)
                    elif x < 0.9:
                        p = hi - rnd.randint(0, W + 2)
                    else:
                        p = hi - rnd.randint(W, 4 * W + 300)
                    p = max(p, 1)
                    hi = max(hi, p)
                    s = (p - 1) % M_code + 1
                    raised = False
                    try:
                        bf.insert(C.SeqNum(s))
                    except C.DuplicationError:
                        raised = True
                    probe = (max(1, hi - rnd.randint(0, W + 3)) - 1) % M_code + 1
                    evs.append(dict(s=s, raised=raised, cur=int(bf.current_seqnum), bits=impl.offsets(bf.bits, W),
                                    probe=probe, contains=bool(bf.contains(C.SeqNum(probe)))))
                    ctx.case(None)
                traces.append(evs)
            path = os.path.join(wd, "bw%d.json" % W)
            json.dump(traces, open(path, "w"))
            cfg = "SPECIFICATION TSpec\nCONSTANTS\n M = %d\n W = %d\nALIAS Where\nCHECK_DEADLOCK TRUE\n" % (M_code, W)
            r = ctx.mc("Trace_BitWindow", cfg, env=dict(TRACE_FILE=path), label="Trace_BitWindow W=%d" % W, need=["Step"], heap="6g")
            if not r.ok:
                last = r.trace[-1]["state"] if r.trace else {}
                ctx.fail("recorded BitField(%d) history is not a behaviour of BitWindow: stuck at %s" % (W, json.dumps(last, default=str)[:400]),
                         dict(kind="trace", W=W, stuck=last, trace=traces[last.get("tid", 1) - 1][: last.get("l", 1) + 1] if last else None))
            else:
                ctx.traces += ntr
            ctx.extra["trace_events_validated"] = ctx.extra.get("trace_events_validated", 0) + ntr * nev
        ctx.sample(dict(kind="recorded_trace_prefix", W=W, events=traces[0][:4]))
    finally:
        shutil.rmtree(wd, ignore_errors=True)


# ------------------------------------------------------------------ (O) SeqNum at the real ring
def seqnum_table(ctx, C, M_code):
    SeqNum = C.SeqNum
    half = (M_code - 1) // 2
    near = 12 if ctx.quick else 40
    avals = sorted(set(list(range(1, near + 1)) + list(range(half - near, half + near + 1)) +
                       list(range(M_code - near, M_code + 1)) +
                       [ctx.rnd.randint(1, M_code) for _ in range(40 if ctx.quick else 400)]))
    offs = sorted(set(list(range(-near, near + 1)) + list(range(half - near, half + 1)) + list(range(-half, -half + near + 1)) +
                      [ctx.rnd.randint(-half, half) for _ in range(30 if ctx.quick else 200)]))
    if not ctx.quick:
        # all 65535 values against the boundary offsets
        avals = list(range(1, M_code + 1))
        offs = sorted(set(list(range(-10, 11)) + list(range(half - 10, half + 1)) + list(range(-half, -half + 11))))
    rows = []
    wd = T.workdir("c08o")
    try:
        def flush(rows, idx):
            path = os.path.join(wd, "obs%d.json" % idx)
            json.dump(rows, open(path, "w"))
            cfg = "INIT Init\nNEXT Next\nCONSTANT M = %d\nINVARIANT RowOK\nINVARIANT MathOK\nCHECK_DEADLOCK FALSE\n" % M_code
            r = ctx.mc("Obs_SeqRing", cfg, env=dict(OBS_FILE=path), label="Obs_SeqRing chunk %d" % idx, heap="8g", coverage=False)
            if not r.ok:
                st = r.trace[-1]["state"] if r.trace else {}
                row = rows[st.get("i", 1) - 1] if st else None
                ctx.fail("SeqNum result differs from SeqRing (%s) for row a,b,k,add,sub,diff,newer,lt,gt,off,le,ge = %s" % (r.violation["name"], row),
                         dict(kind="seqnum", row=row))
        idx = 0
        for a in avals:
            for off in offs:
                b = (a + off - 1) % M_code + 1
                k = abs(off) if off else 1
                A, B = SeqNum(a), SeqNum(b)
                row = [a, b, k, int(A + k), int(A - k), A.diff(B), int(A.newer_than(B)), int(A < B), int(A > B), off, int(A <= B), int(A >= B)]
                rows.append(row)
                ctx.case(("sn", a, off), nontrivial=(a + off < 1 or a + off > M_code or abs(off) > half - 50))
            if len(rows) >= 400000:
                flush(rows, idx)
                idx += 1
                rows = []
        if rows:
            flush(rows, idx)
        ctx.sample(dict(kind="seqnum_row", columns="a,b,k,a+k,a-k,diff,newer,lt,gt,offset,le,ge", row=row))
        # the uninitialised value: 0 + 1 == 1 and construction refuses values outside 0..M
        if int(SeqNum() + 1) != 1:
            ctx.fail("SeqNum() + 1 != 1", dict(kind="zero"))
        if int(SeqNum(M_code) + 1) != 1:
            ctx.fail("SeqNum(max) + 1 != 1", dict(kind="wrap"))
    finally:
        shutil.rmtree(wd, ignore_errors=True)


def ack_fields(ctx):
    """AckExact / AckDecode / window clauses (B_ack, V_acked, V_win, V_mcur, B_seq, S_seq) of the connection trace specification,
    on recorded executions of two real endpoints that cross the wrap."""
    from props import conn_judge as J
    q = ctx.quick
    # a datagram overtaken by exactly L others, for every L across the window boundary, then a replay of everything
    J.lateness_sweep(ctx, "C08", list(range(28, 37)) if q else list(range(1, 45)))
    J.ack_lateness_sweep(ctx, "C08", list(range(28, 37)) if q else list(range(1, 45)))
    # the message window (256) is wider than the datagram window (32): nine messages per datagram put a datagram that is L <= 31 datagrams late up to 279 messages
    # late while it is still inside the datagram window - every such message is new and must be delivered, its copy afterwards must not
    J.lateness_sweep(ctx, "C08", [3, 4, 7, 15, 27, 28, 29, 31] if q else list(range(1, 32)), starts=(None, 65500), per_tick=9)
    J.run_scenarios(ctx, "C08", [
        dict(name="ack-fields-lossy", n=3 if q else 24, nticks=700 if q else 2500, heal_after=500 if q else 2000,
             policy=dict(p_loss=0.25, p_dup=0.1, maxdelay=20, lens=[4, 20, 100, 600], retries=(0, 1, -1)), world=dict(start_seq="alt")),
        dict(name="ack-fields-wrap", n=2 if q else 12, nticks=600 if q else 2500, heal_after=450 if q else 2000,
             policy=dict(p_loss=0.4, p_send=0.6, maxdelay=6, lens=[4, 5]), world=dict(start_seq=65500)),
        # datagrams damaged in transit and forged headers: "received" means authenticated - nothing else may enter the windows or be acknowledged
        dict(name="ack-fields-damaged", n=3 if q else 20, nticks=500 if q else 2000, heal_after=380 if q else 1600,
             policy=dict(p_forge=0.4, p_loss=0.15, p_dup=0.05, maxdelay=10, lens=[4, 20, 100]), world=dict(start_seq=65480)),
    ])


def replay(ctx, doc):
    C = impl.mod("connection")
    case = doc["case"]
    if case.get("kind") == "transition":
        bf = C.BitField(case["W"])
        bf.current_seqnum = C.SeqNum(case["cur"])
        bf.bits = impl.from_offsets(case["bits"], case["W"])
        raised = False
        try:
            bf.insert(C.SeqNum(case["s"]))
        except C.DuplicationError:
            raised = True
        got = [raised, int(bf.current_seqnum), impl.offsets(bf.bits, case["W"])]
        print("expected", case["expected"], "got", got)
        if got != [case["expected"][0], case["expected"][1], case["expected"][2]]:
            ctx.fail("replayed transition still differs", case)
    else:
        print(json.dumps(case)[:2000])

"""Packing arithmetic: TLC checks specs/Packing.tla for every MTU and boundary length; the (mtu, len) grid is then sent for real
through both public APIs (harness/apiworld.py) and TLC judges the observation table (specs/Obs_Packing.tla)."""
import json, os, shutil
from concurrent.futures import ProcessPoolExecutor
import tlc as T
from tlaval import to_json
from core import Machinery


def lens_for(maxpayload, maxfrag):
    P, F = maxpayload, maxfrag
    s = set(range(0, 4))
    for k in (1, 2, 3):
        s |= set(range(k * F - 8, k * F + 9))
    s |= set(range(P - 10, P + 11))
    for k in (1, 2):
        s |= set(range(k * F + P - 16, k * F + P + 5))
    return sorted(x for x in s if x >= 0)


def _one_mtu(args):
    mtu, all_lens, seed = args
    import random
    import impl
    from apiworld import ApiWorld
    rows = []
    w = ApiWorld(mtu=mtu)
    try:
        P = w.C.Packet
        mp, mf, ms = P.MAX_PAYLOAD_SIZE, P.MAX_FRAGMENT_SIZE, P.MAX_SIZE
    finally:
        w.close()
    lens = lens_for(mp, mf) if all_lens is None else all_lens
    rnd = random.Random(seed * 7 + mtu)
    for k_ln, ln in enumerate(lens):
        row = dict(mtu=mtu, len=ln, maxpayload=mp, maxfrag=mf, maxsize=ms, lens=[], cli=0, srv=0, maxdg=0, left=0, err="")
        for api in ("cli", "srv"):
            # every second length: the MTU is configured while the connection objects already exist (the documented remedy for a path that drops large
            # datagrams, and what an application does that configures after connect()): the limits in force are the ones of the last setMTU call
            late = k_ln % 2 == 1
            w = ApiWorld(mtu=None if late else mtu)
            try:
                if late:
                    w.C.Packet.setMTU(mtu)
                payload = bytes(rnd.getrandbits(8) for _ in range(min(ln, 32))) + bytes([rnd.getrandbits(8)]) * max(0, ln - 32)
                try:
                    if api == "cli":
                        n0 = len(w.client.conn.outgoing_messages)
                        w.client.send_guaranteed(payload)
                        row["lens"] = [len(m.payload) for m in w.client.conn.outgoing_messages[n0:]]
                    else:
                        w.srv.send_guaranteed(payload)
                except Exception as e:
                    row["err"] += "%s.send_guaranteed: %s; " % (api, type(e).__name__)
                    continue
                maxdg = 0
                for _ in range(12 + 2 * (ln // max(1, mf))):
                    try:
                        w.tick()
                    except Exception as e:
                        row["err"] += "%s tick: %s; " % (api, type(e).__name__)
                        break
                    for d in w.to_client:
                        maxdg = max(maxdg, len(d))
                got = w.server_got if api == "cli" else w.client_got
                row[api] = int(got == [payload])
                row["maxdg"] = max(row["maxdg"], maxdg)
                row["left"] += len(w.client.conn.outgoing_messages) + len(w.srv.outgoing_messages)
            finally:
                w.close()
        rows.append(row)
    return rows


def _limits(args):
    """Limits after histories of setMTU calls ending in mtu (fresh interpreter state per history: defaults restored first)."""
    mtus, seed = args
    import random
    import impl
    C = impl.mod("connection")
    rnd = random.Random(seed)
    out, hist = [], []
    for m in mtus:
        for h in ([m], [576, m], [1500, m], [m, m], [512, 1095, m], [rnd.randint(512, 1500), rnd.randint(512, 1500), m]):
            C.Packet.setMTU(1500)
            C.Packet.MAX_FRAGMENT_SIZE = 1024       # the module's load-time defaults
            for x in h:
                C.Packet.setMTU(x)
            P = C.Packet
            out.append([m, P.MAX_PAYLOAD_SIZE, P.MAX_FRAGMENT_SIZE, P.MAX_SIZE, P.RECV_SIZE])
            hist.append(h)
    C.Packet.setMTU(1500)
    return out, hist


def model(ctx):
    cfg = "INIT Init\nNEXT Next\nCONSTANT MaxFragments = 8192\nINVARIANT SumOK\nINVARIANT NotStuck\nINVARIANT SizeOK\nINVARIANT NotFragmented\nCHECK_DEADLOCK FALSE\n"
    r = ctx.mc("Packing", cfg, label="Packing: every MTU 512..1500 x boundary lengths", coverage=False)
    if not r.ok:
        st = r.trace[-1]["state"] if r.trace else {}
        ctx.fail("Packing model: %s violated at mtu=%s len=%s (a message the split produces can never be packed / sizes do not add up)" % (r.violation["name"], st.get("mtu"), st.get("len")),
                 dict(model="Packing", state=to_json(st)))
    return r


def grid(ctx, mine, mtus):
    jobs = [(m, None, ctx.seed) for m in mtus]
    with ProcessPoolExecutor(16) as ex:
        rows = [r for rs in ex.map(_one_mtu, jobs) for r in rs]
    wd = T.workdir("pk")
    try:
        path = os.path.join(wd, "obs.json")
        lim, hist = _limits((sorted(set(mtus) | {512, 600, 1000, 1095, 1096, 1500}), ctx.seed))
        open(path, "w").write(json.dumps(dict(rows=[{k: v for k, v in r.items() if k != "err"} for r in rows], limits=lim)))
        ctx.extra["setmtu_histories"] = len(lim)
        r = ctx.mc("Obs_Packing", "INIT OInit\nNEXT ONext\nCONSTANT MaxFragments = 8192\nINVARIANT AllOK\nALIAS Where\nCHECK_DEADLOCK FALSE\n", env=dict(OBS_FILE=path),
                   label="Obs_Packing (%d rows, %d MTUs)" % (len(rows), len(mtus)), coverage=False, cont=True, heap="6g")
        ctx.extra["packing_grid_rows"] = len(rows)
        ctx.extra["packing_grid_mtus"] = len(mtus)
        ctx.evaluations += 2 * len(rows)
        ctx.distinct_n += len(rows)
        ctx.traces += 2 * len(rows)
        ctx.sample(dict(kind="grid_row", row={k: v for k, v in rows[len(rows) // 2].items()}))
        errs = {(r["mtu"], r["len"]): r["err"] for r in rows if r["err"]}
        if not r.ok:
            if r.violation["kind"] != "invariant":
                raise Machinery("Obs_Packing judge failed: %s" % r.violation["text"][:1500])
            n = 0
            for tr in r.traces:
                for bl in to_json(T.materialise(tr[-1]).get("badlimits", []))[:3]:
                    n += 1
                    hs = [h for x, h in zip(lim, hist) if x == bl]
                    ctx.fail("after Packet.setMTU calls %s the limits are MAX_PAYLOAD_SIZE=%d MAX_FRAGMENT_SIZE=%d MAX_SIZE=%d RECV_SIZE=%d, not those of MTU %d" % (hs[:1], bl[1], bl[2], bl[3], bl[4], bl[0]),
                             dict(kind="limits", history=hs[:1], limits=bl))
                for b in to_json(T.materialise(tr[-1]).get("bad", []))[:3]:
                    n += 1
                    ctx.fail("payload of %d bytes at MTU %d: queued as messages %s, delivered client->server=%s server->client=%s, largest datagram %s (limit %s), left queued %s %s"
                             % (b["len"], b["mtu"], b["lens"][:6], bool(b["cli"]), bool(b["srv"]), b["maxdg"], b["maxsize"], b["left"], errs.get((b["mtu"], b["len"]), "")),
                             dict(kind="grid", row=b, error=errs.get((b["mtu"], b["len"]))))
            if not n:
                ctx.fail("packing observation table rejected by TLC", dict(text=r.violation["text"][:400]))
    finally:
        shutil.rmtree(wd, ignore_errors=True)

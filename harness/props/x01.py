"""X01 (extension, beyond the listed properties) - TaskPool hands every finished task's result to the game loop exactly once.

specs/TaskPool.tla (PlusCal): one step = one access to the memory the pool thread and update() share.  TLC checks AtMostOnce, Order,
NoLoss, MutualExclusion and the liveness property AllDelivered over every interleaving, and a control without the lock in update() must
lose a result.  Binding (both directions at once): the TLC state graph and the real TaskPool - real threads, interleaved access by
access by harness/threadworld.py - are walked in lock-step: in every visited state the threads' pending accesses must be the ones the
specification's program counters say, every transition of the graph is taken on the real object, and the observable state (lock
holder, the current result list, the callbacks run so far and the thread they ran on) must be equal after each step.
"""
import threading, json
import impl, tlc as T
from tlaval import to_json
from core import Machinery
import threadworld as TW

PENDING = dict(m0="idle", u_rd1="rd", u_len="len", u_acq="acq", u_rd2="rd", u_wr="wr", u_rel="rel", u_it="it",
               c0="idle", c_acq="acq", c_rd="rd", c_app="app", c_rel="rel")


class FakePool:
    """stands in for multiprocessing.Pool (module attribute re-bound, no processes): remembers the callbacks apply_async was given"""

    def __init__(self, *a, **kw):
        self.jobs = {}

    def apply_async(self, fn, args=(), kwds={}, callback=None, error_callback=None):
        self.jobs[args[0]] = (callback, error_callback)

    def terminate(self):
        pass

    def join(self):
        pass


class World:
    def __init__(self, Tk, completers, nocb, failing, raising):
        self.Tk = Tk
        real_pool = Tk.Pool
        Tk.Pool = FakePool
        try:
            self.tp = Tk.TaskPool(processes=1)
        finally:
            Tk.Pool = real_pool
        Tk.mplogger.disabled = True        # the raising callback is logged with a stack trace by design
        self.tp._lk_result = TW.CoopLock()
        self.store = TW.shared_attribute(self.tp, "_results", wrap=lambda v: v if isinstance(v, TW.TList) else TW.TList(v))
        self.workers = {n: TW.Worker(n) for n in ["main"] + list(completers)}
        self.log = []            # (task, "cb"|"ecb", value, thread)
        self.nocb, self.failing, self.raising = set(nocb), set(failing), set(raising)

    def cb(self, t, which):
        def f(v):
            self.log.append((t, which, repr(v), threading.current_thread().name))
            if t in self.raising:
                raise RuntimeError("callback of %s raises" % t)
        return f

    # operations of the specification
    def submit(self, t):
        w = self.workers["main"]
        cb = None if t in self.nocb else self.cb(t, "cb")
        ecb = None if t in self.nocb else self.cb(t, "ecb")
        w.begin(lambda: self.tp.submit(len, (t,), {}, cb, ecb))

    def update(self):
        self.workers["main"].begin(self.tp.update)

    def complete(self, c, t):
        ok, err = self.tp.pool.jobs[t]
        if t in self.failing:
            self.workers[c].begin(lambda: err(ValueError(t)))
        else:
            self.workers[c].begin(lambda: ok("result-" + t))

    def step(self, p):
        self.workers[p].step()

    def observe(self):
        cur = [self._task_of(x[0]) for x in self.tp.__dict__[self.store].raw()]
        return dict(lock=self.tp._lk_result.holder or "free", cur=cur, delivered=[x[0] for x in self.log],
                    pending={n: w.pending for n, w in self.workers.items()})

    @staticmethod
    def _task_of(v):
        if isinstance(v, ValueError):
            return v.args[0]
        return str(v).replace("result-", "")

    def errors(self):
        return {n: repr(w.error) for n, w in self.workers.items() if w.error is not None}

    def close(self):
        for w in self.workers.values():
            w.stop()


def expected(st):
    return dict(lock=st["lock"], cur=list(st["heap"][st["ref"] - 1]), delivered=list(st["delivered"]),
                pending={p: PENDING[l] for p, l in st["pc"].items()})


def move_of(src, dst):
    """which process moved, and what the environment chose (task submitted / completed)"""
    movers = [p for p in src["pc"] if src["pc"][p] != dst["pc"][p]]
    if not movers:      # m0 -> m0: a submit;  u_it -> u_it: one more element of the live iteration
        t = sorted(set(dst["submitted"]) - set(src["submitted"]))
        return ("main", "submit", t[0]) if t else ("main", "step", None)
    p = movers[0]
    if src["pc"][p] == "m0":
        return ("main", "update", None)
    if src["pc"][p] == "c0":
        return (p, "complete", dst["my"][p])
    return (p, "step", None)


def apply(w, mv):
    p, kind, arg = mv
    if kind == "submit":
        w.submit(arg)
    elif kind == "update":
        w.update()
    elif kind == "complete":
        w.complete(p, arg)
    else:
        w.step(p)


def run(ctx):
    Tk = impl.mod("task")
    ctx.level = "model_checking"
    ctx.exhaustive = True
    ctx.rule = ("every transition of the TLC state graph of TaskPool.tla taken on the real TaskPool with real threads interleaved access by access; "
                "distinct = transitions of the graph; non-trivial = the transition is a shared-memory access (not the start of an operation)")
    ctx.assumptions += ["threads interleave at accesses to shared objects (attribute reads / re-bindings, list operations, the lock) - the grain the interpreter guarantees",
                        "multiprocessing.Pool is replaced by a stand-in that keeps the callbacks; its result-handler thread is played by the harness's completer threads",
                        "extension check: not one of the listed properties"]
    tasks = ["t1", "t2"] if ctx.quick else ["t1", "t2", "t3"]
    comps = ["c1", "c2"]
    nocb = ["t2"] if ctx.quick else ["t3"]
    consts = "CONSTANTS\n Tasks = {%s}\n Completers = {%s}\n NoCallback = {%s}\n" % (", ".join('"%s"' % t for t in tasks), ", ".join('"%s"' % c for c in comps), ", ".join('"%s"' % t for t in nocb))
    props = "INVARIANT TypeOK\nINVARIANT AtMostOnce\nINVARIANT Order\nINVARIANT NoLoss\nINVARIANT MutualExclusion\nPROPERTY AllDelivered\nCHECK_DEADLOCK FALSE\n"
    big = consts if ctx.quick else consts.replace('"t3"}', '"t3", "t4"}', 1)
    r = ctx.mc("TaskPool", "SPECIFICATION Spec\n" + big + " UpdateLocks = TRUE\n" + props, need=["u_wr", "c_app", "u_it"], label="TaskPool (design, safety + liveness)")
    if not r.ok:
        ctx.fail("TaskPool specification: %s violated" % r.violation["name"], dict(trace=to_json([s["state"] for s in r.trace[-12:]])))
        return
    c = ctx.mc("TaskPool", "SPECIFICATION Spec\n" + consts + " UpdateLocks = FALSE\nINVARIANT NoLoss\nCHECK_DEADLOCK FALSE\n", label="control: update() without the lock", count=False, coverage=False)
    if c.ok:
        raise Machinery("vacuity: the control without the lock in update() does not lose a result")
    states, edges, init, g = T.dump_graph("TaskPool", "SPECIFICATION Spec\n" + consts + " UpdateLocks = TRUE\nCHECK_DEADLOCK FALSE\n", workers=1)
    if not states:
        raise Machinery("state graph dump failed: %s" % (g.violation,))
    S = {k: to_json(v) for k, v in states.items()}
    out = {}
    for s, _l, d in edges:
        if s != d:
            out.setdefault(s, []).append(d)
    # shortest path to every state
    path = {i: [] for i in init}
    order = list(init)
    for s in order:
        for d in out.get(s, []):
            if d not in path:
                path[d] = path[s] + [(s, d)]
                order.append(d)
    todo = {(s, d) for s in out for d in out[s]}
    total = len(todo)
    failing, raising = {"t2"}, {"t1"}
    walks = 0
    bad = 0

    def check(w, sid, hist):
        nonlocal bad
        obs, exp = w.observe(), expected(S[sid])
        if obs != exp:
            bad += 1
            ctx.fail("TaskPool leaves its specification after %s: real object %s, specification %s"
                     % (json.dumps(hist[-6:]), json.dumps(obs, sort_keys=True), json.dumps(exp, sort_keys=True)), dict(history=hist, observed=obs, expected=exp))
            return False
        for t, which, val, thread in w.log:
            want = ("ecb", "ValueError('%s')" % t) if t in failing else ("cb", "'result-%s'" % t)
            if thread != "main" or (which, val) != want:
                bad += 1
                ctx.fail("TaskPool ran the %s of %s with %s on thread %s; expected %s with %s on the thread that calls update()" % (which, t, val, thread, want[0], want[1]), dict(history=hist, log=w.log))
                return False
        if w.errors():
            bad += 1
            ctx.fail("an operation of TaskPool raised: %s after %s" % (w.errors(), json.dumps(hist[-6:])), dict(history=hist, errors=w.errors()))
            return False
        return True

    while todo and bad < 5:
        # the unexplored transition whose source is nearest to the initial state
        s0 = min((s for s, _ in todo), key=lambda s: len(path[s]))
        w = World(Tk, comps, nocb, failing, raising)
        walks += 1
        hist = []
        try:
            cur = next(iter(init))
            ok = check(w, cur, hist)
            steps = list(path[s0])
            while ok:
                if steps:
                    s, d = steps.pop(0)
                else:
                    nxt = [d for d in out.get(cur, []) if (cur, d) in todo]
                    if not nxt:
                        break
                    s, d = cur, sorted(nxt)[0]
                mv = move_of(S[s], S[d])
                hist.append(list(mv))
                try:
                    apply(w, mv)
                except TW.Blocked as e:
                    bad += 1
                    ctx.fail("TaskPool cannot take the specification's step %s: %s" % (json.dumps(hist[-6:]), e), dict(history=hist))
                    ok = False
                    break
                todo.discard((s, d))
                ctx.case((s, d), nontrivial=mv[1] == "step")
                cur = d
                ok = check(w, cur, hist)
        finally:
            w.close()
    # code-driven schedules (no reference to the graph): whatever the access sequence of the code is, the user-visible guarantees hold at quiescence
    free = 0
    bad = 0
    for k in range(300 if ctx.quick else 3000):
        if bad >= 3:
            break
        rnd = __import__("random").Random(ctx.seed * 7919 + k)
        w = World(Tk, comps, nocb, failing, raising)
        hist, order_app = [], []
        try:
            sub, taken = [], set()
            for _ in range(400):
                moves = []
                for n, wk in w.workers.items():
                    if wk.pending == "idle":
                        if n == "main":
                            moves += [("main", "submit", t) for t in tasks if t not in sub][:1] + [("main", "update", None)]
                        else:
                            moves += [(n, "complete", t) for t in sub if t not in taken][:1]
                    elif not (wk.pending == "acq" and w.tp._lk_result.holder is not None):
                        moves.append((n, "step", None))
                if len(taken) == len(tasks) and all(wk.pending == "idle" for wk in w.workers.values()) and rnd.random() < 0.3:
                    break
                mv = rnd.choice(moves)
                if mv[1] == "submit":
                    sub.append(mv[2])
                if mv[1] == "complete":
                    taken.add(mv[2])
                if mv[1] == "step" and w.workers[mv[0]].pending == "app":
                    order_app.append(w.workers[mv[0]].name)
                hist.append(list(mv))
                apply(w, mv)
            # quiesce: let every thread finish, then two more updates
            for _ in range(200):
                run_ = [n for n, wk in w.workers.items() if wk.pending != "idle" and not (wk.pending == "acq" and w.tp._lk_result.holder is not None)]
                if not run_:
                    break
                apply(w, (run_[0], "step", None))
            for _ in range(2):
                w.update()
                while w.workers["main"].pending != "idle":
                    w.step("main")
            got = [x[0] for x in w.log]
            want = sorted(t for t in taken if t not in nocb)
            if sorted(got) != want or w.errors() or any(x[3] != "main" for x in w.log):
                bad += 1
                ctx.fail("TaskPool at quiescence after a code-driven schedule: callbacks run %s (threads %s), finished tasks with callbacks %s, errors %s"
                         % (got, sorted({x[3] for x in w.log}), want, w.errors()), dict(history=hist, log=w.log))
            free += 1
            ctx.case(("free", k))
        except TW.Blocked as e:
            bad += 1
            ctx.fail("TaskPool blocked in a code-driven schedule: %s" % e, dict(history=hist))
        finally:
            w.close()
    ctx.extra["code_driven_schedules"] = free
    ctx.traces = walks + free
    ctx.extra.update(graph_states=len(S), graph_transitions=total, transitions_taken_on_real_object=total - len(todo), walks=walks, tasks=tasks, completers=comps,
                     failing_task="t2 (its error_callback must run)", raising_callback="t1 (must not stop the others)")
    ctx.sample(dict(example_state=S[order[len(order) // 2]], expected_observation=expected(S[order[len(order) // 2]])))
    if todo and not bad:
        raise Machinery("%d transitions of the graph were not taken" % len(todo))


def replay(ctx, doc):
    Tk = impl.mod("task")
    c = doc["case"]
    w = World(Tk, ["c1", "c2"], ["t2"] if doc.get("tier") == "quick" else ["t3"], {"t2"}, {"t1"})
    try:
        for mv in c["history"]:
            apply(w, tuple(mv))
            print(mv, json.dumps(w.observe(), sort_keys=True))
    finally:
        w.close()

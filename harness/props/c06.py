"""C06 - reliability-layer property judged on recorded executions (see conn_judge / specs/Trace_Conn.tla)."""
from props import packing
from props import conn_judge as J


def run(ctx):
    ctx.level = "model_checking"
    ctx.rule = ("events of recorded executions of two real endpoints judged by TLC against Trace_Conn; distinct = recv + build events; "
                "non-trivial = every recv/build event (each is checked against the full clause set)")
    packing.model(ctx)
    packing.grid(ctx, "C06", [512, 600, 1096, 1097, 1500] if ctx.quick else list(range(512, 1501, 3)))
    J.run_scenarios(ctx, "C06", scenarios(ctx))


def scenarios(ctx):
    q = ctx.quick
    return [
        dict(name="fragments-reordered", n=6 if q else 40, nticks=900 if q else 2500, heal_after=600 if q else 2000,
             policy=dict(p_send=0.3, p_loss=0.05, p_dup=0.2, maxdelay=20, lens=[1435, 1436, 1500, 2048, 2049, 2451, 2452, 2453, 3000, 3072, 4000, 5000, 7000, 50, 4]),
             world=dict(start_seq="alt")),
        dict(name="fragments-mtu600", n=3 if q else 20, nticks=900 if q else 2500, heal_after=600 if q else 2000,
             policy=dict(p_send=0.3, p_loss=0.05, p_dup=0.15, maxdelay=15), world=dict(start_seq="alt", mtu=600)),
        dict(name="fragments-mtu1100", n=3 if q else 20, nticks=900 if q else 2500, heal_after=600 if q else 2000,
             policy=dict(p_send=0.3, p_loss=0.05, p_dup=0.15, maxdelay=15), world=dict(start_seq="alt", mtu=1100)),
        # every retry mode of fragmented messages across link outages longer than the resend interval and the ack time-out
        dict(name="fragments-outage", n=4 if q else 30, nticks=1100 if q else 3000, heal_after=800 if q else 2400,
             policy=dict(p_send=0.12, p_loss=0.03, p_outage=0.004, retries=(-1, -1, 1, 0), lens=[1500, 2048, 2451, 2452, 3000, 5000, 7000, 50, 4]),
             world=dict(start_seq="alt")),
        # fragmented retried messages while bursts wider than the message window go by (copies of fragments arrive after the window has moved on)
        dict(name="fragments-under-bursts", n=3 if q else 16, nticks=800 if q else 2000, heal_after=550 if q else 1600,
             policy=dict(p_send=0.1, p_loss=0.2, p_dup=0.1, maxdelay=10, retries=(-1, 1), lens=[1500, 2451, 3000, 3072, 5000], burst=0.03, burst_lens=(1, 1, 2), burst_retries=(0,)), world=dict(start_seq="alt")),
        # transfers of tens to hundreds of fragments over a fast clean link at normal pacing (several seconds on the wire each): nothing may give up half way
        dict(name="large-transfers", n=2 if q else 8, nticks=1300 if q else 3000, heal_after=1000 if q else 2600, quiesce=1200,
             policy=dict(p_send=0.0035, p_loss=0.0, p_dup=0.0, p_replay=0.0, maxdelay=1, retries=(-1, 0, 1), lens=[70000, 150000, 262000, 40]), world=dict(start_seq="alt")),
        # the same over a link whose round trip is shorter than a frame (the application polls four times per frame, nothing is delayed)
        dict(name="large-transfers-fast-link", n=3 if q else 10, nticks=5200 if q else 9000, heal_after=4000 if q else 7600, quiesce=2400,
             policy=dict(p_send=0.0009, p_loss=0.0, p_dup=0.0, p_replay=0.0, maxdelay=0, retries=(-1, 0, 1), lens=[70000, 150000, 262000, 40]), world=dict(start_seq="alt", tick_us=4100)),
    ]

"""X07 (extension, beyond the listed properties) - the entity table, the cached per-frame views and the two queues of the pygame engine.

specs/Entities.tla: EntityStore (dict in insertion order, ids handed out by the store, mutation counter) and EntityGroup (a view that is
rebuilt on the first access of a frame after the store was mutated).  TLC checks IdsUnique / AutoIdsFresh / Coherent / FreshOnFirstAccess /
NoDuplicates.  specs/EventQ.tla: EventQueue with suppress blocks (Fifo, ClosedMeansOpen) and PriorityQueue (PopIsLeast).  Every transition of
each state graph is then taken on the real classes (pygame replaced by an inert stand-in module) and the observable state compared after
each step; PriorityQueue entries are objects that refuse to be compared.
"""
import json
import impl, tlc as T
from tlaval import to_json
from core import Machinery
from graphreplay import replay_graph
from props.x04 import engine

IDX = {"all": "idx_all", "visible": "idx_visible", "destroy": "idx_destroy"}
GROUPS = ("all", "destroy", "visible")
AUTO = 0x40000000


class Ent:
    def __init__(self, no, fl):
        self.no = no
        self.visible = "visible" in fl
        self.destroy = "destroy" in fl


class Shy:
    """An entry that cannot be ordered: the queue must never compare entries."""
    def __init__(self, p, i):
        self.p, self.i = p, i

    def __lt__(self, o):
        raise TypeError("entries compared")
    __gt__ = __le__ = __ge__ = __lt__


class Ev:
    def __init__(self, t, n):
        self.type_id, self.n = t, n


def graph(mod, spec, consts):
    states, edges, init, g = T.dump_graph(mod, "SPECIFICATION %s\n" % spec + consts + "CHECK_DEADLOCK FALSE\n", workers=1)
    if not states:
        raise Machinery("%s graph dump failed for %s: %s" % (mod, spec, g.violation))
    return states, edges, init


def report(ctx, what, mod, n, mm):
    ctx.extra[what + "_transitions"] = n
    ctx.traces += n
    for m in mm[:3]:
        ctx.fail("%s leaves %s.tla: after %s, %s gives %s; specification allows %s" % (what, mod, json.dumps(m["path"][-6:]), m["op"], m["observed"], m["allowed"]), m)


def hashable(x):
    if isinstance(x, dict):
        return tuple(sorted((k, hashable(v)) for k, v in x.items()))
    if isinstance(x, (list, tuple, set, frozenset)):
        return tuple(sorted(hashable(v) for v in x)) if isinstance(x, (set, frozenset)) else tuple(hashable(v) for v in x)
    return x


def run(ctx):
    E = engine()
    ctx.level = "model_checking"
    ctx.exhaustive = True
    ctx.rule = "every transition of the state graphs of Entities.tla and EventQ.tla taken on the real EntityStore+EntityGroup / EventQueue / PriorityQueue; distinct = transitions; non-trivial = all"
    ctx.assumptions += ["extension check: not one of the listed properties", "pygame is replaced by an inert stand-in module (the classes bound here do not draw)",
                        "0x40000000 (first id handed out by the store) is written 1000 in the model"]
    n = 4 if ctx.quick else 5
    ce = "CONSTANTS\n MaxOps = %d\n Eids = {1, 2}\n MaxObj = 3\n" % n
    r = ctx.mc("Entities", "SPECIFICATION Spec\n" + ce + "INVARIANT IdsUnique\nINVARIANT AutoIdsFresh\nINVARIANT Coherent\nINVARIANT FreshOnFirstAccess\nINVARIANT NoDuplicates\nCHECK_DEADLOCK FALSE\n",
               label="Entities MaxOps=%d" % n, coverage=False)
    if not r.ok:
        ctx.fail("Entities.tla: %s violated" % r.violation["name"], dict(trace=to_json([s["state"] for s in r.trace[-8:]])))
        return
    nq = 5 if ctx.quick else 6
    cq = "CONSTANTS\n MaxOps = %d\n Types = {128, 129}\n Prios = {1, 2}\n" % nq
    for spec, invs in (("SpecEQ", "INVARIANT Fifo\nINVARIANT ClosedMeansOpen\n"), ("SpecPQ", "INVARIANT PopIsLeast\n")):
        r = ctx.mc("EventQ", "SPECIFICATION %s\n" % spec + cq + invs + "CHECK_DEADLOCK FALSE\n", label="EventQ " + spec, coverage=False)
        if not r.ok:
            ctx.fail("EventQ.tla %s: %s violated" % (spec, r.violation["name"]), dict(trace=to_json([s["state"] for s in r.trace[-8:]])))
            return

    # ---- EntityStore + EntityGroup
    def mk_store():
        E.g.frame_counter = 1
        st = E.EntityStore()
        return dict(st=st, gr={g: E.EntityGroup(st, IDX[g]) for g in GROUPS}, n=0)

    def ap_store(w, op):
        op = dict(op)
        st = w["st"]
        res, err = None, ""
        try:
            if op["op"] == "add":
                w["n"] += 1
                ent = Ent(w["n"], op["fl"])
                if op["eid"] == 0:
                    st.addEntity(ent)
                else:
                    st.addEntity(ent, op["eid"])
            elif op["op"] == "remove":
                res = tuple(e.no for e in st.removeEntitiesByComponent(IDX[op["g"]]))
            elif op["op"] == "flag":
                ent = list(st.entities.values())[op["k"] - 1]
                setattr(ent, op["f"], not getattr(ent, op["f"]))
            elif op["op"] == "get":
                res = tuple(e.no for e in w["gr"][op["g"]].getEntities())
                it = tuple(e.no for e in w["gr"][op["g"]])            # __iter__ hands out the same view
                if it != res:
                    err = "iteration %s differs from getEntities %s" % (it, res)
            elif op["op"] == "frame":
                E.g.frame_counter += 1
        except Exception as e:
            err = "%s: %s" % (type(e).__name__, e)
        ids = tuple((k - AUTO + 1000 if k >= AUTO else k, e.no) for k, e in st.entities.items())
        byid = all(st.getEntityById(k) is e for k, e in st.entities.items()) and st.getEntityById(777) is None
        caches = tuple(None if w["gr"][g].cache is None else tuple(e.no for e in w["gr"][g].cache) for g in GROUPS)
        return (ids, st._nextid - AUTO, st._mutated, caches, res, byid, err)

    def canon_store(st):
        st = to_json(st)
        last = st["last"]
        res = tuple(last["res"]) if last["op"] in ("remove", "get") else None
        caches = tuple(tuple(st["cache"][g]["v"]) if st["cache"][g]["has"] else None for g in GROUPS)
        return (tuple((e["id"], e["o"]) for e in st["ents"]), st["nauto"], st["mutated"], caches, res, True, "")

    def op_store(st):
        last = to_json(st["last"])
        d = {k: v for k, v in last.items() if k not in ("res", "first")}
        if "fl" in d:
            d["fl"] = tuple(sorted(d["fl"]))
        return tuple(sorted(d.items()))
    g = graph("Entities", "Spec", ce)
    k, mm = replay_graph(*g, mk_store, ap_store, op_store, canon_store, on_case=lambda s, op: ctx.case(("store", s, op)))
    report(ctx, "EntityStore/EntityGroup", "Entities", k, mm)

    # ---- EventQueue
    def mk_eq():
        return dict(q=E.EventQueue(), n=0, blocks=[])

    def ap_eq(w, op):
        import io, contextlib
        op = dict(op)
        q = w["q"]
        res = None
        with contextlib.redirect_stdout(io.StringIO()):
            try:
                if op["op"] == "push":
                    w["n"] += 1
                    q.push(Ev(op["t"], w["n"]))
                elif op["op"] == "get":
                    e = q.getEvent()
                    res = (e.type_id, e.n)
                elif op["op"] == "suppress":
                    b = q.suppress(*op["s"])
                    b.__enter__()
                    w["blocks"].append(b)
                elif op["op"] == "exit":
                    w["blocks"].pop().__exit__(None, None, None)
            except Exception as e:
                res = type(e).__name__
        return (tuple((e.type_id, e.n) for e in q.events), tuple(sorted(q.suppress_events)), res, bool(q) == bool(q.events))

    def canon_eq(st):
        st = to_json(st)
        last = st["last"]
        res = None
        if last["op"] == "get":
            res = last["res"].get("err") or (last["res"]["t"], last["res"]["n"])
        return (tuple((e["t"], e["n"]) for e in st["evs"]), tuple(sorted(st["sup"])), res, True)

    def op_q(st):
        last = to_json(st["last"])
        d = {k: v for k, v in last.items() if k != "res"}
        if "s" in d:
            d["s"] = tuple(sorted(d["s"]))
        return tuple(sorted(d.items()))
    g = graph("EventQ", "SpecEQ", cq)
    k, mm = replay_graph(*g, mk_eq, ap_eq, op_q, canon_eq, on_case=lambda s, op: ctx.case(("eventq", s, op)))
    report(ctx, "EventQueue", "EventQ", k, mm)

    # ---- PriorityQueue
    def mk_pq():
        return dict(q=E.PriorityQueue(), n=0)

    def ap_pq(w, op):
        op = dict(op)
        q = w["q"]
        res = None
        try:
            if op["op"] == "ppush":
                q.push(op["p"], Shy(op["p"], w["n"]))
                w["n"] += 1
            elif op["op"] == "ppop":
                e = q.pop()
                res = (e.p, e.i)
            elif op["op"] == "ppeek":
                e = q.peak()
                res = (e.p, e.i)
        except Exception as e:
            res = type(e).__name__
        return (tuple(sorted((p, i) for p, i, _e in q._heap)), len(q), res)

    def canon_pq(st):
        st = to_json(st)
        last = st["last"]
        res = None
        if last["op"] in ("ppop", "ppeek"):
            res = last["res"].get("err") or (last["res"]["p"], last["res"]["i"])
        return (tuple(sorted((e["p"], e["i"]) for e in st["heap"])), len(st["heap"]), res)
    g = graph("EventQ", "SpecPQ", cq)
    k, mm = replay_graph(*g, mk_pq, ap_pq, op_q, canon_pq, on_case=lambda s, op: ctx.case(("prioq", s, op)))
    report(ctx, "PriorityQueue", "EventQ", k, mm)


def replay(ctx, doc):
    print(json.dumps(doc["case"], indent=1)[:3000])

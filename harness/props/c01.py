"""C01 - only datagrams authenticated under the session key can affect a connection.

specs/Gate.tla gives the rule (Outcome) and is model-checked; TLC writes every (situation, class) with its prescribed outcome; the
harness concretises every class into real bytes and injects it into real endpoints brought into that situation by the real handshake;
TLC judges each observation (Obs_Gate).  A byte-level sweep (every single-bit flip, truncation, extension and header rewrite of
genuine datagrams, delivered and undelivered, with and without a recomputed CRC) is judged by the same rule.
"""
import json, os, shutil, struct, random
import impl, tlc as T
from tlaval import to_json
from core import Machinery
from gateworld import GateWorld

INNER = {"same": None, "app_app": (6, 6), "app_hello": (6, 1), "hello_app": (1, 6), "disc_app": (5, 6)}


def make_world(sit, seed):
    if sit["keyed"]:
        return GateWorld(seed)
    if sit["side"] == "client":
        w = GateWorld(seed, connect=False)
        w.cl._sendClientHello()
        w.step(w.cl, w.sv, deliver=False)      # the hello is on the wire; the client waits, without a key
        return w
    w = GateWorld(seed, connect=False)          # a fresh server-side connection object, no hello processed yet
    return w


def concretise(w, sit, c):
    side = sit["side"]
    if c["seal"] == "crc":
        n = c["count"]
        if c["inner"] == "same" or n <= 1:
            types = [c["htype"] if c["htype"] != 0 else 0] * n
        else:
            a, b = INNER[c["inner"]]
            if c["inner"] == "app_hello" or c["inner"] == "hello_app":
                h = 2 if side == "client" else 1
                a, b = (a if a != 1 else h), (b if b != 1 else h)
            types = [(a, b)[k % 2] for k in range(n)]
        if n == 255:
            types = types[:255]
        payloads = None
        if c["htype"] in (1, 2) and n == 1:
            payloads = [os.urandom(60)]           # a hello with undecodable content
        raw = w.forge_crc(side, c["htype"], types, c["seqc"], c["ackc"], payloads)
        return raw if len(raw) <= 2048 else None
    if c["seal"] == "gcm_otherkey":
        return w.otherkey(side, c["htype"], c["seqc"])
    if c["seal"] == "random":
        pre = (b"FSOC" if side == "client" else b"FSOS")
        return pre + os.urandom(w.rnd.randint(16, 120))
    gen = w.genuine_for(side, c["seqc"]) if sit["keyed"] else None
    if not sit["keyed"]:
        # a datagram sealed in some other session, shown to an endpoint that has no key yet
        o = GateWorld(99)
        try:
            gen = o.genuine_for(side, "fresh")
        finally:
            o.close()
        w.C.time = w.vt
    if gen is None:
        return None
    raw = gen[1]
    want = c["htype"]
    if raw[12] != want:        # the model asks for a keep-alive (4) or an application datagram (6): use what was recorded if it matches
        return None
    if c["seal"] == "gcm_trailing":
        raw = raw + b"\x00\x01trailing"
    return raw


def table(ctx, wd):
    inp = os.path.join(wd, "cases.json")
    g = ctx.mc("Obs_Gate", "INIT GenInit\nNEXT GNext\nCHECK_DEADLOCK FALSE\n", env=dict(OUT_FILE=inp, OBS_FILE=inp), coverage=False, workers=1, count=False, label="Obs_Gate generate")
    if not g.ok or not os.path.exists(inp):
        raise Machinery("case generation failed: %s" % (g.violation,))
    cases = json.load(open(inp))["cases"]
    cases.sort(key=lambda x: (x["sit"]["side"], x["sit"]["keyed"]))
    rows, meta = [], []
    worlds = {}
    skipped = 0
    for k, cs in enumerate(cases):
        sit, c = cs["sit"], cs["c"]
        key = (sit["side"], sit["keyed"])
        w = worlds.get(key)
        if w is None:
            w = worlds[key] = make_world(sit, ctx.seed + k)
        w.C.time = w.vt
        raw = concretise(w, sit, c)
        if raw is None:
            skipped += 1
            continue
        o = w.inject(sit["side"], raw)
        o["expect"] = cs["expect"]
        rows.append(o)
        meta.append((sit, c, raw))
        ctx.case((key, json.dumps(c, sort_keys=True)), nontrivial=c["seal"] != "random")
        if o["changed"] or o["ret"] in ("true", "exc"):
            w.close()
            worlds[key] = None          # the endpoint moved: next case gets a fresh one
    for w in worlds.values():
        if w:
            w.close()
    ctx.extra["table_cases"] = len(rows)
    ctx.extra["table_cases_not_concretisable"] = skipped
    return rows, meta


def sweep(ctx):
    """Byte-level tampering of genuine datagrams towards keyed endpoints: expected outcome noeffect (extensions: either)."""
    rows, meta = [], []
    rnd = random.Random(ctx.seed)
    crc32 = impl.mod("crypto").crc32
    for side in ("server", "client"):
        w = GateWorld(ctx.seed + 7)
        try:
            e = w.endpoint(side)
            gens = [x for x in w.genuine if x[0] != e.isServer]
            # genuine datagrams of distinct kinds: undelivered first, then a few delivered ones (incl. the handshake datagrams)
            picked = [x for x in gens if not x[2]] + gens[:3] + gens[-6:-4]
            seen = set()
            for fromsrv, d, delivered in picked:
                if d in seen:
                    continue
                seen.add(d)
                muts = []
                bits = range(len(d) * 8) if (not ctx.quick or len(d) < 200) else sorted(set(list(range(0, 20 * 8)) + rnd.sample(range(20 * 8, len(d) * 8), 400)))
                for bit in bits:
                    t = bytearray(d)
                    t[bit // 8] ^= 1 << (bit % 8)
                    muts.append(("bitflip@%d" % bit, bytes(t), "noeffect"))
                cuts = range(len(d)) if (not ctx.quick or len(d) < 200) else list(range(0, 64)) + list(range(len(d) - 40, len(d)))
                for cut in cuts:
                    muts.append(("truncate@%d" % cut, d[:cut], "noeffect"))
                for ext in (b"\x00", b"\xff" * 4, os.urandom(16)):
                    muts.append(("extend+%d" % len(ext), d + ext, "noeffect" if not delivered else "dropped"))      # (nothing may follow the tag: the quantifier names extensions)
                for off, fmt, vals, nm in ((12, "B", range(256), "type"), (15, "B", (0, 1, 2, 255), "count"), (13, ">H", (0, 1, 65535), "length"),
                                           (16, ">L", (0, 0xFFFFFFFF, 0x80000000), "ack_bits"), (8, ">H", (1, 65535), "seq"), (10, ">H", (0, 1, 65535), "ack"),
                                           (4, ">L", (0, 0xFFFFFFFF), "time"), (0, "4s", (b"FSOC", b"FSOS", b"XXXX"), "magic")):
                    for v in vals:
                        t = bytearray(d)
                        t[off:off + struct.calcsize(fmt)] = struct.pack(fmt, v)
                        t = bytes(t)
                        if t == d:
                            continue
                        muts.append(("rewrite %s=%r" % (nm, v), t, "noeffect"))
                        ln = struct.unpack(">H", t[13:15])[0]
                        body = t[:20 + ln]
                        if len(body) == 20 + ln:
                            muts.append(("rewrite %s=%r +crc" % (nm, v), body + struct.pack(">L", crc32(body)), "noeffect"))
                for name, raw, expect in muts:
                    w.C.time = w.vt
                    o = w.inject(side, raw)
                    o["expect"] = expect
                    rows.append(o)
                    meta.append((dict(side=side, keyed=True), dict(mutation=name, genuine_type=d[12], delivered=bool(delivered)), raw))
                    ctx.case(None)
                    if o["changed"] or o["ret"] in ("true", "exc"):
                        # state moved (violation, or an accepted extension): continue on a fresh world with the same history
                        w.close()
                        w = GateWorld(ctx.seed + 7)
                        e = w.endpoint(side)
        finally:
            w.close()
    ctx.extra["sweep_injections"] = len(rows)
    ctx.distinct_n += len(rows)
    return rows, meta


def loop_level(ctx):
    """The server endpoint as the network reaches it: forged datagrams from the client's own address go through datagramReceived and the
    real server loop while the connection is half-open (keyed, waiting for the challenge response) and while it is established."""
    import srvworld as SW
    from gateworld import snapshot
    ADDR = ("10.3.0.1", 3001)
    rows, meta = [], []
    crc32 = impl.mod("crypto").crc32
    for sitname in ("half-open", "established"):
        kinds = [("crc", t, n) for t in (1, 2, 3, 4, 5, 6, 7) for n in (0, 1, 2)] + [("otherkey", t, 1) for t in (3, 4, 6)] + [("random", t, 0) for t in (3, 4, 5, 6, 7)] + \
                [("flip", 0, 0), ("truncate", 0, 0), ("retype", 3, 0), ("retype", 5, 0), ("retype", 6, 0)] + [("flood", 0, 400), ("flood", 0, 150)]
        for kind, htype, n in kinds:
            w = SW.ServerWorld(seed=ctx.seed, conn_timeout=30.0, temp_timeout=30.0)
            try:
                C = w.C
                cl = w.add_client(1, ADDR, conn_timeout=30.0)
                c = w.clients[1]
                c["cut"] = True                  # the harness carries the client's datagrams by hand
                w.tick()
                hello = next(d for d in w.seen_from[ADDR] if d[12] == 1)
                w.inject(hello, ADDR, kind="client", genuine=1)
                for _ in range(8):
                    w.tick()
                    if any(d[12] == 3 for d in w.seen_from[ADDR]):
                        break
                crs = [d for d in w.seen_from[ADDR] if d[12] == 3]
                if not crs or ADDR not in w.ctxt.temp_connections:
                    raise Machinery("loop level: the honest handshake did not reach the half-open state")
                held = crs[0]                     # the genuine challenge response, not yet delivered
                if sitname == "established":
                    w.inject(held, ADDR, kind="client", genuine=1)
                    w.tick()
                    w.tick()
                    if ADDR not in w.ctxt.connections:
                        raise Machinery("loop level: the honest handshake did not complete")
                    n0 = len(w.seen_from[ADDR])
                    cl.send(w.aid(ADDR).to_bytes(4, "big") + b"DATAheld-back")
                    for _ in range(8):
                        w.tick()
                        if any(d[12] == 6 for d in w.seen_from[ADDR][n0:]):
                            break
                    held = next((d for d in w.seen_from[ADDR][n0:] if d[12] == 6), None)   # a genuine application datagram, not yet delivered
                    if held is None:
                        raise Machinery("loop level: no genuine application datagram recorded")
                pool = w.ctxt.temp_connections if sitname == "half-open" else w.ctxt.connections
                conn = pool[ADDR]
                cur = int(conn.bitfield_pkt.current_seqnum)
                seq = C.SeqNum((cur + 4) % 65535 + 1)
                if kind == "crc":
                    hdr = C.PacketHeader.create(False, int(w.vt.time()), C.PacketType(htype), seq, C.SeqNum(1), 0xFFFFFFFF)
                    msgs = [C.PendingMessage(C.SeqNum(900 + i), C.PacketType(htype), b"EVIL%d" % i, None, C.RetryMode.NONE) for i in range(n)]
                    raw = C.Packet.create(hdr, msgs).to_bytes(None)
                elif kind == "otherkey":
                    hdr = C.PacketHeader.create(False, int(w.vt.time()), C.PacketType(htype), seq, C.SeqNum(1), 0)
                    raw = C.Packet.create(hdr, [C.PendingMessage(C.SeqNum(901), C.PacketType(htype), b"otherkey", None, C.RetryMode.NONE)]).to_bytes(b"k" * 16)
                elif kind == "random":
                    hdr = C.PacketHeader.create(False, int(w.vt.time()), C.PacketType(htype), seq, C.SeqNum(1), 0)
                    raw = hdr.to_bytes()[:20] + os.urandom(40)
                elif kind == "flip":
                    t = bytearray(held)
                    t[len(t) - 3] ^= 0x10
                    raw = bytes(t)
                elif kind == "truncate":
                    raw = held[:len(held) - 5]
                elif kind == "flood":
                    raw = b""
                else:
                    t = bytearray(held)
                    if t[12] == htype:
                        continue
                    t[12] = htype
                    raw = bytes(t)
                before = snapshot(conn)
                ev0 = len(w.ev)
                if kind == "flood":
                    # "injected at every point" includes right behind one another: n forged datagrams of every kind from the client's address inside half a second.
                    # Each is discarded on its own; together they must not add up to anything either (no counter of rejected datagrams may decide a status)
                    per_tick = max(1, n // 25)
                    sent = 0
                    while sent < n:
                        for _ in range(per_tick):
                            k = sent % 5
                            fseq = C.SeqNum((cur + 5 + sent) % 65535 + 1)
                            if k == 0:
                                hdr = C.PacketHeader.create(False, int(w.vt.time()), C.PacketType(4 + sent % 4), fseq, C.SeqNum(1), 0xFFFFFFFF)
                                f = C.Packet.create(hdr, [C.PendingMessage(C.SeqNum(900), C.PacketType.APP, b"EVIL", None, C.RetryMode.NONE)]).to_bytes(None)
                            elif k == 1:
                                hdr = C.PacketHeader.create(False, int(w.vt.time()), C.PacketType.APP, fseq, C.SeqNum(1), 0)
                                f = C.Packet.create(hdr, [C.PendingMessage(C.SeqNum(901), C.PacketType.APP, b"otherkey", None, C.RetryMode.NONE)]).to_bytes(b"k" * 16)
                            elif k == 2:
                                hdr = C.PacketHeader.create(False, int(w.vt.time()), C.PacketType.APP, fseq, C.SeqNum(1), 0)
                                f = hdr.to_bytes()[:20] + os.urandom(30)
                            elif k == 3:
                                t = bytearray(held)
                                t[20 + sent % max(1, len(held) - 20)] ^= 1 << (sent % 8)
                                f = bytes(t)
                            else:
                                f = held[:20 + sent % max(1, len(held) - 20)]
                            w.inject(f, ADDR, kind="forged")
                            sent += 1
                        w.tick()
                    for _ in range(70):                      # a full second and more of server time afterwards
                        w.tick()
                else:
                    w.inject(raw, ADDR, kind="forged")
                    w.tick()
                    w.tick()
                after = snapshot(conn)
                own = ("out", "seqs", "pend", "rmsg", "retry") + (("timeouts", "cbs") if kind == "flood" else ())      # (the loop itself keeps sending keep-alives; over a second they time out unanswered)
                changed = sorted(k for k in after if after[k] != before[k] and k not in own)
                if pool.get(ADDR) is not conn:
                    changed.append("removed-from-pool")
                hev = [e["what"] for e in w.ev[ev0:] if e["ev"] == "h" and e["what"] in ("connect", "disconnect", "msg")]
                # the genuine datagram that was held back must still do its work afterwards
                w.inject(held, ADDR, kind="client", genuine=1)
                w.tick()
                w.tick()
                after_ev = [e["what"] for e in w.ev[ev0:] if e["ev"] == "h" and e["what"] in ("connect", "msg")]
                want = "connect" if sitname == "half-open" else "msg"
                if want not in after_ev:
                    changed.append("genuine-%s-no-longer-accepted" % want)
                o = dict(ret="false", changed=changed, app=int(bool(hev)), keychg=int(any(after[k] != before[k] for k in ("key", "token", "status"))), dropped=0, expect="noeffect")
                rows.append(o)
                meta.append((dict(side="server loop, " + sitname, keyed=True), dict(kind=kind, htype=htype, count=n), raw))
                ctx.case(("loop", sitname, kind, htype, n))
            finally:
                w.close()
    ctx.extra["server_loop_injections"] = len(rows)
    return rows, meta


def client_level(ctx):
    """The client endpoint as the network reaches it: forged datagrams with the server's direction mark arrive on the socket of a real UdpClient and go
    through UdpClient.update(), while the connection is established, while it is DROPPED (no authenticated datagram for more than 5 s) and while it is
    DISCONNECTING (the server closed it).  Nothing they carry may be delivered, and key, status (as the public API reports it), liveness clock and
    windows stay as they were."""
    import srvworld as SW
    from gateworld import snapshot
    ADDR = ("10.4.0.1", 3101)
    rows, meta = [], []
    kinds = [("crc", t, n) for t in (1, 2, 3, 4, 5, 6, 7) for n in (0, 1, 2)] + [("otherkey", t, 1) for t in (4, 5, 6)] + [("random", t, 0) for t in (2, 4, 5, 6, 7)] + \
            [("flip", 0, 0), ("truncate", 0, 0), ("retype", 4, 0), ("retype", 5, 0), ("retype", 6, 0)]
    for sitname in ("established", "dropped", "disconnecting"):
        w = SW.ServerWorld(seed=ctx.seed, conn_timeout=60.0, temp_timeout=30.0)
        try:
            C = w.C
            cl = w.add_client(1, ADDR)
            c = w.clients[1]
            for _ in range(30):
                w.tick()
            if not cl.connected():
                raise Machinery("client level: the honest handshake did not complete")
            cl.send(w.aid(ADDR).to_bytes(4, "big") + b"GUAR" + (7).to_bytes(4, "big"), retry=-1)
            for _ in range(10):
                w.tick()
            held = [d for d in w.sent_to[ADDR] if len(d) > 12 and d[12] in (4, 6)][-1]      # a genuine server datagram (already received once)
            if sitname == "dropped":
                c["deaf"] = True
                for _ in range(int(5.6 * 60)):
                    w.tick()
                if cl.status().value != 5:
                    raise Machinery("client level: the silent client did not report DROPPED (status %s)" % cl.status())
            elif sitname == "disconnecting":
                w.goodbye.add(ADDR)
                w.ctxt.connections[ADDR].disconnect()
                for _ in range(6):
                    w.tick()
                c["deaf"] = True
                if cl.status().value != 3:
                    raise Machinery("client level: the closed client did not report DISCONNECTING (status %s)" % cl.status())
            c["cut"] = True
            c["deaf"] = True
            conn = cl.conn
            for kind, htype, n in kinds:
                cur = int(conn.bitfield_pkt.current_seqnum)
                seq = C.SeqNum((cur + 4) % 65535 + 1)
                ack = C.SeqNum(max((int(k) for k in conn.pending_acks), default=1))
                if kind == "crc":
                    hdr = C.PacketHeader.create(True, int(w.vt.time()), C.PacketType(htype), seq, ack, 0xFFFFFFFF)
                    msgs = [C.PendingMessage(C.SeqNum(900 + i), C.PacketType(htype), b"EVIL%d" % i, None, C.RetryMode.NONE) for i in range(n)]
                    raw = C.Packet.create(hdr, msgs).to_bytes(None)
                elif kind == "otherkey":
                    hdr = C.PacketHeader.create(True, int(w.vt.time()), C.PacketType(htype), seq, ack, 0)
                    raw = C.Packet.create(hdr, [C.PendingMessage(C.SeqNum(901), C.PacketType(htype), b"otherkey", None, C.RetryMode.NONE)]).to_bytes(b"k" * 16)
                elif kind == "random":
                    hdr = C.PacketHeader.create(True, int(w.vt.time()), C.PacketType(htype), seq, ack, 0)
                    raw = hdr.to_bytes()[:20] + os.urandom(40)
                elif kind == "flip":
                    t = bytearray(held)
                    t[len(t) - 3] ^= 0x10
                    raw = bytes(t)
                elif kind == "truncate":
                    raw = held[:len(held) - 5]
                else:
                    t = bytearray(held)
                    if t[12] == htype:
                        continue
                    t[12] = htype
                    raw = bytes(t)
                before = snapshot(conn)
                pub0 = (cl.status().value, bool(cl.connected()), cl.token())
                got0 = len(c["got"])
                c["sock"].inbox.append(raw)
                err = ""
                mid = pub0
                try:
                    cl.update()
                    mid = (cl.status().value, bool(cl.connected()), cl.token())        # what the application sees between two frames
                    cl.update()
                except Exception as e:
                    err = type(e).__name__
                got = [bytes(m) for _, m in cl.getMessages()]
                after = snapshot(cl.conn) if cl.conn is not None else {}
                pub1 = (cl.status().value, bool(cl.connected()), cl.token())
                changed = sorted(k for k in before if after.get(k) != before[k] and k not in ("out", "seqs", "pend", "rmsg", "retry"))      # (the client itself keeps sending keep-alives)
                if pub1 != pub0 or mid != pub0:
                    changed.append("public-status %s -> %s -> %s" % (pub0, mid, pub1))
                if cl.conn is not conn:
                    changed.append("connection-object-replaced")
                o = dict(ret="exc" if err else "false", changed=changed, app=int(bool(got)), keychg=int(pub1 != pub0 or mid != pub0 or any(after.get(k) != before[k] for k in ("key", "token", "status"))), dropped=0, expect="noeffect")
                rows.append(o)
                meta.append((dict(side="client API, " + sitname, keyed=True), dict(kind=kind, htype=htype, count=n), raw))
                ctx.case(("client", sitname, kind, htype, n))
                if changed or got or err:
                    break          # the state moved (a violation): the remaining classes of this situation would be judged against a disturbed endpoint
        finally:
            w.close()
    ctx.extra["client_api_injections"] = len(rows)
    return rows, meta


def run(ctx):
    ctx.level = "model_checking"
    ctx.rule = ("table: one injection per (situation, datagram class) enumerated by TLC; sweep: one injection per byte-level mutation of a genuine datagram; distinct = injections; "
                "non-trivial = the datagram passes the header parse (magic, direction, type) so that it reaches the decode / duplicate / dispatch stages")
    ctx.assumptions += ["AES-GCM is unforgeable (wrong-key and tampered ciphertext cannot verify); the check establishes that the code consults the tag for every datagram once a key exists",
                        "what the single pre-key hello does is C02's business: here only 'no application delivery' is required of it",
                        "an exception escaping UdpClient.update for an unparsable header is outside the statement (state is untouched); noted in DESIGN.md"]
    r = ctx.mc("Gate", "SPECIFICATION Spec\nVIEW NoLast\nPROPERTY NoEffect\nPROPERTY PreKeyNoApp\nPROPERTY PreKeyOnlyHello\nPROPERTY KeyStable\nCHECK_DEADLOCK FALSE\n", label="Gate", timeout=300)
    if r.ok and r.generated < 1000:
        raise Machinery("Gate model explored only %d transitions" % r.generated)
    if not r.ok:
        ctx.fail("Gate specification: %s violated" % r.violation["name"], dict(trace=r.trace[-4:]))
        return
    wd = T.workdir("c01")
    try:
        rows, meta = table(ctx, wd)
        rows2, meta2 = sweep(ctx)
        rows += rows2
        meta += meta2
        rows3, meta3 = loop_level(ctx)
        rows += rows3
        meta += meta3
        rows4, meta4 = client_level(ctx)
        rows += rows4
        meta += meta4
        path = os.path.join(wd, "obs.json")
        open(path, "w").write(json.dumps(rows))
        j = ctx.mc("Obs_Gate", "INIT ObsInit\nNEXT GNext\nINVARIANT AllOK\nALIAS Where\nCHECK_DEADLOCK FALSE\n", env=dict(OUT_FILE=path, OBS_FILE=path), coverage=False,
                   label="Obs_Gate judge (%d injections)" % len(rows), cont=True, workers=4, heap="6g")
        ctx.traces += len(rows)
        k = next((i for i, m in enumerate(meta) if m[1].get("seal") == "crc" and m[1].get("count") == 2), 0)
        ctx.sample(dict(situation=meta[k][0], datagram_class=meta[k][1], bytes_hex=meta[k][2][:48].hex(), observed=rows[k]))
        ctx.sample(dict(situation=meta[-1][0], mutation=meta[-1][1], observed=rows[-1]))
        if not j.ok:
            if j.violation["kind"] != "invariant":
                raise Machinery("Obs_Gate judge failed: %s" % j.violation["text"][:1500])
            n = 0
            for tr in j.traces:
                for kk, row in to_json(T.materialise(tr[-1]).get("bad", []))[:4]:
                    n += 1
                    sit, c, raw = meta[kk - 1]
                    ctx.fail("%s endpoint (%s): datagram %s expected '%s' but: returned %s, changed %s, application delivery=%s, key/status changed=%s"
                             % (sit["side"], "keyed" if sit["keyed"] else "no key yet", json.dumps(c, sort_keys=True), row["expect"], row["ret"], row["changed"], row["app"], row["keychg"]),
                             dict(situation=sit, datagram=c, bytes_hex=raw.hex(), observed=row))
            if not n:
                ctx.fail("gate observation table rejected by TLC", dict(text=j.violation["text"][:400]))
    finally:
        shutil.rmtree(wd, ignore_errors=True)
    # injections at random points of adversarial connection histories (loss, duplication, reordering, fragments, all retry modes, wrap crossing): clause F_noeffect of Trace_Conn
    from props import conn_judge as J
    q = ctx.quick
    J.run_scenarios(ctx, "C01", [
        dict(name="injections-in-histories", n=4 if q else 30, nticks=700 if q else 2500, heal_after=500 if q else 2000,
             policy=dict(p_forge=0.5, p_loss=0.1, p_dup=0.05, maxdelay=10), world=dict(start_seq="alt")),
    ])


def replay(ctx, doc):
    c = doc["case"]
    w = make_world(c["situation"], 1)
    try:
        print(w.inject(c["situation"]["side"], bytes.fromhex(c["bytes_hex"])))
    finally:
        w.close()

"""C09 codec part: TLC enumerates abstract packets (specs/Obs_Wire.tla), the real Packet/PacketHeader encode and decode them,
TLC judges the round trip and the length / count clauses (specs/Wire.tla)."""
import json, os, shutil, random
import impl, tlc as T
from tlaval import to_json
from core import Machinery


def run(ctx):
    C = impl.mod("connection")
    counts = "{0, 1, 2, 3, 255}" if ctx.quick else "{0, 1, 2, 3, 17, 254, 255}"
    lens = "{0, 1, 7}" if ctx.quick else "{0, 1, 7, 200}"
    base = "NEXT WNext\nCONSTANTS\n Counts = %s\n MsgLens = %s\n" % (counts, lens)
    wd = T.workdir("wire")
    try:
        inp = os.path.join(wd, "packets.json")
        g = ctx.mc("Obs_Wire", "INIT GenInit\n" + base + "CHECK_DEADLOCK FALSE\n", env=dict(OUT_FILE=inp, OBS_FILE=inp), coverage=False, workers=1, count=False,
                   label="Obs_Wire generate", heap="8g")
        if not g.ok or not os.path.exists(inp):
            raise Machinery("packet generation failed: %s" % (g.violation,))
        packets = json.load(open(inp))["packets"]
        key = b"0123456789abcdef"
        rnd = random.Random(ctx.seed)
        obs = []
        for p in packets:
            hdr = C.PacketHeader.create(bool(p["srv"]), p["ctime"][0] * 65536 + p["ctime"][1], C.PacketType(p["type"]), C.SeqNum(p["seq"]), C.SeqNum(p["ack"]),
                                        impl.from_offsets(p["bits"], 32))
            payloads = [bytes(rnd.getrandbits(8) for _ in range(m["len"])) for m in p["msgs"]]
            msgs = [C.PendingMessage(C.SeqNum(m["seq"]), C.PacketType(m["type"]), pl, None, 0) for m, pl in zip(p["msgs"], payloads)]
            o = dict(ok=0, srv=-1, ctime=[-1, -1], type=-1, seq=-1, ack=-1, bits=[], msgs=[], bytes_ok=0, count=-1, length=-1, size=-1)
            try:
                pkt = C.Packet.create(hdr, msgs)
                k = key if p["keyed"] else None
                raw = pkt.to_bytes(k)
                # the receiver of a packet is the opposite side
                h2 = C.PacketHeader.from_bytes(not bool(p["srv"]), raw)
                back = C.Packet.from_bytes(h2, k, raw)
                o.update(ok=1, srv=int(not h2.isServer), ctime=[h2.ctime >> 16, h2.ctime & 0xFFFF], type=h2.pkt_type.value, seq=int(h2.seq), ack=int(h2.ack),
                         bits=impl.offsets(h2.ack_bits, 32), msgs=[dict(seq=int(m.seq), type=m.type.value, len=len(m.payload)) for m in back.msgs],
                         bytes_ok=int([bytes(m.payload) for m in back.msgs] == payloads), count=h2.count, length=h2.length, size=len(raw))
            except Exception as e:
                o["err"] = type(e).__name__
            obs.append(o)
            ctx.case(None)
        path = os.path.join(wd, "obs.json")
        open(path, "w").write(json.dumps([{k: v for k, v in o.items() if k != "err"} for o in obs]))
        r = ctx.mc("Obs_Wire", "INIT ObsInit\n" + base + "INVARIANT AllOK\nINVARIANT Complete\nALIAS Where\nCHECK_DEADLOCK FALSE\n", env=dict(OUT_FILE=inp, OBS_FILE=path),
                   coverage=False, label="Obs_Wire judge (%d packets)" % len(packets), heap="8g", cont=True, workers=4)
        ctx.extra["codec_packets"] = len(packets)
        ctx.distinct_n += len(packets)
        ctx.sample(dict(kind="codec_packet", packet=packets[len(packets) // 3], observed={k: v for k, v in obs[len(packets) // 3].items() if k != "msgs"}))
        if not r.ok:
            if r.violation["kind"] != "invariant":
                raise Machinery("Obs_Wire judge failed: %s" % r.violation["text"][:1500])
            n = 0
            for tr in r.traces:
                for b in to_json(T.materialise(tr[-1]).get("bad", []))[:3]:
                    n += 1
                    k, p, o = b
                    ctx.fail("packet %s (msgs %d) does not round-trip through the codec: decoded %s %s" % ({x: p[x] for x in ("srv", "ctime", "type", "seq", "ack", "bits", "keyed")}, len(p["msgs"]),
                                                                                                     {x: o[x] for x in ("ok", "srv", "ctime", "type", "seq", "ack", "bits", "count", "length", "size", "bytes_ok")}, obs[k - 1].get("err", "")),
                             dict(kind="codec", packet=p, observed=o))
            if not n:
                ctx.fail("codec observation table rejected by TLC (%s)" % r.violation["name"], dict(text=r.violation["text"][:400]))
    finally:
        shutil.rmtree(wd, ignore_errors=True)

"""X12 (extension, beyond the listed properties) - DummyClient of the pygame engine: the delay line a single-player game plugs in where the network client would be.

specs/DummyLink.tla: send() / update() over `Delay` slots; TLC checks ExactDelay (a message arrives during the Delay-th update after it was sent), InOrderOnce,
NothingStuck, SlotsShape for Delay = 1, 2, 3; every transition of each state graph is taken on the real class (messages are real serialized NetworkPlayerState
objects; the remote controller is a recorder).  Delay = 0 is accepted by the constructor and makes every send() raise IndexError: reported as a finding.
"""
import json
import impl, tlc as T
from tlaval import to_json
from core import Machinery
from graphreplay import replay_graph
from props.x04 import engine


def run(ctx):
    E = engine()
    ctx.level = "model_checking"
    ctx.exhaustive = True
    ctx.rule = "every transition of the state graphs of DummyLink.tla (Delay = 1, 2, 3) taken on the real DummyClient; distinct = transitions; non-trivial = all"
    ctx.assumptions += ["extension check: not one of the listed properties", "pygame is replaced by an inert stand-in module; messages are real serialized NetworkPlayerState objects"]
    n = 7 if ctx.quick else 10
    total = 0
    for delay in (1, 2, 3):
        c = "CONSTANTS\n Delay = %d\n MaxOps = %d\n" % (delay, n)
        r = ctx.mc("DummyLink", "SPECIFICATION Spec\n" + c + "INVARIANT ExactDelay\nINVARIANT InOrderOnce\nINVARIANT NothingStuck\nINVARIANT SlotsShape\nCHECK_DEADLOCK FALSE\n",
                   label="DummyLink Delay=%d MaxOps=%d" % (delay, n), need=["Send", "Update"])
        if not r.ok:
            ctx.fail("DummyLink.tla: %s violated (Delay=%d)" % (r.violation["name"], delay), dict(trace=to_json([s["state"] for s in r.trace[-8:]])))
            return
        states, edges, init, g = T.dump_graph("DummyLink", "SPECIFICATION Spec\n" + c + "CHECK_DEADLOCK FALSE\n", workers=1)
        if not states:
            raise Machinery("graph dump failed: %s" % (g.violation,))

        class Ctrl:
            def __init__(s):
                s.got = []

            def receiveState(s, msg):
                s.got.append(int(msg.token))

        def make():
            ctrl = Ctrl()
            return dict(ctrl=ctrl, dc=E.DummyClient(ctrl, delay=delay), n=0)

        def apply(w, op):
            err = ""
            w["ctrl"].got = []
            try:
                if op == "send":
                    w["n"] += 1
                    st = E.NetworkPlayerState()
                    st.token = w["n"]
                    w["dc"].send(st.dumpb())
                else:
                    w["dc"].update(1 / 60)
            except Exception as e:
                err = "%s: %s" % (type(e).__name__, e)
            return (tuple(len(q) for q in w["dc"].input_queue), tuple(w["ctrl"].got), err)

        def canon(st):
            st = to_json(st)
            return (tuple(len(q) for q in st["slots"]), tuple(st["last"]["delivered"]), "")
        n_tr, mm = replay_graph(states, edges, init, make, apply, lambda st: st["last"]["op"], canon, on_case=lambda s, op: ctx.case((delay, s, op)))
        total += n_tr
        for m in mm[:3]:
            ctx.fail("DummyClient(delay=%d) leaves DummyLink.tla: after %s, %s gives [slot sizes, delivered, error] = %s; specification allows %s"
                     % (delay, json.dumps(m["path"][-8:]), m["op"], m["observed"], m["allowed"]), m)
        if mm:
            return
    ctx.traces = total
    ctx.extra.update(transitions_taken_on_real_object=total)
    # the constructor accepts delay = 0 (a replay without latency); send() then indexes slot -1 of an empty list
    try:
        dc = E.DummyClient(None, delay=0)
        st = E.NetworkPlayerState()
        dc.send(st.dumpb())
        zero = "ok"
    except Exception as e:
        zero = type(e).__name__
    ctx.extra["delay_zero"] = zero
    if zero != "ok":
        ctx.fail("DummyClient(ctrl, delay=0) is accepted by the constructor and every send() then raises %s (input_queue is empty, send() indexes its last slot): a link without latency "
                 "cannot be configured" % zero, dict(delay=0, outcome=zero), sig="dummyclient-zero-delay")


def replay(ctx, doc):
    print(json.dumps(doc["case"], indent=1)[:3000])

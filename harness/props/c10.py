"""C10 - server handler lifecycle: connect once, then messages, then disconnect once; one thread; distinct tokens.

Design: specs/Server.tla model-checked over every interleaving of a few clients (added separately).  Code: the real server loop in
lock-step with real UdpClients (harness/srvworld.py); every handler event of random many-client runs (reconnects from the same address,
kicks, silences, handler exceptions, garbage, replays, shutdown at a random tick) and of forced token collisions is judged by
specs/Trace_Server.tla (clauses L_x).
"""
import os, struct
from props import srv_judge as SJ


def token_collisions(args):
    """The token generator's randomness is the environment's: feed it candidates from a four-value space so that equal draws happen."""
    seed, nticks = args
    import random
    import srvworld as SW
    rnd = random.Random(seed)
    # raw draws: the same low bits under every pair of top bits (the token is the draw with bit 31 cleared and bit 30 set, so all four collide)
    space = [struct.pack(">L", top | v) for v in (11, 22, 33, 44) for top in (0x40000000, 0x00000000, 0x80000000, 0xC0000000)]

    def urandom(n):
        return rnd.choice(space) if n == 4 else os.urandom(n)
    w = SW.ServerWorld(seed=seed, conn_timeout=2.0, urandom=urandom)
    try:
        for k in range(3):
            w.add_client(k + 1, ("10.1.0.%d" % k, 2000 + k))
        for t in range(nticks):
            if t % 90 == 60:                      # one client at a time leaves and a new one arrives: the generator keeps drawing
                k = (t // 90) % 3
                cid = max(c for c in w.clients if (c - 1) % 3 == k)
                w.client_disconnect(cid)
            if t % 90 == 80:
                k = (t // 90) % 3
                cid = max(c for c in w.clients if (c - 1) % 3 == k)
                w.remove_client(cid)
                w.add_client(cid + 3, ("10.1.0.%d" % k, 2000 + k + 10 * (t // 90 + 1)))
            w.tick()
        w.shutdown()
        return w.ev
    finally:
        w.close()


def zombie(args):
    """A connected client dies; byte-identical copies of its last datagram keep arriving (a replayer, or the network): the silence time-out
    must still report the disconnect (copies prove nothing), and a reconnect from that address must then be possible."""
    seed, every = args
    import srvworld as SW
    w = SW.ServerWorld(seed=seed, conn_timeout=2.0)
    try:
        w.add_client(1, ("10.5.0.1", 7001))
        w.add_client(2, ("10.5.0.2", 7002))
        for t in range(60):
            w.tick()
        c = w.clients[1]
        c["cut"] = True
        c["deaf"] = True
        last = w.seen_from[c["addr"]][-1]
        for t in range(60 * 7):
            if t % every == every - 1:
                w.inject(last, c["addr"], kind="replay")
            w.tick()
        w.shutdown()
        return w.ev
    finally:
        w.close()


def match_over(args):
    """The handler closes the remaining players from inside a disconnect event ("opponent left, match over"); the server is shut down k ticks later.
    Clients closed by the server that are still in the pool when the loop ends have not been reported yet: each must get its disconnect event once."""
    seed, k, leaver = args
    import srvworld as SW
    w = SW.ServerWorld(seed=seed, conn_timeout=2.0)
    try:
        for c in (1, 2, 3):
            w.add_client(c, ("10.6.0.%d" % c, 7100 + c))
        for t in range(60):
            w.tick()
        CONNECTED = w.C.ConnectionStatus.CONNECTED

        def hook(client):
            for other in list(w.ctxt.connections.values()):
                if other is not client and other.status == CONNECTED:
                    w.goodbye.add(other.addr)
                    other.disconnect()
        w.on_disconnect = hook
        w.client_disconnect(leaver)
        for t in range(k):
            w.tick()
        w.shutdown()
        return w.ev
    finally:
        w.close()


def login_from_callback(args):
    """The application sends its first (guaranteed, echoed) request from inside the connect callback, so that it shares a datagram with the challenge response,
    while the handler's connect event raises: events keep flowing - the request reaches the handler and is answered."""
    seed, raising = args
    import srvworld as SW
    w = SW.ServerWorld(seed=seed, conn_timeout=2.0, handler_raise=1.0 if raising else 0.0)
    try:
        w.raise_in = {"connect"}
        for c in (1, 2, 3):
            w.add_client(c, ("10.7.0.%d" % c, 7200 + c), callback="login")
            for t in range(7):
                w.tick()
        for t in range(90):
            w.tick()
        w.shutdown()
        return w.ev
    finally:
        w.close()


def second_challenge(args):
    """Connected clients transmit their challenge response again as a fresh, correctly sealed message (at several points of their life, also twice in a
    row and together with application data): the connect event was raised once and stays raised once, messages keep being attributed, disconnect comes once."""
    seed, gap = args
    import srvworld as SW
    w = SW.ServerWorld(seed=seed, conn_timeout=2.0)
    try:
        for c in (1, 2, 3):
            w.add_client(c, ("10.8.0.%d" % c, 7300 + c))
        for t in range(40):
            w.tick()
        for rnd_ in range(4):
            for c in (1, 2, 3):
                if w.clients[c]["cl"].connected():
                    w.uniq += 1
                    if c != 2:
                        w.clients[c]["cl"].send(w.aid(w.clients[c]["addr"]).to_bytes(4, "big") + b"DATA" + w.uniq.to_bytes(4, "big") + b"before", retry=-1)
                    w.resend_challenge(c)
                    if c == 3:
                        w.resend_challenge(c)
                    w.uniq += 1
                    w.clients[c]["cl"].send(w.aid(w.clients[c]["addr"]).to_bytes(4, "big") + b"DATA" + w.uniq.to_bytes(4, "big") + b"after", retry=-1)
                for t in range(gap):
                    w.tick()
        w.client_disconnect(1)
        for t in range(30):
            w.tick()
        w.shutdown()
        return w.ev
    finally:
        w.close()


def inner_hello(args):
    """A connected peer bundles a CLIENT_HELLO-typed message with application data in one genuine sealed datagram (also twice, and while other clients connect with
    a token generator that repeats itself): the peer stays the client it was announced as - same token in every later event, no second connect, one disconnect -
    and the tokens of simultaneously connected clients stay distinct."""
    seed, gap = args
    import random, struct, os
    import srvworld as SW
    rnd = random.Random(seed)
    space = [struct.pack(">L", 0x40000000 | v) for v in (11, 22, 33)]

    def urandom(n):
        return rnd.choice(space) if n == 4 else os.urandom(n)
    w = SW.ServerWorld(seed=seed, conn_timeout=2.0, urandom=urandom)
    try:
        w.add_client(1, ("10.9.0.1", 7401))
        for t in range(30):
            w.tick()
        w.inner_hello(1)
        for t in range(gap):
            w.tick()
        w.add_client(2, ("10.9.0.2", 7402))
        for t in range(30):
            w.tick()
        for c in (1, 2):
            if w.clients[c]["cl"].connected():
                w.uniq += 1
                w.clients[c]["cl"].send(w.aid(w.clients[c]["addr"]).to_bytes(4, "big") + b"DATA" + w.uniq.to_bytes(4, "big") + b"later", retry=-1)
        w.inner_hello(1)
        for t in range(30):
            w.tick()
        w.add_client(3, ("10.9.0.3", 7403))
        for t in range(30):
            w.tick()
        w.client_disconnect(1)
        for t in range(40):
            w.tick()
        w.shutdown()
        return w.ev
    finally:
        w.close()


def run(ctx):
    ctx.level = "model_checking"
    ctx.rule = ("events of recorded executions of the real server loop judged by TLC against Trace_Server; distinct = handler events + datagrams in/out; "
                "non-trivial = every handler event (each is checked against the lifecycle clauses)")
    ctx.assumptions += ["the server loop is driven in lock-step under a virtual clock (module attributes time/sleep/reactor/select rebound from outside); sockets and the Twisted reactor are replaced",
                        "payloads are tagged by the driver with the sender's address id so that messages can be attributed"]
    q = ctx.quick
    try:
        from props import srv_model
        srv_model.c10_models(ctx)
    except ImportError:
        ctx.note("design model Server.tla not built yet")
    SJ.run_scenarios(ctx, "C10", [
        dict(name="many-clients", n=8 if q else 60, nticks=1500 if q else 4000, kw=dict(nclients=5, p_raise=0.03, reuse_addr=0.4, p_rechal=0.004)),
        dict(name="many-clients-early-shutdown", n=6 if q else 40, nticks=1500, kw=dict(nclients=8, p_raise=0.02, p_connect=0.05, stop_at=None)),
        dict(name="forty-clients", n=1 if q else 6, nticks=1200 if q else 3000, kw=dict(nclients=40, p_raise=0.01, p_connect=0.01, p_send=0.05)),
    ] + [dict(name="shutdown-at-%d" % t, n=1, nticks=t + 1, kw=dict(nclients=6, p_connect=0.08, stop_at=t)) for t in ((40, 90, 200, 333) if q else range(20, 620, 15))])
    from concurrent.futures import ProcessPoolExecutor
    zj = [(ctx.seed + e, e) for e in ((20, 60, 100) if q else range(10, 115, 7))]
    with ProcessPoolExecutor(min(8, len(zj))) as ex:
        ztr = list(ex.map(zombie, zj))
    SJ.judge_and_report(ctx, "C10", ztr, ["zombie kept alive by a copy every %d ticks" % j[1] for j in zj])
    mj = [(ctx.seed, k, leaver) for k in range(1, 9 if q else 16) for leaver in ((3, 1) if q else (1, 2, 3))]
    with ProcessPoolExecutor(min(8, len(mj))) as ex:
        mtr = list(ex.map(match_over, mj))
    SJ.judge_and_report(ctx, "C10", mtr, ["match over: client %d leaves, the handler closes the others, shutdown %d ticks later" % (j[2], j[1]) for j in mj])
    lj = [(ctx.seed + i, r) for i in range(1 if q else 4) for r in (True, False)]
    with ProcessPoolExecutor(min(8, len(lj))) as ex:
        ltr = list(ex.map(login_from_callback, lj))
    SJ.judge_and_report(ctx, "C10", ltr, ["first request sent from the connect callback, handler.connect %s" % ("raises" if j[1] else "returns") for j in lj])
    cj = [(ctx.seed + g, g) for g in ((1, 7) if q else (1, 2, 3, 7, 20, 45))]
    with ProcessPoolExecutor(min(8, len(cj))) as ex:
        ctr = list(ex.map(second_challenge, cj))
    SJ.judge_and_report(ctx, "C10", ctr, ["connected clients transmit their challenge response again (fresh message), %d ticks apart" % j[1] for j in cj])
    ij = [(ctx.seed + g, g) for g in ((2, 9) if q else (1, 2, 5, 9, 30, 61))]
    with ProcessPoolExecutor(min(8, len(ij))) as ex:
        itr = list(ex.map(inner_hello, ij))
    SJ.judge_and_report(ctx, "C10", itr, ["a connected peer bundles a CLIENT_HELLO-typed message with application data, next client %d ticks later" % j[1] for j in ij])
    jobs = [(ctx.seed + i, 700 if q else 2500) for i in range(3 if q else 16)]
    with ProcessPoolExecutor(min(8, len(jobs))) as ex:
        traces = list(ex.map(token_collisions, jobs))
    SJ.judge_and_report(ctx, "C10", traces, ["token-collisions#%d(seed=%d)" % (i, j[0]) for i, j in enumerate(jobs)])

"""X06 (extension, beyond the listed properties) - the life of one UdpClient as a game sees it.

specs/ClientLife.tla: connect / send / disconnect+waitForDisconnect / forceDisconnect / status / connect callback, time passing in macro
steps with the link up or cut, and a server-side kick.  TLC checks Alternate / CallbackOnce / ConnectedMeansKnown; every transition of the
state graph is then taken on a real UdpClient against the real server loop (harness/srvworld.py, virtual time) and the observable state -
status(), connected(), the callback results, whether the server holds a connection, the handler's connect / disconnect counts, whether a
probe message arrived - compared after each step.
"""
import json
import impl, tlc as T
from tlaval import to_json
from core import Machinery
from graphreplay import replay_graph

ADDR = ("10.4.0.1", 4001)
NAMES = {1: "CONNECTING", 2: "CONNECTED", 3: "DISCONNECTING", 4: "DISCONNECTED", 5: "DROPPED"}


class World:
    def __init__(self, seed):
        import srvworld as SW
        self.w = SW.ServerWorld(seed=seed, conn_timeout=3.0, temp_timeout=3.0)
        self.cl = None
        self.cutflag = False
        self.nprobe = 0
        self.got = False

    def close(self):
        self.w.close()

    def run(self, ticks):
        for _ in range(ticks):
            self.w.tick()

    def apply(self, op):
        w = self.w
        self.got = False
        n0 = len(w.ev)
        err = ""
        try:
            if op == "connect":
                if self.cl is None:
                    self.cl = w.add_client(1, ADDR, callback=True, conn_timeout=3.0)
                    w.clients[1]["cut"] = w.clients[1]["deaf"] = self.cutflag
                else:
                    w.reconnect(1)
            elif op in ("cut", "heal"):
                self.cutflag = (op == "cut")
                if 1 in w.clients:
                    w.clients[1]["cut"] = w.clients[1]["deaf"] = self.cutflag
            elif op == "runup":
                self.run(48)
            elif op == "runcut":
                self.run(240)
            elif op == "runcut5":
                self.run(360)
            elif op in ("send", "kick"):
                self.nprobe += 1
                tag = w.aid(ADDR).to_bytes(4, "big")
                probe = tag + (b"KICK" if op == "kick" else b"DATA") + b"probe-%d" % self.nprobe
                self.cl.send(probe)
                self.run(48)
                self.got = any(e["ev"] == "h" and e["what"] == "msg" for e in w.ev[n0:])
            elif op == "goodbye":
                CL = w.CL
                world = self

                class SleepClock:
                    def sleep(s, d):
                        world.w.tick()

                    def __getattr__(s, k):
                        return getattr(world.w.vt, k)
                saved = CL.time
                CL.time = SleepClock()
                t0 = w.tickno
                try:
                    w.goodbye.add(ADDR)
                    self.cl.disconnect()
                    self.cl.waitForDisconnect()
                finally:
                    CL.time = saved
                used = w.tickno - t0
                self.run((18 if used < 18 else 72) - used)        # 0.3 s when the server acknowledged, 1.2 s when the wait gave up
            elif op == "force":
                self.cl.forceDisconnect()
        except Exception as e:
            err = "%s: %s" % (type(e).__name__, e)
        return self.observe(err)

    def observe(self, err=""):
        w = self.w
        cl = self.cl
        if cl is None or cl.conn is None:
            cst = "NONE"
        else:
            cst = NAMES.get(cl.status().value, str(cl.status()))
        api_ok = True
        if cl is not None:
            # the public predicates agree with each other
            api_ok = (cl.connected() == (cst == "CONNECTED")) and ((cl.conn is None) <= (cl.status().value == 4))
        hs = [e["what"] for e in w.ev if e["ev"] == "h" and e.get("a") == w.aid(ADDR)]
        cbs = tuple(w.clients[1]["cb"]) if 1 in w.clients else ()
        return (cst, ADDR in w.ctxt.connections, cbs, hs.count("connect"), hs.count("disconnect"), self.got, api_ok, err)


def run(ctx):
    ctx.level = "model_checking"
    ctx.exhaustive = True
    ctx.rule = "every transition of the state graph of ClientLife.tla taken on a real UdpClient against the real server loop under virtual time; distinct = transitions; non-trivial = all but link changes"
    ctx.assumptions += ["extension check: not one of the listed properties", "macro steps: 0.8 s link up, 4 s / 6 s link cut; server connection time-out 3 s, client connect time-out 3 s; silence limit 5 s (the code)"]
    n = 5 if ctx.quick else 7
    c = "CONSTANT MaxOps = %d\n" % n
    r = ctx.mc("ClientLife", "SPECIFICATION Spec\n" + c + "INVARIANT Alternate\nINVARIANT CallbackOnce\nINVARIANT NoEternalZombie\nCHECK_DEADLOCK FALSE\n",
               need=["Connect", "RunUp", "RunCut", "RunCut5", "Send", "Kick", "Goodbye", "Force"], label="ClientLife MaxOps=%d" % n)
    if not r.ok:
        ctx.fail("ClientLife.tla: %s violated" % r.violation["name"], dict(trace=to_json([s["state"] for s in r.trace[-8:]])))
        return
    states, edges, init, g = T.dump_graph("ClientLife", "SPECIFICATION Spec\n" + c + "CHECK_DEADLOCK FALSE\n", workers=1)
    if not states:
        raise Machinery("graph dump failed: %s" % (g.violation,))
    worlds = []

    def make():
        for w in worlds:
            w.close()
        del worlds[:]
        w = World(ctx.seed)
        worlds.append(w)
        return w

    def canon(st):
        st = to_json(st)
        return (st["cst"], bool(st["srv"]), tuple(bool(x) for x in st["cbs"]), st["hconn"], st["hdisc"], bool(st["got"]), True, "")
    try:
        n_tr, mm = replay_graph(states, edges, init, make, lambda w, op: w.apply(op), lambda st: st["last"], canon,
                                on_case=lambda s, op: ctx.case((s, op), nontrivial=op not in ("cut", "heal")))
    finally:
        for w in worlds:
            w.close()
    ctx.traces = n_tr
    ctx.extra.update(graph_states=len(states), transitions_taken_on_real_client=n_tr)
    for m in mm[:4]:
        ctx.fail("UdpClient leaves ClientLife.tla: after %s, %s gives [status, server holds connection, callback results, handler connects, handler disconnects, probe arrived, predicates agree, error] = %s; specification allows %s"
                 % (json.dumps(m["path"]), m["op"], m["observed"], m["allowed"]), m)


def replay(ctx, doc):
    c = doc["case"]
    w = World(doc.get("seed", 0))
    try:
        for op in c["path"] + [c["op"]]:
            print(op, w.apply(op))
    finally:
        w.close()

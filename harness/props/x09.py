"""X09 (extension, beyond the listed properties) - the statistics surface of a connection: ConnectionStats counters, rolling per-second bins, the
latency estimate, pending_acks (mpgameserver/connection.py), as the GUI server plots them and applications read them through stats().

specs/Stats.tla: every statement that touches a counter / bin / pending datagram is one operator on the endpoint's state record; TLC checks Conservation
(every assembled datagram is acked, timed out, pending or abandoned by disconnect() - exactly one of them), BinsBounded, BinsCount, LatBounded, NoEarlyTimeout,
Monotone on the design model, and reports that the docstring's "each bin is a particular second" (BinsAreSeconds) does not hold for the code as written.
specs/Trace_Stats.tla: the calls of recorded executions of real endpoints - a ClientServerConnection driven by a real UdpClient over a fake socket and a
real ServerClientConnection driven the way the server loop drives it - are replayed through the same operators; the statistics reported after every call must
be the specification's (clauses X_counters X_pend X_seq X_bins_sent X_bins_recv X_lat X_conserve X_due X_alldue X_rate X_acts).  Runs longer than 300 s
of virtual time make the bins roll.
"""
import json, random
from concurrent.futures import ProcessPoolExecutor
import impl, tracejudge
from core import Machinery
from tlaval import to_json

KEY = b"S" * 16


class World:
    """UdpClient(fake socket) <-> ServerClientConnection, preset key, virtual time; one recorded event per call into either connection object."""

    def __init__(self, seed, tick_us, srv_ka=None, cli_ka=None, timeout=None):
        from connworld import VClock
        from apiworld import FakeSock
        self.C = C = impl.mod("connection")
        self.CL = CL = impl.mod("client")
        X, H = impl.mod("context"), impl.mod("handler")
        self.rnd = random.Random(seed)
        self.vt = VClock(100_000_000)
        C.time = self.vt
        CL.time = self.vt
        self.tick_us = tick_us
        self.sock = sock = FakeSock()

        class Sel:
            @staticmethod
            def select(r, w, x, t):
                return ([sock] if sock.inbox else [], w, [])
        self._select = CL.select
        CL.select = Sel
        self.client = CL.UdpClient()
        self.client.addr = ("srv", 1)
        self.client.sock = sock
        cc = C.ClientServerConnection(("srv", 1))
        cc.clock = self.vt.time
        cc.session_key_bytes = KEY
        cc.status = C.ConnectionStatus.CONNECTED
        self.client.conn = cc
        ctxt = X.ServerContext(H.EventHandler())
        sc = C.ServerClientConnection(ctxt, ("cli", 2))
        sc.clock = self.vt.time
        sc.session_key_bytes = KEY
        sc.status = C.ConnectionStatus.CONNECTED
        for e, ka in ((cc, cli_ka), (sc, srv_ka)):
            if ka is not None:
                e.send_keep_alive_interval = ka
            if timeout is not None:
                e.outgoing_timeout = timeout
        self.ends = {"c": cc, "s": sc}
        self.ev = {"c": [], "s": []}
        self.depth = {"c": 0, "s": 0}
        self.cur = {"c": None, "s": None}
        for n in ("c", "s"):
            self._wrap(n)
        self.flight = []          # (due_us, dst, raw)
        self.interval = int(round(cc.send_interval * 1e6))
        self.timeout = int(round(cc.outgoing_timeout * 1e6))

    def close(self):
        import time as _t
        self.C.time = _t
        self.CL.time = _t
        self.CL.select = self._select

    # ---- recorder (wrappers from outside; nested calls are folded into the outermost call's event)
    def snap(self, n):
        e = self.ends[n]
        s = e.stats
        f = lambda q: [len(q), q[-1], sum(q)]
        return dict(assembled=s.assembled, sent=s.sent, dropped=s.dropped, received=s.received, acked=s.acked, timeouts=s.timeouts,
                    pend=sorted(int(k) for k in e.pending_acks), lat=int(round(e.latency * 1e6)), ps=f(s.pkts_sent), bs=f(s.bytes_sent), pr=f(s.pkts_recv), br=f(s.bytes_recv),
                    dseq=int(e.seq_sending))

    def begin(self, n):
        self.depth[n] += 1
        if self.depth[n] == 1:
            self.cur[n] = dict(now=self.vt.us, recv="none", rsize=0, acts=[], disc=0, k=0, built=0, esize=0, full=0)
        return self.cur[n]

    def end(self, n):
        self.depth[n] -= 1
        if self.depth[n] == 0:
            ev = self.cur[n]
            ev["obs"] = self.snap(n)
            self.ev[n].append(ev)
            self.cur[n] = None

    def _wrap(self, n):
        e = self.ends[n]
        w = self

        def around(name, pre=None, post=None):
            orig = getattr(e, name)

            def f(*a, **k):
                ev = w.begin(n)
                if pre:
                    pre(ev, *a, **k)
                try:
                    r = orig(*a, **k)
                    if post:
                        post(ev, r, *a, **k)
                    return r
                finally:
                    w.end(n)
            setattr(e, name, f)
        around("_send_type", pre=lambda ev, *a, **k: ev.__setitem__("k", ev["k"] + 1))
        around("_handle_ack", pre=lambda ev, seq: ev["acts"].append(["ack", int(seq)]))
        around("_handle_timeout", pre=lambda ev, seq: ev["acts"].append(["to", int(seq)]))
        around("_build_packet", post=lambda ev, r: ev.__setitem__("built", int(r is not None)))
        around("_encode_packet", post=lambda ev, r, pkt: ev.__setitem__("esize", len(r)))
        around("_check_timeout", pre=lambda ev, t0: ev.__setitem__("full", 1))
        d0 = {}

        def pre_recv(ev, hdr, datagram):
            d0["r"], d0["d"] = e.stats.received, e.stats.dropped
            ev["rsize"] = len(datagram)

        def post_recv(ev, r, hdr, datagram):
            ev["recv"] = "accept" if r else "drop"          # (by what the call answered, not by what it counted)
        around("_recv_datagram", pre=pre_recv, post=post_recv)
        around("disconnect", pre=lambda ev, *a, **k: ev.__setitem__("disc", int(e.status in (w.C.ConnectionStatus.CONNECTED, w.C.ConnectionStatus.DISCONNECTING))))
        around("send")
        if n == "s":
            def post_update(ev, r):
                # the server loop seals the packet itself: the size it counted must be the size that goes to the socket
                ev["full"] = 1 if (w.vt.time() - w.last_send_before > e.send_interval) else 0
                if r is not None:
                    pkt, key, addr = r
                    raw = pkt.to_bytes(key)
                    ev["esize"] = len(raw)
                    w.out_s = raw

            def pre_update(ev):
                w.last_send_before = e.last_send_time
            around("update", pre=pre_update, post=post_update)

    # ---- one tick
    def fate(self, raw, src, p):
        if self.rnd.random() < p["loss"] or self.outage.get(src, -1) >= self.tickno:
            return
        delays = [self.rnd.randint(0, p["maxdelay"])]
        if self.rnd.random() < p["dup"]:
            delays.append(self.rnd.randint(0, p["maxdelay"]))
        for d in delays:
            self.flight.append((self.vt.us + d * self.tick_us, "s" if src == "c" else "c", raw))

    def run(self, nticks, p):
        C = self.C
        cc, sc = self.ends["c"], self.ends["s"]
        self.outage, self.stall = {}, {}
        self.tickno = 0
        lens = p.get("lens", [4, 20, 600, 1500, 3000])
        for t in range(nticks):
            self.tickno = t
            self.vt.us += self.tick_us
            for n in ("c", "s"):
                if self.rnd.random() < p["outage"]:
                    self.outage[n] = t + self.rnd.randint(*p["outage_len"])
                if self.rnd.random() < p["stall"]:
                    self.stall[n] = t + self.rnd.randint(*p["stall_len"])
            due = [f for f in self.flight if f[0] <= self.vt.us]
            self.flight = [f for f in self.flight if f[0] > self.vt.us]
            # client: the application sends, then update() once per arrived datagram plus one (as a game loop does)
            if self.stall.get("c", -1) < t:
                while self.rnd.random() < p["send"]:
                    self.client.send(bytes(self.rnd.getrandbits(8) for _ in range(8)) + b"x" * (self.rnd.choice(lens) - 8 if self.rnd.choice(lens) > 8 else 0), retry=self.rnd.choice([0, 1, -1]),
                                     callback=(lambda ok: None) if self.rnd.random() < 0.5 else None)
                self.sock.inbox.extend(raw for _, dst, raw in due if dst == "c")
                for _ in range(len(self.sock.inbox) + 1):
                    self.client.update()
                self.client.getMessages()
                out, self.sock.sent = self.sock.sent, []
                for raw in out:
                    self.fate(raw, "c", p)
            # server: datagrams in, the application answers, one update
            if self.stall.get("s", -1) < t:
                for _, dst, raw in due:
                    if dst == "s":
                        try:
                            sc._recv_datagram(C.PacketHeader.from_bytes(True, raw), raw)
                        except Exception:
                            pass
                sc.incoming_messages = []
                while self.rnd.random() < p["send"]:
                    sc.send(b"y" * self.rnd.choice(lens), retry=self.rnd.choice([0, 1, -1]))
                self.out_s = None
                sc.update()
                if self.out_s is not None:
                    self.fate(self.out_s, "s", p)
            if p.get("replay") and self.rnd.random() < p["replay"] and due:
                self.flight.append((self.vt.us + self.tick_us, due[0][1], due[0][2]))
            if p.get("disc_at") == t:
                sc.disconnect()
        return [dict(side=n, start=0, ev=self.ev[n]) for n in ("c", "s")]


def record(args):
    seed, nticks, tick_us, kw, p = args
    w = World(seed, tick_us, **kw)
    try:
        return w.run(nticks, p), w.interval, w.timeout
    finally:
        w.close()


POLICY = dict(loss=0.1, dup=0.05, maxdelay=4, outage=0.002, outage_len=(10, 120), stall=0.002, stall_len=(5, 90), send=0.25, replay=0.02)


def run(ctx):
    ctx.level = "model_checking"
    ctx.rule = ("calls of recorded executions of a real UdpClient connection and a real ServerClientConnection judged by TLC against Trace_Stats (operators of Stats.tla); "
                "distinct = calls; non-trivial = calls that accept / drop a datagram, build one, acknowledge or time one out")
    ctx.assumptions += ["extension check: not one of the listed properties", "virtual clock; preset session key (the handshake is C02's business)",
                        "latency is compared in whole microseconds with a slack of 3 (the code computes in floating-point seconds)"]
    q = ctx.quick
    c = "CONSTANTS\n Cap = 2\n Units = 3\n Interval = 1\n Timeout = 3\n M = 5\n MaxT = %d\n Sizes = {2}\nCONSTRAINT Bounded\n" % (9 if q else 10)
    r = ctx.mc("Stats", "SPECIFICATION Spec\n" + c + "INVARIANT InvConservation\nINVARIANT InvBinsBounded\nINVARIANT InvBinsCount\nINVARIANT InvLatBounded\nINVARIANT InvEncoded\n"
               "PROPERTY NoEarlyTimeout\nPROPERTY Monotone\nCHECK_DEADLOCK FALSE\n", label="Stats design model", need=["DoBuild", "DoEncode", "DoAck", "DoTimeout", "DoAccept", "DoDrop", "DoDisconnect"])
    if not r.ok:
        ctx.fail("Stats.tla: %s violated" % r.violation["name"], dict(trace=to_json([s["state"] for s in r.trace[-6:]])))
        return
    b = ctx.mc("Stats", "SPECIFICATION Spec\n" + c + "INVARIANT BinsAreSeconds\nCHECK_DEADLOCK FALSE\n", label="Stats (expected statement BinsAreSeconds)", count=False, coverage=False)
    jobs = []
    # 16.7 ms frames: a few seconds of busy traffic with loss, duplication, outages longer than the ack time-out, frame hitches
    for i in range(4 if q else 24):
        jobs.append((ctx.seed + i, 900 if q else 3000, 16667, dict(timeout=[None, 0.25][i % 2]), dict(POLICY, disc_at=(700 if q else 2500) if i % 3 == 0 else None)))
    # quarter-second frames, more than 300 s: the rolling lists roll; keep-alive intervals above one second leave seconds without traffic
    for i in range(2 if q else 8):
        jobs.append((ctx.seed + 100 + i, 1500 if q else 2400, 250000, dict(srv_ka=[2.5, 0.3][i % 2], cli_ka=[0.3, 3.0][i % 2]),
                     dict(POLICY, send=0.1, maxdelay=2, stall=0.004, stall_len=(4, 12), outage_len=(4, 16), lens=[4, 20, 600])))
    with ProcessPoolExecutor(min(12, len(jobs))) as ex:
        res = list(ex.map(record, jobs))
    traces, names = [], []
    for j, (trs, interval, timeout) in zip(jobs, res):
        for tr in trs:
            tr["interval"], tr["timeout"] = interval, int(round((j[3].get("timeout") or 1.0) * 1e6))
            traces.append(tr)
            names.append("seed %d, %d ticks of %d us, %s side" % (j[0], j[1], j[2], "client" if tr["side"] == "c" else "server"))
    # one TLC configuration per ack time-out (a constant of the specification)
    rej_all = []
    nontrivial = 0
    for tmo in sorted({t["timeout"] for t in traces}):
        idx = [k for k, t in enumerate(traces) if t["timeout"] == tmo]
        cfg = "SPECIFICATION TSpec\nCONSTANTS\n Cap = 300\n Units = 1000000\n Interval = %d\n Timeout = %d\n M = 65535\n MaxT = 0\n Sizes = {}\nCHECK_DEADLOCK FALSE\n" % (traces[idx[0]]["interval"], tmo)
        rej, acc = tracejudge.judge(ctx, "Trace_Stats", cfg, [traces[k]["ev"] for k in idx], "Trace_Stats (time-out %d us, %d traces)" % (tmo, len(idx)),
                                    per_jvm=40000)
        for x in rej:
            x["tid"] = idx[x["tid"] - 1] + 1
        rej_all += rej
        ctx.traces += len(acc)
        for a in acc:
            ctx.extra["rolled_off_the_bins"] = ctx.extra.get("rolled_off_the_bins", 0) + a.get("rolled", 0)
    for t in traces:
        for e in t["ev"]:
            nt = e["recv"] != "none" or e["built"] or e["acts"]
            nontrivial += int(bool(nt))
            ctx.evaluations += 1
    ctx.distinct_n = nontrivial
    ctx.extra.update(traces=len(traces), calls=ctx.evaluations, acks=sum(1 for t in traces for e in t["ev"] for a in e["acts"] if a[0] == "ack"),
                     timeouts=sum(1 for t in traces for e in t["ev"] for a in e["acts"] if a[0] == "to"), drops=sum(1 for t in traces for e in t["ev"] if e["recv"] == "drop"),
                     expected_statements_violated_in_model=[] if b.ok else ["BinsAreSeconds"])
    if traces:
        ctx.sample(dict(trace=names[0], first_calls=traces[0]["ev"][:3]))
    for x in rej_all[:6]:
        ev = x.get("ev", {})
        ctx.fail("%s: call %d leaves Stats.tla: clause(s) %s false; call %s; the specification expects %s pending %s bins[len, last pkts_sent, sum, last bytes_sent, sum, last pkts_recv, sum, last bytes_recv, sum] %s"
                 % (names[x["tid"] - 1], x["l"], ",".join(sorted(x["failing"])), json.dumps(ev)[:600], json.dumps(x.get("expected")), json.dumps(x.get("pend"))[:120], json.dumps(x.get("bins"))),
                 dict(trace=names[x["tid"] - 1], position=x["l"], failing=sorted(x["failing"]), call=ev, expected=x.get("expected"), prefix_tail=traces[x["tid"] - 1]["ev"][max(0, x["l"] - 4):x["l"]]))
    if rej_all:
        return
    if ctx.extra.get("rolled_off_the_bins", 0) == 0 or not ctx.extra["timeouts"] or not ctx.extra["acks"] or not ctx.extra["drops"]:
        raise Machinery("vacuity: the recorded executions never rolled a bin / timed out / acknowledged / dropped (%s)" % {k: ctx.extra.get(k) for k in ("rolled_off_the_bins", "timeouts", "acks", "drops")})
    if not b.ok:
        tr = [to_json(s["state"]) for s in b.trace[-3:]]
        ctx.fail("the rolling lists of ConnectionStats are not a time line: _build_packet / _recv_datagram open a new bin when the second of this datagram differs from the second of the PREVIOUS one, so a "
                 "second without traffic gets no bin and the documented 'each bin is the statistics for a particular second ... FIFO' holds only while every second carries traffic in that direction "
                 "(a keep-alive interval above 1 s, a frame hitch, an outage shift every older sample). BinsAreSeconds is violated in the specification the real endpoints were found to follow.",
                 dict(trace=[dict(now=s["now"], psSec=s["st"]["psSec"], born=s["st"]["born"]) for s in tr]), sig="stats-bins-skip-idle-seconds")


def replay(ctx, doc):
    print(json.dumps(doc["case"], indent=1)[:4000])

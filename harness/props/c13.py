"""C13 - serializer: decode(encode(v)) == v and encodings are self-delimiting.

specs/Codec.tla is the abstract contract (a FIFO channel of normalised values, domain, normal form); TLC enumerates the value grammar and
channel sequences (Obs_Codec); the harness performs them with serialize_value / deserialize_value / dumpb / loadb on the real module and
abstracts the results back into terms; TLC judges equality with the normal form, exact consumption, and refusal outside the domain.
"""
import io, json, os, shutil, random
import impl, tlc as T
from tlaval import to_json
from core import Machinery
import codecterms as CT


def observe(S, term):
    try:
        v = CT.concretise(term)
    except Exception as e:
        return dict(kind="harness:" + type(e).__name__, back=dict(t="unknown", v="", e=[]), produced=0, consumed=0)
    st = io.BytesIO()
    try:
        S.serialize_value(st, v)
    except Exception as e:
        return dict(kind="refused", back=dict(t="unknown", v=type(e).__name__, e=[]), produced=0, consumed=0)
    data = st.getvalue()
    rd = io.BytesIO(data + b"\xee\xee\xee")        # trailing bytes: a self-delimiting encoding must not touch them
    try:
        back = S.deserialize_value(rd)
    except Exception as e:
        return dict(kind="decode-error", back=dict(t="unknown", v=type(e).__name__, e=[]), produced=len(data), consumed=rd.tell())
    return dict(kind="ok", back=CT.abstract(back), produced=len(data), consumed=rd.tell())


def run(ctx):
    S = impl.mod("serializable")
    CT.fixtures()
    ctx.level = "exploration"
    ctx.exhaustive = True
    ctx.rule = ("every value term of the grammar enumerated by TLC (atoms at every boundary, containers, containers of containers, fixture objects, enum members, out-of-domain values) and every channel "
                "sequence; distinct = terms + sequences; non-trivial = the term is a container, a boundary integer/float, or outside the domain")
    ctx.assumptions += ["the abstraction function Python value -> term (harness/codecterms.py) is trusted", "byte layout is not constrained; only round trip, exact consumption and refusal are",
                        "dumpb/loadb of Serializable objects are exercised through the obj terms"]
    consts = "CONSTANT Deep = %s\n" % ("TRUE" if not ctx.quick else "TRUE")
    wd = T.workdir("c13")
    try:
        inp = os.path.join(wd, "values.json")
        g = ctx.mc("Obs_Codec", "INIT GenInit\nNEXT CNext\n" + consts + "CHECK_DEADLOCK FALSE\n", env=dict(OUT_FILE=inp, OBS_FILE=inp), coverage=False, workers=1, count=False, label="Obs_Codec generate", heap="6g")
        if not g.ok or not os.path.exists(inp):
            raise Machinery("value generation failed: %s" % (g.violation,))
        space = json.load(open(inp))
        vals, chans = space["values"], space["chans"]
        ovals = []
        for t in vals:
            ovals.append(observe(S, t))
            ctx.case(None)
        ochans = []
        for seq in chans:
            st = io.BytesIO()
            marks = []
            for t in seq:
                S.serialize_value(st, CT.concretise(t))
                marks.append(st.tell())
            rd = io.BytesIO(st.getvalue())
            backs, pos, aligned = [], [], 1
            try:
                for _ in seq:
                    backs.append(CT.abstract(S.deserialize_value(rd)))
                    pos.append(rd.tell())
            except Exception as e:
                aligned = 0
            if pos != marks or rd.read() != b"":
                aligned = 0
            ochans.append(dict(backs=backs, aligned=aligned))
        # dumpb / loadb for the object terms (top-level API), as a HISTORY of calls in one process: refused objects in between must leave nothing behind
        def fresh_bytes(o):
            b = io.BytesIO()
            S.serialize_value(b, o)
            return b.getvalue()
        last_valid = None
        nhist = 0
        for t in vals:
            if t["t"] != "obj":
                continue
            valid = all(x["t"] != "bad" for x in t["e"])
            try:
                o = CT.concretise(t)
            except Exception:
                continue
            probes = [(t, o)] if valid else [(t, o)] + ([last_valid] if last_valid else [])
            for tt, oo in probes:
                nhist += 1
                try:
                    want = fresh_bytes(oo)
                except Exception:
                    want = None                       # out of domain: dumpb must refuse as well
                try:
                    got = oo.dumpb()
                except Exception:
                    got = None
                if (got is None) != (want is None) or (got is not None and got != want):
                    ctx.fail("dumpb() of %s gives %s, serialize_value on a fresh stream gives %s (call %d of a history in which refused objects precede it)"
                             % (json.dumps(tt)[:200], "a refusal" if got is None else "%d bytes" % len(got), "a refusal" if want is None else "%d bytes" % len(want), nhist), dict(term=tt, history_position=nhist))
                    break
                if got is not None:
                    try:
                        back = S.Serializable.loadb(got)
                        # (value equality modulo the documented normal form - tuples as lists, float32 - is judged by TLC on the value rows; here: same class, and re-encoding is stable)
                        if type(back) is not type(oo) or len(fresh_bytes(back)) != len(got):        # (length, not bytes: the element order of a set is not part of its value)
                            ctx.fail("loadb(dumpb(x)) is not x for %s (class or size of the re-encoding differs)" % json.dumps(tt)[:200], dict(term=tt))
                    except Exception as e:
                        ctx.fail("loadb(dumpb(x)) raises %s for %s" % (type(e).__name__, json.dumps(tt)[:200]), dict(term=tt))
            if valid:
                last_valid = (t, o)
        ctx.extra["dumpb_history_calls"] = nhist
        obs = os.path.join(wd, "obs.json")
        open(obs, "w").write(json.dumps(dict(values=ovals, chans=ochans)))
        r = ctx.mc("Obs_Codec", "INIT ObsInit\nNEXT CNext\n" + consts + "INVARIANT AllOK\nINVARIANT Complete\nALIAS Where\nCHECK_DEADLOCK FALSE\n", env=dict(OUT_FILE=inp, OBS_FILE=obs),
                   coverage=False, label="Obs_Codec judge (%d values, %d sequences)" % (len(vals), len(chans)), cont=True, workers=4, heap="8g")
        ctx.evaluations = len(vals) + len(chans)
        ctx.distinct_n = len(vals) + len(chans)
        ctx.extra.update(values=len(vals), channel_sequences=len(chans), refused=sum(1 for o in ovals if o["kind"] == "refused"), ok=sum(1 for o in ovals if o["kind"] == "ok"))
        k = next(i for i, t in enumerate(vals) if t["t"] == "dict" and t["e"])
        ctx.sample(dict(term=vals[k], observed=ovals[k]))
        if not r.ok:
            if r.violation["kind"] != "invariant":
                raise Machinery("Obs_Codec judge failed: %s" % r.violation["text"][:1500])
            n = 0
            for tr in r.traces:
                for k, term, o, indom in to_json(T.materialise(tr[-1]).get("bad", []))[:5]:
                    n += 1
                    ctx.fail("value %s (in domain: %s): serializer outcome %s, decoded %s, produced %s consumed %s" % (json.dumps(term)[:300], indom, o.get("kind"), json.dumps(o.get("back", o.get("backs")))[:300],
                                                                                                                  o.get("produced"), o.get("consumed")), dict(term=term, observed=o, in_domain=indom))
            if not n:
                ctx.fail("codec observation table rejected by TLC (%s)" % r.violation["name"], dict(text=r.violation["text"][:400]))
        if not ctx.quick:
            deep_random(ctx, S)
    finally:
        shutil.rmtree(wd, ignore_errors=True)


def deep_random(ctx, S):
    """Thorough tier: random deep in-domain values; judged in Python by the same abstraction (round trip through terms) - counted separately."""
    rnd = random.Random(ctx.seed)

    def gen(d):
        r = rnd.random()
        if d <= 0 or r < 0.4:
            return rnd.choice([None, True, False, rnd.randint(-2 ** 63, 2 ** 63 - 1), rnd.randint(-300, 300), CT.f32(rnd.uniform(-1e6, 1e6)), "s%d" % rnd.randint(0, 99), bytes([rnd.randint(0, 255)]) * rnd.randint(0, 5)])
        if r < 0.6:
            return [gen(d - 1) for _ in range(rnd.randint(0, 4))]
        if r < 0.7:
            return tuple(gen(d - 1) for _ in range(rnd.randint(0, 3)))
        if r < 0.85:
            return {rnd.choice([rnd.randint(-5, 5), "k%d" % rnd.randint(0, 9)]): gen(d - 1) for _ in range(rnd.randint(0, 3))}
        return {rnd.randint(0, 50) for _ in range(rnd.randint(0, 4))}

    def norm(v):
        if isinstance(v, (list, tuple)):
            return [norm(x) for x in v]
        if isinstance(v, dict):
            return {k: norm(x) for k, x in v.items()}
        return v
    n = bad = 0
    for _ in range(40000):
        v = gen(5)
        st = io.BytesIO()
        S.serialize_value(st, v)
        rd = io.BytesIO(st.getvalue())
        back = S.deserialize_value(rd)
        n += 1
        if back != norm(v) or rd.read() != b"":
            bad += 1
            if bad <= 3:
                ctx.fail("random deep value does not round-trip: %r -> %r" % (v, back), dict(value=repr(v), back=repr(back)))
    ctx.extra["random_deep_values"] = n

"""Random multi-client runs of the real server loop (harness/srvworld.py) judged by specs/Trace_Server.tla; shared by C10, C11, C12."""
import json, random
from concurrent.futures import ProcessPoolExecutor
import tracejudge
from core import Machinery

CLAUSE_PROP = {"L": "C10", "A": "C11", "T": "C12"}
def CFG_skip(skip=()):
    return "SPECIFICATION TSpec\nCONSTANT Skip = {%s}\nCHECK_DEADLOCK FALSE\n" % ", ".join('"%s"' % c for c in sorted(skip))


CFG = CFG_skip()


SPECIAL = {"L_once": ("C10", "C04"), "A_echo": ("C11", "C10"), "A_sealed": ("C03",), "A_clisealed": ("C03",), "T_srvdrops": ("C12", "C10"), "T_srvdrop": ("C12", "C10")}


def props_of(clause):
    return SPECIAL.get(clause) or (CLAUSE_PROP.get(clause.split("_")[0], "?"),)


def run_random(args):
    seed, nticks, kw = args
    import srvworld as SW
    rnd = random.Random(seed)
    p = dict(nclients=5, p_raise=0.02, loss=0.03, garbage=0.1, interval=1 / 60, conn_timeout=2.0, p_connect=0.02, p_send=0.1, p_disc=0.005, p_silent=0.005, p_kick=0.05,
             blocklist=(), replay=0.02, hello_flood=0.0, reuse_addr=0.3, keepalive=None, stop_at=None, p_rechal=0.0)
    p.update(kw)
    w = SW.ServerWorld(seed=seed, interval=p["interval"], conn_timeout=p["conn_timeout"], handler_raise=p["p_raise"], blocklist=p["blocklist"], keepalive=p["keepalive"])
    try:
        slots = {}
        nextport = 1000
        ncid = 0
        for tick in range(nticks):
            for i in range(p["nclients"]):
                cid = slots.get(i)
                r = rnd.random()
                if cid is None:
                    if r < p["p_connect"]:
                        if not (rnd.random() < p["reuse_addr"]):
                            nextport += 1
                        addr = ("10.0.0.%d" % i, nextport)
                        if any(c["addr"] == addr for c in w.clients.values()):
                            continue
                        ncid += 1
                        # the driver tags every payload with the address id so that the specification can attribute messages
                        w.add_client(ncid, addr)
                        slots[i] = ncid
                    continue
                c = w.clients[cid]
                cl = c["cl"]
                if cl.connected() and not c["cut"]:
                    if r < p["p_send"]:
                        tag = w.aid(c["addr"]).to_bytes(4, "big")
                        kind = b"KICK" if rnd.random() < p["p_kick"] else rnd.choice([b"DATA", b"GUAR"])
                        w.uniq += 1           # no two application messages of a run are the same bytes
                        cl.send(tag + kind + w.uniq.to_bytes(4, "big") + bytes(rnd.getrandbits(8) for _ in range(rnd.choice([4, 50, 1500, 3000]))), retry=rnd.choice([0, -1]))
                    elif r < p["p_send"] + p["p_disc"]:
                        w.client_disconnect(cid)
                    elif p["p_rechal"] and rnd.random() < p["p_rechal"]:
                        w.resend_challenge(cid)
                    elif r < p["p_send"] + p["p_disc"] + p["p_silent"]:
                        c["cut"] = True
                        c["deaf"] = True
                st = cl.status().value
                if (c["cut"] and rnd.random() < 0.01) or (st in (4, 5) and rnd.random() < 0.05):
                    w.remove_client(cid)
                    slots[i] = None
            if rnd.random() < p["garbage"]:
                w.inject(bytes(rnd.getrandbits(8) for _ in range(rnd.randint(0, 60))), ("6.6.6.6", rnd.randint(1, 50)))
            if rnd.random() < p["garbage"] / 2:
                pre = rnd.choice([b"FSOS", b"FSOC"]) + bytes(rnd.getrandbits(8) for _ in range(8)) + bytes([rnd.randint(0, 8)]) + bytes(rnd.getrandbits(8) for _ in range(rnd.randint(0, 40)))
                w.inject(pre, rnd.choice([("6.6.6.6", 7), ("10.0.0.1", nextport)]))
            if p["replay"] and rnd.random() < p["replay"] and w.seen_from:
                a = rnd.choice(list(w.seen_from))
                w.inject(rnd.choice(w.seen_from[a]), rnd.choice([a, ("6.6.6.7", 9)]), kind="replay")
            if p["hello_flood"] and rnd.random() < p["hello_flood"] and w.seen_from:
                hellos = [d for ds in w.seen_from.values() for d in ds if len(d) > 12 and d[12] == 1]
                if hellos:
                    for k in range(rnd.randint(1, 30)):
                        w.inject(rnd.choice(hellos), ("7.7.%d.%d" % (rnd.randint(0, 255), rnd.randint(0, 255)), rnd.randint(1, 60000)), kind="hello-spoof")
            for ip in p["blocklist"]:
                if rnd.random() < 0.2:
                    w.inject(bytes(rnd.getrandbits(8) for _ in range(40)), (ip, 5), kind="blocked")
            w.tick(loss=p["loss"])
            if not w.th.is_alive():
                break
            if p["stop_at"] is not None and tick == p["stop_at"]:
                break
        w.shutdown()
        return w.ev
    finally:
        w.close()


def run_scenarios(ctx, mine, scenarios):
    jobs, names = [], []
    for sc in scenarios:
        for i in range(sc["n"]):
            jobs.append((ctx.seed * 1000 + len(jobs), sc["nticks"], sc.get("kw", {})))
            names.append("%s#%d(seed=%d)" % (sc["name"], i, jobs[-1][0]))
    with ProcessPoolExecutor(min(16, max(1, len(jobs)))) as ex:
        traces = list(ex.map(run_random, jobs))
    return judge_and_report(ctx, mine, traces, names)


def judge_and_report(ctx, mine, traces, names):
    nev = sum(len(t) for t in traces)
    rej, acc = tracejudge.judge(ctx, "Trace_Server", CFG, traces, "Trace_Server %s (%d traces, %d events)" % (mine, len(traces), nev))
    ctx.traces += len(acc)
    ctx.evaluations += nev
    kinds = {}
    for t in traces:
        for e in t:
            k = e["ev"] + ("." + e["what"] if e["ev"] == "h" else "")
            kinds[k] = kinds.get(k, 0) + 1
    for k, v in kinds.items():
        ctx.extra["ev_" + k] = ctx.extra.get("ev_" + k, 0) + v
    ctx.distinct_n += sum(v for k, v in kinds.items() if k.startswith("h.") or k in ("rx", "tx"))
    if traces:
        ctx.sample(dict(scenario=names[0], n_events=len(traces[0]), handler_events=[e for e in traces[0] if e["ev"] == "h"][:4]))
    # a trace that stops at clauses of other properties only is judged again without them, so that the rest of it is examined for this property
    skipped = set()
    for _round in range(3):
        foreign = [x for x in rej if x["failing"] and not ({mine, "?"} & {p_ for c in x["failing"] for p_ in props_of(c)})]
        if not foreign:
            break
        skipped |= {c for x in foreign for c in x["failing"]}
        tids = sorted({x["tid"] for x in foreign})
        rej2, _acc2 = tracejudge.judge(ctx, "Trace_Server", CFG_skip(skipped), [traces[t - 1] for t in tids], "Trace_Server %s: %d trace(s) judged again without %s" % (mine, len(tids), sorted(skipped)))
        for x in rej2:
            x["tid"] = tids[x["tid"] - 1]
            x["after_skipping"] = sorted(skipped)
        rej = [x for x in rej if x not in foreign] + rej2
    other = 0
    for x in rej:
        clauses = sorted(x["failing"]) or ["(none)"]
        owners = {p_ for c in clauses for p_ in props_of(c)}
        if mine in owners or "?" in owners:
            ev = x["ev"] if isinstance(x["ev"], dict) else {}
            tr = traces[x["tid"] - 1]
            ctx.fail("%s: recorded server execution rejected by Trace_Server at event %s: clause(s) %s false%s; event %s"
                     % (names[x["tid"] - 1], x["l"], ",".join(clauses), (" (judged again without %s)" % ",".join(x["after_skipping"])) if x.get("after_skipping") else "", json.dumps(ev)[:500]),
                     dict(scenario=names[x["tid"] - 1], position=x["l"], failing=clauses, event=ev, state={k: v for k, v in x.items() if k not in ("ev",)},
                          prefix_tail=tr[max(0, x["l"] - 8):x["l"]]))
        else:
            other += 1
    if other:
        ctx.note("%d trace(s) stopped early at a clause of another property (%s)" % (other, sorted({p_ for x in rej for c in x["failing"] for p_ in props_of(c)} - {mine})))
    return traces, rej

"""C12 - keep-alives and time-outs: idle links stay up, dead peers are detected.

Real UdpClient + real server loop under virtual time (harness/srvworld.py), over configurations (keep-alive, connection / handshake /
message time-out, tick rate), idle durations, link cuts at every tick of a keep-alive period, unanswered connects with and without a
callback, and every order of the three client setters relative to connect.  specs/Trace_Server.tla judges every event (clauses T_x).
"""
import itertools
from props import srv_judge as SJ


def scenario(args):
    seed, kw = args
    import srvworld as SW
    w = SW.ServerWorld(seed=seed, interval=kw["interval"], conn_timeout=kw["conn_timeout"], keepalive=kw["srv_ka"], temp_timeout=kw.get("temp_timeout"), msg_timeout=kw.get("srv_mt"), late_config=kw.get("late_config", False))
    w.client_substeps = kw.get("client_substeps", 1)
    w.broadcast = kw.get("broadcast", False)
    w.client_every = kw.get("client_every", 1)
    w.one_update = kw.get("one_update", False)
    try:
        tps = int(round(1 / kw["interval"]))           # ticks per second
        order = kw.get("setters", ())                   # sequence of ("ka"|"mt"|"ct", value, "before"|"after")
        if kw.get("reconnect"):
            # connect (nobody answers), change settings while that attempt exists, let it fail, connect again: the new attempt uses what was set
            cl = w.add_client(1, ("10.3.0.1", 4001), callback=kw.get("callback", False), conn_timeout=kw.get("cli_ct0"))
            w.clients[1]["cut"] = True
            for t in range(tps // 4):
                w.tick()
            for k, v in kw["sets"]:
                w.set_client(1, k, v)
            for t in range(int(max(kw.get("cli_ct0") or 2.0, dict(kw["sets"]).get("ct", 0)) * tps) + tps):
                w.tick()
            if kw.get("force"):
                w.clients[1]["leaving"] = True
                cl.forceDisconnect()
            w.reconnect(1)
            for t in range(int(3.5 * tps)):
                w.tick()
            w.shutdown()
            return w.ev
        if kw.get("unanswered"):
            # nobody answers: the link is cut from the start
            cl = w.add_client(1, ("10.3.0.1", 4001), callback=kw.get("callback", False), conn_timeout=kw.get("cli_ct"))
            w.clients[1]["cut"] = True
            for t in range(int((kw.get("cli_ct") or 2.0) * tps) + 3 * tps):
                w.tick()
            w.shutdown()
            return w.ev
        pre = {k: v for k, v, when in order if when == "before"}
        cl = w.add_client(1, ("10.3.0.1", 4001), keepalive=pre.get("ka"), conn_timeout=pre.get("ct"), msg_timeout=pre.get("mt"), callback=kw.get("callback", False))
        for k, v in pre.items():
            w.ev.append(dict(ev="cset", now=w.now(), c=1, what=k, v=int(round(v * 1e4)), err=""))
        for t in range(tps // 2):
            w.tick()
        for k, v, when in order:
            if when == "after":
                w.set_client(1, k, v)
        idle = int(kw.get("idle", 3.0) * tps)
        for t in range(idle):
            if kw.get("reapply"):
                # a game loop that re-applies its (unchanged) settings every frame, through the public setters: the idle link must behave as if it had not
                conf = w.clients[1]["conf"]
                cl.setKeepAliveInterval(conf["ka"])
                cl.setMessageTimeout(conf["mt"])
                cl.setConnectionTimeout(conf["ct"])
            w.tick()
        if kw.get("probe_mt"):
            # a send that can never be acknowledged: its callback must report failure after the (client's) message time-out
            w.clients[1]["cut"] = True
            w.clients[1]["deaf"] = True
            w.client_send(1, (1).to_bytes(4, "big") + b"DATAprobe", retry=0, report=True)
            for t in range(int(7.5 * tps)):
                w.tick()
        elif kw.get("cut_after") is not None:
            for t in range(kw["cut_after"]):
                w.tick()
            w.cut_client(1)
            for t in range(int((max(kw["conn_timeout"], 5.0) + 1.5 + kw.get("linger", 0)) * tps)):
                w.tick()
        w.shutdown()
        return w.ev
    finally:
        w.close()


def run(ctx):
    ctx.level = "model_checking"
    ctx.rule = ("events of recorded executions of real UdpClient + real server loop over timer configurations judged by TLC against Trace_Server; distinct = configurations x cut moments / setter orders; "
                "non-trivial = every run (each exercises at least one timer clause)")
    ctx.assumptions += ["virtual clock; one server loop iteration and one client update per tick", "the 5 s client-side DROPPED threshold is the library's constant"]
    q = ctx.quick
    jobs, names = [], []
    confs = []
    for interval in ([1 / 60, 1 / 20] if q else [1 / 60, 1 / 20, 1 / 4]):
        for ka in ([0.1, 0.5] if q else [1 / 30, 0.1, 0.5]):
            for ct in ([1.0, 5.0] if q else [1.0, 2.0, 5.0]):
                if ka + 2 * interval < ct:
                    confs.append(dict(interval=interval, srv_ka=ka, conn_timeout=ct))
    # strongly asymmetric keep-alive intervals (the server speaks every 2 s, the client every 0.1 s): each side keeps ITS cadence whatever it measures of the other
    confs.append(dict(interval=1 / 60, srv_ka=2.0, conn_timeout=5.0))
    # the server's first datagram after the handshake (the one that acknowledges the challenge response) comes later than the client's message time-out,
    # in configurations where every keep-alive interval is still below every connection time-out: the link is idle and healthy and must stay up
    # (the client runs at its own frame rate: several updates per server tick)
    slow = [dict(interval=0.35, srv_ka=0.9, conn_timeout=5.0, client_substeps=21), dict(interval=0.25, srv_ka=0.95, conn_timeout=5.0, client_substeps=15),
            dict(interval=0.2, srv_ka=0.25, conn_timeout=5.0, client_substeps=12, setters=(("mt", 0.3, "before"),)),
            dict(interval=0.2, srv_ka=0.25, conn_timeout=5.0, client_substeps=12, setters=(("mt", 0.3, "after"),))]
    for cf in slow:
        jobs.append((ctx.seed, dict(cf, idle=12.0)))
        names.append("idle, first answer slower than the client's message time-out %s" % cf)
    # a server that always has something to say (state to every client on every tick) still notices a peer that went silent, at every tick rate; and the
    # link of a client that is spoken to all the time stays up
    for interval in (1 / 60, 1 / 30, 1 / 20):
        for ct in (1.0, 2.0):
            cf = dict(interval=interval, srv_ka=0.1, conn_timeout=ct, broadcast=True)
            jobs.append((ctx.seed, dict(cf, idle=6.0)))
            names.append("idle under a per-tick broadcast %s" % cf)
            for cut in (0, 3, 7):
                jobs.append((ctx.seed, dict(cf, idle=1.0, cut_after=cut)))
                names.append("cut@%d under a per-tick broadcast %s" % (cut, cf))
    # a game that runs at a lower frame rate than the server sends (one update() per frame, as documented): datagrams that piled up before the peer fell
    # silent are not news - DROPPED is due 5 s after the peer's last datagram left, whenever the application reads it
    for cf in (dict(interval=1 / 60, srv_ka=0.1, conn_timeout=30.0, client_every=12, one_update=True), dict(interval=1 / 60, srv_ka=0.02, conn_timeout=30.0, client_every=3, one_update=True),
               dict(interval=1 / 60, srv_ka=0.1, conn_timeout=30.0, client_every=4, one_update=True, broadcast=True)):
        jobs.append((ctx.seed, dict(cf, idle=20.0, cut_after=5, linger=8)))
        names.append("slow application frame rate, then the peer falls silent %s" % cf)
    # idle links stay up; cut at every tick of one keep-alive period
    for cf in confs:
        tps = int(round(1 / cf["interval"]))
        jobs.append((ctx.seed, dict(cf, idle=10.0 if q else 60.0)))
        names.append("idle %s" % cf)
        period = max(1, int(cf["srv_ka"] * tps) + 1)
        for cut in (range(0, period, max(1, period // 3)) if q else range(period)):
            jobs.append((ctx.seed, dict(cf, idle=1.0, cut_after=cut)))
            names.append("cut@%d %s" % (cut, cf))
    # the application re-applies its settings every frame on an idle link (12 s: longer than every time-out)
    for cf in confs[:2] if q else confs:
        jobs.append((ctx.seed, dict(cf, idle=12.0, reapply=True)))
        names.append("idle, settings re-applied every frame %s" % cf)
    # unanswered connect, with and without callback, configured time-outs
    for cli_ct in ([0.25, 2.0] if q else [0.25, 1.0, 2.0, 3.5]):
        for cb in (False, True):
            jobs.append((ctx.seed, dict(interval=1 / 60, srv_ka=0.1, conn_timeout=5.0, unanswered=True, cli_ct=cli_ct, callback=cb)))
            names.append("unanswered connect ct=%s callback=%s" % (cli_ct, cb))
    # settings changed while a (failing) connection attempt exists must govern the next connect() on the same client
    for sets in ([("ct", 0.5)], [("ct", 3.0), ("ka", 0.3)], [("mt", 0.25), ("ct", 0.75)]):
        for cb in (False, True):
            for force in (False, True):
                jobs.append((ctx.seed, dict(interval=1 / 60, srv_ka=0.1, conn_timeout=5.0, reconnect=True, sets=sets, callback=cb, force=force, cli_ct0=None if sets[0][1] != 3.0 else 1.0)))
                names.append("reconnect after %s callback=%s force=%s" % (sets, cb, force))
    # every order of the three client setters relative to connect; values that differ from the defaults
    vals = dict(ka=0.3, mt=0.25, ct=1.0)
    whens = list(itertools.product(("before", "after"), repeat=3))
    perms = list(itertools.permutations(("ka", "mt", "ct")))
    if q:
        perms = perms[:2]
    for perm in perms:
        for ws in whens:
            setters = tuple((k, vals[k], wn) for k, wn in zip(perm, ws))
            jobs.append((ctx.seed, dict(interval=1 / 60, srv_ka=0.1, conn_timeout=5.0, setters=setters, idle=2.0, probe_mt=True)))
            names.append("setters %s" % (setters,))
    # every second run configures the ServerContext AFTER the server object was built (still before it starts)
    jobs = [(sd, dict(kw, late_config=bool(k % 2))) for k, (sd, kw) in enumerate(jobs)]
    names = [nm + (" [configured after the server object was built]" if k % 2 else "") for k, nm in enumerate(names)]
    # a half-open handshake is forgotten after the configured temp time-out, also when that was configured late
    for late in (False, True):
        jobs.append((ctx.seed, dict(interval=1 / 60, srv_ka=0.1, conn_timeout=1.5, temp_timeout=0.5, idle=2.0, cut_after=30, late_config=late)))
        names.append("short time-outs 1.5 s / 0.5 s%s" % (" [configured after the server object was built]" if late else ""))
    from concurrent.futures import ProcessPoolExecutor
    with ProcessPoolExecutor(16) as ex:
        traces = list(ex.map(scenario, jobs))
    for j, nm in zip(jobs, names):
        ctx.case(nm)
    SJ.judge_and_report(ctx, "C12", traces, names)
    from props import c10 as C10
    zj = [(ctx.seed + e, e) for e in ((30, 90) if q else range(10, 115, 11))]
    with ProcessPoolExecutor(min(8, len(zj))) as ex:
        ztr = list(ex.map(C10.zombie, zj))
    SJ.judge_and_report(ctx, "C12", ztr, ["dead peer with byte-identical copies arriving every %d ticks" % j[1] for j in zj])
    SJ.run_scenarios(ctx, "C12", [dict(name="many-clients-timers", n=4 if q else 30, nticks=1500 if q else 4000, kw=dict(p_silent=0.02, p_raise=0.0))])

"""X05 (extension, beyond the listed properties) - the asynchronous HTTP client hands every answer to the game thread once.

specs/HttpClient.tla: the game thread, the loop thread and the getResponses() GENERATOR as separate processes (one step = one
resumption).  TLC checks CallbackAtMostOnce / YieldedOnlyReady / NothingForgotten and the liveness property AllAnswered for a consumer
that always iterates to the end; with AllowAbandon = TRUE (the consumer may break out of the loop after a yield) CallbackAtMostOnce is
violated - the statement that removes the handle stands AFTER the yield.  Every transition of the state graph (AllowAbandon = TRUE,
i.e. including the abandoned generators) is taken on the real AsyncHTTPClientImpl: the loop is a stand-in that keeps the queued calls
so that the harness decides when the loop thread runs each, and the transport (make_request) is a stand-in that answers or raises.
The finding is reported when the real object follows the specification into the double callback.
"""
import json
import impl, tlc as T
from tlaval import to_json
from core import Machinery
from graphreplay import replay_graph


class Loop:
    def __init__(self):
        self.q = []

    def call_soon_threadsafe(self, fn, *args):
        self.q.append((fn, args))
        return object()


def run(ctx):
    HC = impl.mod("http_client")
    ctx.level = "model_checking"
    ctx.exhaustive = True
    ctx.rule = "every transition of the state graph of HttpClient.tla taken on the real AsyncHTTPClientImpl; distinct = transitions; non-trivial = generator resumptions and completions"
    ctx.assumptions += ["extension check: not one of the listed properties", "the asyncio loop thread is played by the harness (calls queued with call_soon_threadsafe run when the model says so, in order)",
                        "the transport make_request is a stand-in (module attribute re-bound)"]
    n = 3 if ctx.quick else 4
    base = "CONSTANTS\n MaxReq = %d\n NoCallback = {2}\n Failing = {3}\n" % n
    invs = "INVARIANT YieldedOnlyReady\nINVARIANT NothingForgotten\nINVARIANT PendingCount\n"
    a = ctx.mc("HttpClient", "SPECIFICATION FairSpec\n" + base + " AllowAbandon = FALSE\nINVARIANT CallbackAtMostOnce\n" + invs + "PROPERTY AllAnswered\nCHECK_DEADLOCK FALSE\n",
               need=["Submit", "Complete", "GenClose"], label="HttpClient (consumer iterates to the end): safety + liveness")
    if not a.ok:
        ctx.fail("HttpClient.tla: %s violated" % a.violation["name"], dict(trace=to_json([s["state"] for s in a.trace[-8:]])))
        return
    b = ctx.mc("HttpClient", "SPECIFICATION Spec\n" + base + " AllowAbandon = TRUE\nINVARIANT CallbackAtMostOnce\nCHECK_DEADLOCK FALSE\n", label="HttpClient (consumer may abandon the generator)", count=False, coverage=False)
    abandon_breaks = not b.ok
    c = ctx.mc("HttpClient", "SPECIFICATION Spec\n" + base + " AllowAbandon = TRUE\n" + invs + "CHECK_DEADLOCK FALSE\n", label="HttpClient (abandon allowed): the other invariants")
    if not c.ok:
        ctx.fail("HttpClient.tla (abandon allowed): %s violated" % c.violation["name"], dict(trace=to_json([s["state"] for s in c.trace[-8:]])))
        return
    states, edges, init, g = T.dump_graph("HttpClient", "SPECIFICATION Spec\n" + base + " AllowAbandon = TRUE\nCHECK_DEADLOCK FALSE\n", workers=1)
    if not states:
        raise Machinery("graph dump failed: %s" % (g.violation,))
    real_mr = HC.make_request

    def fake_request(method, url, payload, query, headers):
        rid = int(url.rsplit("/", 1)[1])
        if rid == 3:
            raise OSError("transport failed for %d" % rid)
        return "answer-%d" % rid
    HC.make_request = fake_request
    try:
        def make():
            w = dict(loop=Loop(), calls=[], yielded=[], gen=None, n=0, handles={})
            w["c"] = HC.AsyncHTTPClientImpl(loop=w["loop"])
            return w

        def apply(w, op):
            kind = op[0]
            err = ""
            try:
                if kind == "submit":
                    w["n"] += 1
                    rid = w["n"]
                    cb = None if rid == 2 else (lambda resp, rid=rid: w["calls"].append((rid, resp)))
                    if rid % 2:
                        h = w["c"].get("http://h/%d" % rid, callback=cb)
                    else:
                        h = w["c"].post("http://h/%d" % rid, b"payload", callback=cb)
                    w["handles"][id(h)] = rid
                elif kind == "complete":
                    fn, args = w["loop"].q.pop(0)
                    try:
                        fn(*args)
                    except OSError:
                        pass                      # the loop logs an exception of a callback and carries on
                elif kind == "gen_start":
                    w["gen"] = w["c"].getResponses()
                elif kind == "gen_next":
                    try:
                        h = next(w["gen"])
                        w["yielded"].append(w["handles"][id(h)])
                    except StopIteration:
                        pass
                elif kind == "gen_close":
                    w["gen"].close()
                    w["gen"] = None
            except Exception as e:
                err = "%s: %s" % (type(e).__name__, e)
            return (tuple(w["handles"][id(h)] for h in w["c"].handles), tuple(sorted(w["handles"][id(h)] for h in w["c"].handles if h.ready)),
                    tuple(r for r, _ in w["calls"]), tuple(w["yielded"]), w["c"].pending(), err,
                    all(resp == ("answer-%d" % r if r != 3 else None) for r, resp in w["calls"]))

        def canon(st):
            st = to_json(st)
            hs = tuple(st["handles"])
            return (hs, tuple(sorted(r for r in hs if r in st["ready"])), tuple(st["calls"]), tuple(st["yielded"]), len(hs), "", True)
        n_tr, mm = replay_graph(states, edges, init, make, apply, lambda st: (st["last"]["op"], st["last"]["r"]), canon,
                                on_case=lambda s, op: ctx.case((s, op), nontrivial=op[0] in ("gen_next", "complete", "gen_close")))
        ctx.traces = n_tr
        ctx.extra.update(graph_states=len(states), transitions_taken_on_real_object=n_tr, abandon_breaks_CallbackAtMostOnce_in_model=abandon_breaks)
        for m in mm[:3]:
            ctx.fail("AsyncHTTPClientImpl leaves HttpClient.tla: after %s, %s gives %s; specification allows %s" % (json.dumps(m["path"][-6:]), m["op"], m["observed"], m["allowed"]), m)
        if not mm and abandon_breaks:
            tr = [to_json(s["state"]["last"]) for s in b.trace[1:]]
            ctx.fail("a consumer that leaves the getResponses() loop after a yield gets the same callback again on the next pass (the handle is removed only after the yield): "
                     "CallbackAtMostOnce is violated in the specification the real client was found to follow, e.g. %s" % json.dumps(tr), dict(trace=tr), sig="http-client-abandoned-generator")
    finally:
        HC.make_request = real_mr
    # HTTPClient.delete: the wrapper passes a name that does not exist
    try:
        cl = HC.HTTPClient.__new__(HC.HTTPClient)
        cl.addr, cl.protocol, cl.client = ("127.0.0.1", 1), "http", HC.AsyncHTTPClientImpl(loop=Loop())
        cl.delete("/x")
        ctx.extra["HTTPClient.delete"] = "works"
    except NameError as e:
        ctx.fail("HTTPClient.delete raises NameError (%s): the wrapper forwards a `payload` it does not have" % e, dict(call="HTTPClient.delete('/x')"), sig="http-client-delete-nameerror")


def replay(ctx, doc):
    print(json.dumps(doc["case"], indent=1)[:3000])

"""Record executions of the real ConnectionBase pair and have TLC judge them against specs/Trace_Conn.tla.

Every property of the reliability layer (C03-C09) uses this judge with its own scenarios; a rejection names the
failing clause(s) and the clause decides which property it is attributed to.
"""
import json, os, shutil
import tlc as T
import connworld as W
from tlaval import to_json, parse_value
from core import Machinery

# clause -> property it is evidence for
CLAUSE_PROP = {
    "S_refuse": "C06", "S_single": "C06", "S_frag": "C06", "V_exact": "C06", "B_known": "C06", "V_ctx": "C06",
    "S_ok": "C05", "S_fit": "C05", "K_notstuck": "C05", "E_delivered": "C05",
    "S_seq": "C08", "S_retry": "C07", "B_seq": "C08", "B_ack": "C08", "V_win": "C08", "V_acked": "C08", "V_mcur": "C08",
    "B_size": "C09", "B_count": "C09", "B_together": "C09", "B_noraise": "C09", "E_left": "C09",
    "B_sealed": "C03", "B_aad": "C03", "F_noeffect": "C01", "F_window": "C08", "V_nolost": "C05", "V_ctxage": "C06", "B_sec": "C03", "B_rate": "C03", "B_dir": "C03",
    "R_pend": "C07", "R_time": "C07", "R_cbs": "C07", "R_true": "C07", "E_cb": "C07",
    "V_noraise": "C06", "V_accept": "C04", "V_dropwhole": "C04", "V_counted": "C04", "V_deliver": "C04", "V_once": "C04",
}
# clauses that more than one property relies on
ALSO = {"F_window": ("C01", "C11"), "V_nolost": ("C07", "C08"), "V_ctxage": ("C05",), "V_acked": ("C05", "C07"), "B_ack": ("C05", "C07"), "B_known": ("C04", "C05", "C07", "C06"), "V_exact": ("C04",), "E_left": ("C05", "C07"), "K_notstuck": ("C09", "C07", "C06"), "S_fit": ("C09", "C07", "C06"), "V_accept": ("C08",), "V_deliver": ("C06",), "S_ok": ("C09",), "B_seq": ("C03",)}


def props_of(clause):
    return (CLAUSE_PROP.get(clause, "?"),) + ALSO.get(clause, ())


def cfg(stale=False, ctx=False, Wp=32, Wm=256, M=65535, invariants=(), skip=()):
    s = ("SPECIFICATION TSpec\nCONSTANTS\n M = %d\n Wp = %d\n Wm = %d\n Keep = 8192\n StaleMsgDeviation = %s\n CtxExpiryDeviation = %s\n Skip = {%s}\n"
         % (M, Wp, Wm, "TRUE" if stale else "FALSE", "TRUE" if ctx else "FALSE", ", ".join('"%s"' % c for c in sorted(skip))))
    for i in invariants:
        s += "INVARIANT %s\n" % i
    s += "CHECK_DEADLOCK FALSE\n"
    return s


def judge(ctx, traces, label, stale=False, ctxdev=False, workers=None, skip=()):
    """Returns (rejections, summary).  A rejection is dict(tid, l, failing, ev, state); none = every trace is a behaviour of Trace_Conn.
    TLC runs with one worker per JVM (every TLC worker would otherwise re-parse the trace file); traces are split over parallel JVMs."""
    from concurrent.futures import ThreadPoolExecutor
    wd = T.workdir("tc")
    try:
        order = sorted(range(len(traces)), key=lambda i: -len(traces[i]))
        nproc = max(1, min(14, len(traces), (sum(len(t) for t in traces) // 6000) + 1))
        chunks = [[] for _ in range(nproc)]
        load = [0] * nproc
        for i in order:
            k = load.index(min(load))
            chunks[k].append(i)
            load[k] += len(traces[i]) + 500
        paths = []
        for k, ch in enumerate(chunks):
            path = os.path.join(wd, "traces%d.json" % k)
            open(path, "w").write(json.dumps([traces[i] for i in ch]))
            paths.append(path)

        def one(k):
            return T.run("Trace_Conn", cfg(stale, ctxdev, skip=skip), env=dict(TRACE_FILE=paths[k]), heap="3g", cont=True, workers=1, timeout=3000, parse_states="last", gcthreads=2)
        with ThreadPoolExecutor(nproc) as ex:
            results = list(ex.map(one, range(nproc)))
        rej, acc = [], []
        tot = dict(generated=0, distinct=0, wall_s=0.0, coverage={})
        for k, r in enumerate(results):
            tot["generated"] += r.generated
            tot["distinct"] += r.distinct
            tot["wall_s"] = max(tot["wall_s"], r.wall_s)
            for a, c in r.coverage.items():
                x = tot["coverage"].setdefault(a, [0, 0])
                x[0] += c[0]
                x[1] += c[1]
            if r.violation:
                raise Machinery("Trace_Conn judge failed: %s" % r.violation["text"][:2000])
            if not r.ok:
                raise Machinery("Trace_Conn judge did not finish: %s" % r.out[-1500:])
            verdicts = 0
            for line in r.printed:
                if line.startswith('"REJECT '):
                    st = to_json(parse_value(parse_value(line)[7:]))
                    verdicts += 1
                    rej.append(dict(tid=chunks[k][st["tid"] - 1] + 1, l=st.get("l"), failing=sorted(st.get("failing", [])), ev=st.get("ev"),
                                    state={kk: v for kk, v in st.items() if kk not in ("ev",)}))
                elif line.startswith('"ACCEPT '):
                    st = to_json(parse_value(parse_value(line)[7:]))
                    verdicts += 1
                    acc.append(dict(tid=chunks[k][st["tid"] - 1] + 1, lostCtx=st["lostCtx"], staleDup=st["staleDup"], d7=st["d7"]))
            if verdicts != len(chunks[k]):
                raise Machinery("Trace_Conn judge: %d verdict lines for %d traces (a trace without an end event?)" % (verdicts, len(chunks[k])))
        ctx.tlc_runs.append(dict(module="Trace_Conn", label=label, jvms=nproc, **{k: tot[k] for k in ("generated", "distinct")}, wall_s=round(tot["wall_s"], 2),
                                 coverage=tot["coverage"]))
        ctx.states += tot["distinct"]
        ctx.transitions += tot["generated"]
        if tot["distinct"] < sum(x["l"] or 0 for x in rej) + sum(len(traces[a["tid"] - 1]) - 1 for a in acc):
            raise Machinery("trace judge explored fewer states (%d) than events it claims to have consumed" % tot["distinct"])
        class R:
            pass
        R.generated, R.distinct, R.coverage, R.accepted = tot["generated"], tot["distinct"], tot["coverage"], acc
        return rej, R
    finally:
        shutil.rmtree(wd, ignore_errors=True)


def report(ctx, rej, traces, descr, mine, sig_for=None, stale=True, ctxdev=True):
    """Turn rejections into VIOLATION lines for the property `mine`.  A trace that stops at clauses of other properties only is judged again with those
    clauses skipped (up to three rounds), so that what follows in it is still examined for `mine`; what remains foreign is noted, not reported."""
    skipped = set()
    for _round in range(3):
        foreign = [x for x in rej if x["failing"] and not ({mine, "?"} & set(p for c in x["failing"] for p in props_of(c)))]
        if not foreign:
            break
        skipped |= set(c for x in foreign for c in x["failing"])
        tids = sorted({x["tid"] for x in foreign})
        sub = [traces[t - 1] for t in tids]
        rej2, _ = judge(ctx, sub, "Trace_Conn %s: %d trace(s) judged again without %s" % (mine, len(sub), sorted(skipped)), stale=stale, ctxdev=ctxdev, skip=skipped)
        for x in rej2:
            x["tid"] = tids[x["tid"] - 1]
            x["after_skipping"] = sorted(skipped)
        rej = [x for x in rej if x not in foreign] + rej2
    other = 0
    for x in rej:
        clauses = x["failing"] or ["(no clause false: event not consumable)"]
        owners = set(p for c in clauses for p in props_of(c))
        if mine in owners or "?" in owners:
            ev = x["ev"] if isinstance(x["ev"], dict) else {}
            brief = {k: ev.get(k) for k in ("ev", "e", "now", "pid", "len", "retry", "res", "dseq", "size", "count", "acked", "timedout", "cbs", "delivered", "left", "healed") if k in ev}
            if "dg" in ev:
                brief["dg"] = dict(dseq=ev["dg"]["dseq"], ack=ev["dg"]["ack"], nmsgs=len(ev["dg"]["msgs"]), msgs=ev["dg"]["msgs"][:3])
            sig = sig_for(x) if sig_for else None
            ctx.fail("%s: recorded execution rejected by Trace_Conn at event %s of trace %s: clause(s) %s false%s; event %s; expected callbacks %s"
                     % (descr(x["tid"]) if callable(descr) else descr, x["l"], x["tid"], ",".join(clauses),
                        (" (judged again after clause(s) %s of other properties had stopped the first pass)" % ",".join(x["after_skipping"])) if x.get("after_skipping") else "",
                        json.dumps(brief)[:700], json.dumps(x["state"].get("expectedCbs"))[:200]),
                     dict(scenario=descr(x["tid"]) if callable(descr) else descr, tid=x["tid"], position=x["l"], failing=clauses, event=ev, state=x["state"],
                          prefix_tail=traces[x["tid"] - 1][max(0, (x["l"] or 1) - 6):(x["l"] or 1)] if x["tid"] else None), sig=sig)
        else:
            other += 1
    if other:
        ctx.note("%d trace(s) stopped early at a clause of another property (%s); the remainder of those traces was not examined" % (
            other, sorted(set(p for x in rej for c in x["failing"] for p in props_of(c)) - {mine})))
    return other


def record(seed, nticks, heal_after, policy_kw=None, world_kw=None, quiesce=900):
    w = W.ConnWorld(**(world_kw or {}))
    try:
        pol = W.RandomPolicy(seed, **(policy_kw or {}))
        return w.run(pol, nticks, heal_after=heal_after, quiesce_ticks=quiesce)
    finally:
        w.close()


def _rec(args):
    seed, sc = args
    return record(seed, sc["nticks"], sc.get("heal_after"), sc.get("policy"), sc.get("world"), sc.get("quiesce", 900))


def run_scenarios(ctx, mine, scenarios, workers=6):
    """scenarios: list of dict(name, n, nticks, heal_after, policy, world).  Records n seeded executions of each on the real code
    (in worker processes: Packet.setMTU is process-wide), judges them all with Trace_Conn, reports rejections that belong to `mine`."""
    from concurrent.futures import ProcessPoolExecutor
    jobs, names = [], []
    for sc in scenarios:
        for i in range(sc["n"]):
            w = dict(sc.get("world") or {})
            if w.get("start_seq") == "alt":
                w["start_seq"] = 65400 if i % 2 else None
            s2 = dict(sc, world=w)
            jobs.append((ctx.seed * 1000 + len(jobs), s2))
            names.append("%s#%d(seed=%d)" % (sc["name"], i, ctx.seed * 1000 + len(jobs) - 1))
    with ProcessPoolExecutor(min(16, max(1, len(jobs)))) as ex:
        traces = list(ex.map(_rec, jobs))
    nev = sum(len(t) for t in traces)
    # the two named deviations of KNOWN_FINDINGS.txt are admitted by the judge (so that they do not cut validation short) and reported when used
    rej, r = judge(ctx, traces, "Trace_Conn %s (%d traces, %d events)" % (mine, len(traces), nev), stale=True, ctxdev=True, workers=workers)
    for a in r.accepted:
        d7 = sorted(set(a["d7"]["c"]) | set(a["d7"]["s"]))
        if d7 and mine == "C05":
            ctx.fail("%s: guaranteed fragmented payload(s) %s acknowledged in full but never delivered: the receiver discarded the partly filled reassembly context"
                     % (names[a["tid"] - 1], d7[:5]), dict(scenario=names[a["tid"] - 1], pids=d7), sig="frag-context-expired")
        if a["staleDup"] and mine == "C04":
            ctx.fail("%s: payload(s) %s delivered twice: a retransmission older than the 256-message window was accepted again"
                     % (names[a["tid"] - 1], sorted(a["staleDup"])[:5]), dict(scenario=names[a["tid"] - 1], pids=sorted(a["staleDup"])), sig="msg-stale-redelivery")
    rejected = {x["tid"] for x in rej}
    ctx.traces += len(traces) - len(rejected)
    ctx.extra["trace_events"] = ctx.extra.get("trace_events", 0) + nev
    ctx.extra["traces_recorded"] = ctx.extra.get("traces_recorded", 0) + len(traces)
    kinds = {}
    for t in traces:
        for e in t:
            kinds[e["ev"]] = kinds.get(e["ev"], 0) + 1
            if e["ev"] == "recv":
                if not e["res"]:
                    kinds["recv_dropped"] = kinds.get("recv_dropped", 0) + 1
                kinds["callbacks"] = kinds.get("callbacks", 0) + len(e["cbs"])
                kinds["deliveries"] = kinds.get("deliveries", 0) + len(e["delivered"])
            if e["ev"] == "send" and e["fid"]:
                kinds["fragmented_sends"] = kinds.get("fragmented_sends", 0) + 1
    for k, v in kinds.items():
        ctx.extra["ev_" + k] = ctx.extra.get("ev_" + k, 0) + v
    for t in traces:
        ctx.evaluations += len(t)
    ctx.distinct_n += kinds.get("recv", 0) + kinds.get("build", 0)
    if traces:
        ctx.sample(dict(scenario=names[0], first_events=traces[0][1:4], n_events=len(traces[0])))
    report(ctx, rej, traces, lambda tid: names[tid - 1] if tid else "?", mine)
    return traces, rej


def _lateness(args):
    """One datagram of the client is overtaken by L others, arrives, and then everything is replayed once (window boundary sweep)."""
    L, start, seed = args[:3]
    per_tick = args[3] if len(args) > 3 else 1      # messages per datagram: with k > 1 a datagram that is L datagrams late carries messages that are k*L messages late
    w = W.ConnWorld(start_seq=start)
    try:
        import random
        rnd = random.Random(seed)
        late = rnd.randint(2, 5)

        def sends(tick, name, world):
            return [(rnd.choice([4, 20, 60] if per_tick == 1 else [4, 5, 6]), 0, False) for _ in range(per_tick)] if name == "c" and tick <= L + late + 3 else []

        def fate(tick, name, dgid, world):
            if name == "c" and dgid == late:
                return [L]
            return [0]

        def replays(tick, name, world):
            if name == "c" and tick == L + late + 6:
                return list(range(1, len(world.emitted["c"]) + 1))
            return []
        return w.run(W.FnPolicy(sends, fate, replays), L + late + 14, heal_after=L + late + 10, quiesce_ticks=200)
    finally:
        w.close()


def lateness_sweep(ctx, mine, lates, starts=(None, 65500, 65530), per_tick=1):
    from concurrent.futures import ProcessPoolExecutor
    jobs = [(L, st, ctx.seed + L, per_tick) for L in lates for st in starts]
    with ProcessPoolExecutor(16) as ex:
        traces = list(ex.map(_lateness, jobs))
    names = ["lateness-%d%s(start=%s)" % (j[0], "" if per_tick == 1 else "x%d-messages" % per_tick, j[1]) for j in jobs]
    rej, r = judge(ctx, traces, "Trace_Conn %s lateness sweep (%d traces)" % (mine, len(traces)), stale=True, ctxdev=True)
    ctx.traces += len(traces) - len({x["tid"] for x in rej})
    for t in traces:
        ctx.evaluations += len(t)
    ctx.extra["lateness_sweep"] = "%d schedules, lateness %d..%d" % (len(jobs), min(lates), max(lates))
    report(ctx, rej, traces, lambda tid: names[tid - 1], mine)


def _gap(args):
    """G consecutive datagrams of the client are lost (G across the window width), the first datagram after the gap arrives - the window jumps and is empty but for
    its newest entry - and right then a copy of a datagram from before the gap is replayed: older than the window, dropped whole."""
    G, start, seed = args
    w = W.ConnWorld(start_seq=start)
    try:
        import random
        rnd = random.Random(seed)
        pre = rnd.randint(4, 7)

        def sends(tick, name, world):
            return [(rnd.choice([4, 20]), 0, False)] if name == "c" and tick <= pre + G + 6 else []

        def fate(tick, name, dgid, world):
            if name == "c" and pre < dgid <= pre + G:
                return []
            return [0]

        def replays(tick, name, world):
            if name == "c" and tick in (pre + G + 1, pre + G + 2):
                return [2, 3]
            return []
        return w.run(W.FnPolicy(sends, fate, replays), pre + G + 14, heal_after=pre + G + 10, quiesce_ticks=200)
    finally:
        w.close()


def gap_sweep(ctx, mine, gaps, starts=(None, 65500)):
    from concurrent.futures import ProcessPoolExecutor
    jobs = [(G, st, ctx.seed + G) for G in gaps for st in starts]
    with ProcessPoolExecutor(16) as ex:
        traces = list(ex.map(_gap, jobs))
    names = ["gap-%d(start=%s)" % (j[0], j[1]) for j in jobs]
    rej, r = judge(ctx, traces, "Trace_Conn %s gap sweep (%d traces)" % (mine, len(traces)), stale=True, ctxdev=True)
    ctx.traces += len(traces) - len({x["tid"] for x in rej})
    for t in traces:
        ctx.evaluations += len(t)
    ctx.extra["gap_sweep"] = "%d schedules, %d..%d consecutive datagrams lost, then a replay from before the gap" % (len(jobs), min(gaps), max(gaps))
    report(ctx, rej, traces, lambda tid: names[tid - 1], mine)


def _acklate(args):
    """Every datagram of the return path is lost for exactly L ticks while both sides emit one datagram per tick: the first acknowledgement that gets through
    names the oldest unacknowledged datagram at distance L (+-1) - a sweep of L across the 32-bit ack window exercises every bit, the last one included."""
    L, start, seed = args
    w = W.ConnWorld(start_seq=start)
    try:
        import random
        rnd = random.Random(seed)
        t0 = rnd.randint(3, 6)

        def sends(tick, name, world):
            if tick > t0 + L + 6:
                return []
            if name == "c" and tick == t0:
                return [(20, 0, True), (30, -1, True)]          # the messages whose fate is watched: an unretried and a guaranteed send, both with callbacks
            return [(rnd.choice([4, 8]), 0, False)]               # both sides keep emitting one datagram per tick

        def fate(tick, name, dgid, world):
            if name == "s" and t0 <= tick < t0 + L:
                return []                                          # return path dark
            return [0]

        def replays(tick, name, world):
            return []
        return w.run(W.FnPolicy(sends, fate, replays), t0 + L + 12, heal_after=t0 + L + 8, quiesce_ticks=200)
    finally:
        w.close()


def ack_lateness_sweep(ctx, mine, lates, starts=(None, 65500)):
    from concurrent.futures import ProcessPoolExecutor
    jobs = [(L, st, ctx.seed + L) for L in lates for st in starts]
    with ProcessPoolExecutor(16) as ex:
        traces = list(ex.map(_acklate, jobs))
    names = ["ack-lateness-%d(start=%s)" % (j[0], j[1]) for j in jobs]
    rej, r = judge(ctx, traces, "Trace_Conn %s ack lateness sweep (%d traces)" % (mine, len(traces)), stale=True, ctxdev=True)
    ctx.traces += len(traces) - len({x["tid"] for x in rej})
    for t in traces:
        ctx.evaluations += len(t)
    ctx.extra["ack_lateness_sweep"] = "%d schedules, return path dark for %d..%d ticks" % (len(jobs), min(lates), max(lates))
    report(ctx, rej, traces, lambda tid: names[tid - 1], mine)


def _schedule(args):
    """Run the real endpoints under one TLC-enumerated environment schedule."""
    sc, seed = args
    w = W.ConnWorld()
    try:
        plan = {}
        for p in sc["plan"]:
            plan.setdefault((p["tick"], "c"), []).append((p["len"], p["retry"], True))
        fates = {}
        for side in ("c", "s"):
            for k, f in enumerate(sc[side]):
                fates[(side, k + 1)] = list(f)
        pol = W.ScriptPolicy(sends=plan, fates=fates, default_fate=(0,))
        return w.run(pol, 150, heal_after=90, quiesce_ticks=300)
    finally:
        w.close()


def schedule_sweep(ctx, mine, quick):
    """Binding R, environment-schedule mode: TLC enumerates every schedule of the bounded space (specs/Net.tla); each is executed on the real
    endpoints and the recorded execution judged by Trace_Conn."""
    import tlc as T2
    from concurrent.futures import ProcessPoolExecutor
    # thorough: six fates instead of four for the first two datagrams of each side (7 776 schedules).  Three datagrams are out of reach for the
    # judge: 24 576 (four fates) or 279 936 (six) recorded executions of some 600 events each are gigabytes of trace.
    spaces = [(2, "FatesQuick")] if quick else [(2, "FatesThorough")]
    scheds = []
    for nd, fates in spaces:
        wd = T2.workdir("net")
        try:
            out = os.path.join(wd, "schedules.json")
            cfgtxt = "INIT GenInit\nNEXT Next\nCONSTANTS\n NDatagrams = %d\n Fates <- %s\n Plans <- PlansDef\nCHECK_DEADLOCK FALSE\n" % (nd, fates)
            g = ctx.mc("MC_Net", cfgtxt, env=dict(OUT_FILE=out), coverage=False, workers=1, count=False, label="Net: schedule space (%d datagrams, %s)" % (nd, fates))
            if not g.ok or not os.path.exists(out):
                raise Machinery("schedule generation failed: %s" % (g.violation,))
            scheds += json.load(open(out))["schedules"]
        finally:
            shutil.rmtree(wd, ignore_errors=True)
    with ProcessPoolExecutor(16) as ex:
        traces = list(ex.map(_schedule, [(s, ctx.seed) for s in scheds], chunksize=8))
    rej, r = judge(ctx, traces, "Trace_Conn %s schedule sweep (%d TLC-enumerated schedules)" % (mine, len(scheds)), stale=True, ctxdev=True)
    ctx.traces += len(traces) - len({x["tid"] for x in rej})
    ctx.evaluations += sum(len(t) for t in traces)
    ctx.distinct_n += len(scheds)
    ctx.extra["schedule_sweep"] = "%d schedules (every fate assignment of the first datagrams of each side x 6 send plans; spaces %s), exhaustive in each bound" % (len(scheds), spaces)
    ctx.sample(dict(kind="schedule", schedule=scheds[len(scheds) // 2]))
    report(ctx, rej, traces, lambda tid: "schedule %s" % json.dumps(scheds[tid - 1]), mine)


def after_disconnect(ctx, mine):
    """The receive windows belong to the session, not to the application's interest in it: an endpoint whose application has called disconnect() keeps being
    polled for a while (waitForDisconnect, the rest of the server tick) and retransmissions of messages it already handed over keep arriving, in NEW datagrams.
    Conn.tla's AtMostOnce and the window discipline of BitWindow.tla do not end at disconnect(): such a message is a duplicate and its datagram's number is
    still acknowledged.  Scripted histories (both retry modes, both directions, whole and fragmented messages, several polls after the call)."""
    from connworld import ConnWorld, FnPolicy
    tick = 16667
    for retry in (1, -1):
        for who in ("c", "s"):
            for ln in (20, 3000):
                w = ConnWorld(start_seq=65520 if who == "c" else None)
                try:
                    src = "s" if who == "c" else "c"
                    lose = FnPolicy(fate=lambda *a: [])
                    for warm in range(3):                       # a little ordinary traffic first
                        w.vt.us += tick
                        w.app_send(src, 8, 0, False)
                        w.endpoint_tick(src, warm, lose)
                        w.deliver(src, len(w.emitted[src]))
                    pid = w.app_send(src, ln, retry, True)
                    sent_upto = len(w.emitted[src])
                    for k in range(4):                          # the message (all its fragments) reaches the receiver; every ack is lost
                        w.vt.us += tick
                        w.endpoint_tick(src, k, lose)
                    for d in range(sent_upto + 1, len(w.emitted[src]) + 1):
                        w.deliver(src, d)
                    first = sum(1 for e in w.ev if e["ev"] == "recv" and e["e"] == who for x in e["delivered"] if x["pid"] == pid)
                    e = w.ends[who]
                    mcur0 = int(e.bitfield_msg.current_seqnum)
                    e.disconnect()
                    seen = len(w.emitted[src])
                    for k in range(130):                        # more than two seconds: the resend interval and the ack time-out both pass
                        w.vt.us += tick
                        w.endpoint_tick(src, k, lose)
                        for d in range(seen + 1, len(w.emitted[src]) + 1):
                            w.deliver(src, d)
                        seen = len(w.emitted[src])
                        w.endpoint_tick(who, k, lose)
                    total = sum(1 for ev in w.ev if ev["ev"] == "recv" and ev["e"] == who for x in ev["delivered"] if x["pid"] == pid)
                    ctx.case(("after-disconnect", retry, who, ln))
                    ctx.evaluations += 1
                    if first != 1:
                        raise Machinery("after-disconnect scenario: the message was delivered %d times before the call" % first)
                    if total != 1 or int(e.bitfield_msg.current_seqnum) < mcur0 and mcur0 - int(e.bitfield_msg.current_seqnum) < 30000:
                        ctx.fail("after disconnect(): a %d-byte message sent with retry=%d and handed to the %s application once was handed over %d time(s) in total when its retransmissions "
                                 "arrived after the application had called disconnect() (message window newest %d before the call, %d at the end)"
                                 % (ln, retry, "client" if who == "c" else "server", total, mcur0, int(e.bitfield_msg.current_seqnum)),
                                 dict(retry=retry, receiver=who, length=ln, deliveries=total))
                finally:
                    w.close()

"""C02 - the handshake authenticates the server, agrees one key, promotes on proof of key.

specs/Handshake.tla (symbolic Dolev-Yao model) is model-checked with up to 3 attacker datagrams; every transition TLC explores is printed
and replayed, concretised with real P-256 / ECDSA / HKDF / AES-GCM, into a real UdpClient and the real server loop (harness/srvworld.py);
after each step the real state (client status / key / token, server pools with their keys and tokens, connect events) must equal the
specification state.  A byte-level mutation sweep of the genuine server hello is judged by TLC (Obs_Handshake).
"""
import json, os, shutil, struct, random
from collections import defaultdict, deque
import impl, tlc as T
from tlaval import parse_value, to_json, _freeze
from core import Machinery

CA, XA, WARM = ("10.9.0.1", 5001), ("66.6.6.6", 666), ("10.9.0.9", 5009)
REAL = {"ca": CA, "xa": XA}


class HsWorld:
    def __init__(self, seed=0):
        import srvworld as SW
        self.w = w = SW.ServerWorld(seed=seed, conn_timeout=30.0, temp_timeout=30.0)
        self.C = w.C
        self.crypto = impl.mod("crypto")
        K = self.crypto.EllipticCurvePrivateKey
        # an earlier, honest session of the SAME UdpClient object (same pinned key object) from another address: whatever the client remembers from it -
        # and the signature the attacker saw on the wire - is available in the session under test
        self.cl = w.add_client(1, WARM, conn_timeout=30.0)
        for _ in range(12):
            w.tick()
            if self.cl.connected():
                break
        if not self.cl.connected():
            raise Machinery("the warm-up session did not connect")
        S0 = impl.mod("serializable")
        from io import BytesIO as _B
        h0 = next(d for d in w.sent_to[WARM] if d[12] == 2)
        st0 = _B(h0[22:])
        st0.read(2)
        S0.deserialize_value(st0)
        S0.deserialize_value(st0)
        self.sig0 = S0.deserialize_value(st0)
        self.cl.forceDisconnect()
        w.clients[1]["addr"] = CA
        w.reconnect(1)
        w.clients[1]["cut"] = True
        w.clients[1]["deaf"] = True
        w.tick()          # the client emits its hello (captured, not delivered)
        self.ev0 = len(w.ev)
        self.a_priv = K.new()
        self.A_root = K.new()
        self.sessions = {}          # "s1"/"s2" -> dict(conn, addr, hello datagram)
        self.seq = 200
        self.na = os.urandom(16)
        self.ta = 0x40001234

    def close(self):
        self.w.close()

    # ---- real values of symbolic terms
    def pub(self, k):
        if k == "c":
            return self.cl.conn.session_key.getPublicKey()
        if k == "a":
            return self.a_priv.getPublicKey()
        return self.sessions[k]["conn"].session_key.getPublicKey()

    def salt(self, n):
        return self.na if n == "na" else self.sessions["s" + n[1]]["conn"].session_salt

    def token(self, t):
        return self.ta if t == "ta" else (self.sessions["s" + t[1]]["conn"].token if t != "none" else 0)

    def key(self, term):
        pair = set(term["pair"])
        if not pair:
            return None
        if "garbage" in pair:
            return b"\x13" * 16
        if "plain" in pair:
            return None            # no seal: the datagram ends in a CRC, as the hellos do
        if "c" in pair and "a" not in pair:
            other = (pair - {"c"}).pop()
            return self.crypto.ecdh_client(self.cl.conn.session_key, self.pub(other), self.salt(term["salt"]))
        if "a" in pair:
            other = (pair - {"a"}).pop() if pair != {"a"} else "a"
            return self.crypto.ecdh_client(self.a_priv, self.pub(other), self.salt(term["salt"]))
        raise KeyError(term)

    # ---- real bytes of symbolic datagrams
    def nextseq(self):
        self.seq += 3          # (a forged hello is built through _build_packet, which adds one: keep the attacker's datagram seqs apart)
        return self.seq

    def bytes_of(self, m):
        C = self.C
        S = impl.mod("serializable")
        from io import BytesIO
        if m["t"] == "ch":
            if m["pub"] == "c":
                return next(d for d in self.w.seen_from[CA] if d[12] == 1)
            tmp = C.ClientServerConnection(XA)
            tmp.session_key = self.a_priv
            tmp.seq_sending = C.SeqNum(self.nextseq())
            tmp._sendClientHello()
            return tmp._encode_packet(tmp._build_packet())
        if m["t"] == "sh":
            sig = m["sig"]
            genuine = [s for s in self.sessions.values() if sig["by"] == "R" and tuple(sig["over"]) == (s["name"], "n" + s["name"][1], "t" + s["name"][1])]
            if sig["by"] == "R" and (m["spub"], m["salt"], m["token"]) == tuple(sig["over"]) and genuine:
                return genuine[0]["hello"]                       # the genuine hello of that session, byte for byte
            tmp = BytesIO()
            S.serialize_value(tmp, self.pub(m["spub"]).getBytes())
            S.serialize_value(tmp, self.salt(m["salt"]))
            S.serialize_value(tmp, self.token(m["token"]))
            payload = tmp.getvalue()
            if sig["by"] == "A":
                o = sig["over"]
                t2 = BytesIO()
                S.serialize_value(t2, self.pub(o[0]).getBytes())
                S.serialize_value(t2, self.salt(o[1]))
                S.serialize_value(t2, self.token(o[2]))
                signature = self.A_root.sign(t2.getvalue())
                root = self.A_root.getPublicKey().getBytes()
            elif sig["by"] == "R":
                # a signature copied from a genuine hello, now attached to other parameters
                signature = genuine[0]["sig"] if genuine else self.sig0        # (no such session in this run: the signature of the client's earlier session)
                root = self.w.ctxt.server_root_key.getPublicKey().getBytes()
            else:
                signature = bytearray(self.A_root.sign(payload))
                signature[len(signature) // 2] ^= 0x40
                signature = bytes(signature)
                root = self.w.ctxt.server_root_key.getPublicKey().getBytes()
            body = BytesIO()
            body.write(struct.pack(">H", C.HandshakeServerHelloMessage.type_id))
            S.serialize_value(body, root)
            S.serialize_value(body, payload)
            S.serialize_value(body, signature)
            data = body.getvalue()
            if sig["by"] == "framing":
                data = data[: len(data) // 3]
            hdr = C.PacketHeader.create(True, int(self.w.vt.time()), C.PacketType.SERVER_HELLO, C.SeqNum(self.nextseq()), C.SeqNum(1), 0)
            pkt = C.Packet.create(hdr, [C.PendingMessage(C.SeqNum(self.nextseq()), C.PacketType.SERVER_HELLO, data, None, C.RetryMode.NONE)])
            return pkt.to_bytes(None)
        if m["t"] == "bundle":
            # CLIENT_HELLO-typed header, two inner messages: a challenge response (token 0 or arbitrary) and a keep-alive; valid CRC, no key
            msg = C.HandshakeClientChallengeResponseMessage()
            msg.token = 0 if m["token"] == "zero" else self.ta
            hdr = C.PacketHeader.create(False, int(self.w.vt.time()), C.PacketType.CLIENT_HELLO, C.SeqNum(self.nextseq()), C.SeqNum(0), 0)
            pkt = C.Packet.create(hdr, [C.PendingMessage(C.SeqNum(self.nextseq()), C.PacketType.CHALLENGE_RESP, msg.dumpb(), None, C.RetryMode.NONE),
                                        C.PendingMessage(C.SeqNum(self.nextseq()), C.PacketType.KEEP_ALIVE, b"", None, C.RetryMode.NONE)])
            return pkt.to_bytes(None)
        if m["t"] == "cr":
            pair = set(m["key"]["pair"])
            if "c" in pair and "a" not in pair:
                ds = [d for d in self.w.seen_from[CA] if d[12] == 3]
                if not ds:
                    raise KeyError("client challenge not on the wire")
                return ds[0]
            key = self.key(m["key"])
            msg = C.HandshakeClientChallengeResponseMessage()
            msg.token = self.token(m["token"])
            hdr = C.PacketHeader.create(False, int(self.w.vt.time()), C.PacketType.CHALLENGE_RESP, C.SeqNum(self.nextseq()), C.SeqNum(1), 0)
            pkt = C.Packet.create(hdr, [C.PendingMessage(C.SeqNum(self.nextseq()), C.PacketType.CHALLENGE_RESP, msg.dumpb(), None, C.RetryMode.NONE)])
            return pkt.to_bytes(key)
        raise KeyError(m)

    # ---- one model step on the real system
    def to_server(self, m, src):
        addr = REAL[src]
        known = set(self.w.ctxt.temp_connections) | set(self.w.ctxt.connections)
        n0 = len(self.w.sent_to[addr])
        self.w.inject(self.bytes_of(m), addr, kind="model")
        self.w.tick()
        self.w.tick()
        if addr not in known and addr in self.w.ctxt.temp_connections:
            name = "s%d" % (len(self.sessions) + 1)
            conn = self.w.ctxt.temp_connections[addr]
            hello = next(d for d in self.w.sent_to[addr][n0:] if d[12] == 2)
            S = impl.mod("serializable")
            from io import BytesIO
            st = BytesIO(hello[22:])
            st.read(2)
            S.deserialize_value(st)
            S.deserialize_value(st)
            sigb = S.deserialize_value(st)
            self.sessions[name] = dict(name=name, conn=conn, addr=addr, hello=hello, sig=sigb)

    def to_client(self, m):
        self.w.clients[1]["sock"].inbox.append(self.bytes_of(m))
        self.w.tick()

    def apply(self, op):
        act = op["act"]
        m = op["m"]
        if act == "deliver":
            if op["src"] == "ca":
                self.to_server(m, "ca")
            else:
                self.to_client(m)
        elif act in ("replay-to-server", "atk-hello", "atk-challenge", "atk-bundle"):
            self.to_server(m, op["src"])
        else:
            self.to_client(m)

    def observe(self, spec):
        """Compare with the specification's observable state; returns a list of differences."""
        diffs = []
        conn = self.cl.conn
        st = {1: "CONNECTING", 2: "CONNECTED", 4: "DISCONNECTED"}.get(self.cl.status().value, str(self.cl.status()))
        if st != spec["cli"]["status"]:
            diffs.append("client status %s, specification %s" % (st, spec["cli"]["status"]))
        want = self.key(spec["cli"]["key"])
        have = conn.session_key_bytes if conn is not None else None
        if (have or None) != want:
            diffs.append("client key %s, specification %s" % ("set" if have else None, "K%s" % sorted(spec["cli"]["key"]["pair"]) if want else None))
        if want and conn.token != self.token(spec["cli"]["token"]):
            diffs.append("client token differs")
        for pool, real in (("temps", self.w.ctxt.temp_connections), ("conns", self.w.ctxt.connections)):
            have_a = {a for a in ("ca", "xa") if REAL[a] in real}
            if have_a != set(spec[pool]):
                diffs.append("server %s = %s, specification %s" % (pool, sorted(have_a), sorted(spec[pool])))
                continue
            for a in have_a:
                c = real[REAL[a]]
                if c.session_key_bytes != self.key(spec[pool][a]["key"]) or c.token != self.token(spec[pool][a]["token"]):
                    diffs.append("server %s[%s] holds another key/token than the specification's" % (pool, a))
        ev = [("ca" if e["a"] == self.w.aid(CA) else "xa") for e in self.w.ev[self.ev0:] if e["ev"] == "h" and e["what"] == "connect"]
        if ev != list(spec["connected"]):
            diffs.append("connect events %s, specification %s" % (ev, list(spec["connected"])))
        return diffs


def replay_model(ctx, nattack, max_transitions):
    cfg = ("SPECIFICATION Spec\nCONSTANT MaxAttacker = %d\nVIEW NoLast\nACTION_CONSTRAINT Emit\nINVARIANT ClientAuth\nINVARIANT NoKeyOnReject\nINVARIANT KeySecret\nINVARIANT Promotion\n"
           "INVARIANT ConnectEvent\nINVARIANT Agreement\nINVARIANT HonestCompletes\nCHECK_DEADLOCK FALSE\n" % nattack)
    r = ctx.mc("Gen_Handshake", cfg, label="Gen_Handshake MaxAttacker=%d" % nattack, workers=1, coverage=False, count=False, timeout=1200)
    if not r.ok:
        ctx.fail("Handshake specification: %s violated" % r.violation["name"], dict(trace=to_json([s["state"] for s in r.trace[-5:]])))
        return
    succ = defaultdict(list)
    init = None
    for line in r.printed:
        if not line.startswith('"TR '):
            continue
        s0, used, op, s1 = to_json(parse_value(parse_value(line)[3:]))
        k0, k1 = json.dumps([s0, used], sort_keys=True), json.dumps([s1, used + (0 if op["act"] == "deliver" else 1)], sort_keys=True)
        succ[k0].append((op, k1, s1))
        if init is None:
            init = k0
    if init is None:
        raise Machinery("Gen_Handshake printed no transitions")
    # shortest op paths
    path = {init: []}
    dq = deque([init])
    while dq:
        s = dq.popleft()
        for op, k1, s1 in succ[s]:
            if k1 not in path:
                path[k1] = path[s] + [(op, s1)]
                dq.append(k1)
    edges = [(s, op, s1) for s in path for op, k1, s1 in succ[s]]
    ctx.rnd.shuffle(edges)
    n = 0
    for s, op, s1 in edges[:max_transitions]:
        w = HsWorld(ctx.seed + n)
        try:
            ok = True
            try:
                for pop, ps in path[s]:
                    w.apply(pop)
                    if w.observe(ps):
                        ok = False
                        break
                if not ok:
                    continue        # reported when that transition itself is under test
                w.apply(op)
            except KeyError as e:
                ctx.extra["transitions_not_concretisable"] = ctx.extra.get("transitions_not_concretisable", 0) + 1
                continue
            n += 1
            ctx.case(("hs", json.dumps(op, sort_keys=True), s), nontrivial=op["act"] != "deliver")
            diffs = w.observe(s1)
            if diffs:
                ctx.fail("handshake step %s after %s: %s" % (json.dumps(op, sort_keys=True)[:300], [p[0]["act"] for p in path[s]], "; ".join(diffs)),
                         dict(path=[p[0] for p in path[s]], op=op, differences=diffs, expected=s1))
        finally:
            w.close()
    ctx.traces += n
    ctx.extra["handshake_transitions_replayed_n%d" % nattack] = n
    ctx.extra["handshake_transitions_in_model_n%d" % nattack] = len(edges)


def sweep(ctx):
    """Every single-bit flip of the genuine server hello without a CRC repair, and one flip per byte with the CRC recomputed."""
    crc32 = impl.mod("crypto").crc32
    base = HsWorld(ctx.seed)
    try:
        base.to_server(dict(t="ch", pub="c"), "ca")
        hello = base.sessions["s1"]["hello"]
        S = impl.mod("serializable")
        from io import BytesIO
        st = BytesIO(hello[22:])
        st.read(2)
        S.deserialize_value(st)
        payload = S.deserialize_value(st)
        sig = S.deserialize_value(st)
        p_off, s_off = hello.find(payload), hello.find(sig)
        genuine_key = base.key(dict(pair=["c", "s1"], salt="n1"))
        client_state = None
    finally:
        pass
    rows, meta = [], []
    muts = []
    length = struct.unpack(">H", hello[13:15])[0]
    for bit in (range(len(hello) * 8) if not ctx.quick else range(0, len(hello) * 8, 7)):
        t = bytearray(hello)
        t[bit // 8] ^= 1 << (bit % 8)
        muts.append(("flip@%d" % bit, bytes(t)))
    for pos in range(20, 20 + length):
        t = bytearray(hello)
        t[pos] ^= 1 << (pos % 8)
        body = bytes(t[:20 + length])
        muts.append(("flip@byte%d+crc" % pos, body + struct.pack(">L", crc32(body))))
    for cut in range(0, len(hello), 5):
        muts.append(("truncate@%d" % cut, hello[:cut]))
    C = base.C
    # signatures the pinned key object has verified before (the client's earlier session, and - delivered first, below - this session's genuine hello) attached
    # to the attacker's own parameters: a verification is about (signature, data), never about the signature alone
    from io import BytesIO as _B2
    for label, sigbytes in (("signature of the client's earlier session", base.sig0), ("signature of this session's genuine hello", sig)):
        tmp = _B2()
        S.serialize_value(tmp, base.a_priv.getPublicKey().getBytes())
        S.serialize_value(tmp, base.na)
        S.serialize_value(tmp, base.ta)
        body = _B2()
        body.write(struct.pack(">H", C.HandshakeServerHelloMessage.type_id))
        S.serialize_value(body, base.w.ctxt.server_root_key.getPublicKey().getBytes())
        S.serialize_value(body, tmp.getvalue())
        S.serialize_value(body, sigbytes)
        hdr = C.PacketHeader.create(True, int(base.w.vt.time()), C.PacketType.SERVER_HELLO, C.SeqNum(base.nextseq()), C.SeqNum(1), 0)
        pkt = C.Packet.create(hdr, [C.PendingMessage(C.SeqNum(base.nextseq()), C.PacketType.SERVER_HELLO, body.getvalue(), None, C.RetryMode.NONE)])
        muts.append(("attacker parameters under the " + label, pkt.to_bytes(None)))
    pinned = base.cl.server_public_key          # the very key object the application's UdpClient hands to each of its connections
    if pinned is None:
        raise Machinery("the UdpClient of the world has no pinned key")
    # the pinned key object verifies the genuine hello of this session once (as it would in a session that was then abandoned)
    warm = C.ClientServerConnection(CA)
    warm.clock = base.w.vt.time
    warm.session_key = base.cl.conn.session_key
    warm.setServerPublicKey(pinned)
    warm._sendClientHello()
    warm._build_packet()
    try:
        warm._recv_datagram(C.PacketHeader.from_bytes(False, hello), hello)
    except Exception:
        pass
    try:
        for name, raw in muts:
            # a fresh un-keyed client object with the same ephemeral key (so that the genuine key is the reference)
            cl = C.ClientServerConnection(CA)
            cl.clock = base.w.vt.time
            cl.session_key = base.cl.conn.session_key
            cl.setServerPublicKey(pinned)
            cl._sendClientHello()
            cl._build_packet()
            try:
                hdr = C.PacketHeader.from_bytes(False, raw)
                cl._recv_datagram(hdr, raw)
            except Exception:
                pass
            connected = int(cl.status == C.ConnectionStatus.CONNECTED)
            keyset = int(bool(cl.session_key_bytes))
            intact = int(raw[p_off:p_off + len(payload)] == payload and raw[s_off:s_off + len(sig)] == sig)
            keyok = int(cl.session_key_bytes == genuine_key)
            rows.append([connected, keyset, intact, keyok])
            meta.append(name)
            ctx.case(None)
    finally:
        base.close()
    wd = T.workdir("c02")
    try:
        path = os.path.join(wd, "rows.json")
        open(path, "w").write(json.dumps(rows))
        r = ctx.mc("Obs_Handshake", "INIT Init\nNEXT Next\nINVARIANT AllOK\nALIAS Where\nCHECK_DEADLOCK FALSE\n", env=dict(OBS_FILE=path), coverage=False, label="Obs_Handshake (%d mutations)" % len(rows),
                   cont=True, workers=4)
        ctx.extra["hello_mutations"] = len(rows)
        ctx.extra["hello_mutations_still_connecting"] = sum(r_[0] for r_ in rows)
        ctx.distinct_n += len(rows)
        ctx.sample(dict(kind="hello_mutation", mutation=meta[len(meta) // 2], row_connected_keyset_intact_keyok=rows[len(rows) // 2]))
        if not r.ok:
            if r.violation["kind"] != "invariant":
                raise Machinery("Obs_Handshake judge failed: %s" % r.violation["text"][:1500])
            for tr in r.traces:
                for k, row in to_json(T.materialise(tr[-1]).get("bad", []))[:4]:
                    ctx.fail("server hello mutation %s: client connected=%s key set=%s although signed parameters/signature intact=%s, key is the genuine one=%s" % (meta[k - 1], row[0], row[1], row[2], row[3]),
                             dict(mutation=meta[k - 1], row=row))
    finally:
        shutil.rmtree(wd, ignore_errors=True)


def _server_row(job):
    """one mutation of a client-to-server handshake datagram on a fresh real client + server loop (runs in a worker process)"""
    seed, kind, mut = job
    w = HsWorld(seed)
    try:
        sh = dict(t="sh", spub="s1", salt="n1", token="t1", sig=dict(by="R", over=["s1", "n1", "t1"]))

        def mutate(raw):
            op, a, b = mut
            if op == "flip":
                t = bytearray(raw)
                if a // 8 >= len(t):
                    return None
                t[a // 8] ^= 1 << (a % 8)
                return bytes(t)
            if op == "flipcrc":                      # flip inside the body of a CRC datagram and repair the CRC
                length = struct.unpack(">H", raw[13:15])[0]
                if not (0 <= a < 20 + length):
                    return None
                t = bytearray(raw[:20 + length])
                t[a] ^= 1 << (a % 8)
                return bytes(t) + struct.pack(">L", w.crypto.crc32(bytes(t))) + raw[24 + length:]
            if op == "cut":
                return raw[:a] if a < len(raw) else None
            if op == "extend":
                return raw + bytes(a)
            return raw
        other = 0
        if kind == 1:
            g = w.bytes_of(dict(t="ch", pub="c"))
            m = mutate(g)
            if m is None or m == g:
                return None
            n0 = len(w.w.sent_to[CA])
            w.w.inject(m, CA, kind="model")
            w.w.tick()
            w.w.tick()
            hello = [d for d in w.w.sent_to[CA][n0:] if len(d) > 12 and d[12] == 2]
            if hello:
                w.w.clients[1]["sock"].inbox.append(hello[0])
                w.w.tick()
                crs = [d for d in w.w.seen_from[CA] if len(d) > 12 and d[12] == 3]
                if crs:
                    w.w.inject(crs[0], CA, kind="model")
                    w.w.tick()
                    w.w.tick()
        elif kind == 4:
            # the right key, a token that equals the issued one only in its low bits: "carries the token it issued" means that number, not a relative of it
            w.to_server(dict(t="ch", pub="c"), "ca")
            w.to_client(sh)
            conn = w.w.ctxt.temp_connections.get(CA)
            key = w.cl.conn.session_key_bytes if w.cl.conn is not None else None
            if conn is None or not key:
                return None
            C = w.C
            msg = C.HandshakeClientChallengeResponseMessage()
            msg.token = [conn.token + 2 ** 31, conn.token - 2 ** 31, conn.token + 2 ** 32, conn.token | 2 ** 40, conn.token ^ 1, -conn.token][mut[1]]
            try:
                hdr = C.PacketHeader.create(False, int(w.w.vt.time()), C.PacketType.CHALLENGE_RESP, C.SeqNum(w.nextseq()), C.SeqNum(1), 0)
                raw = C.Packet.create(hdr, [C.PendingMessage(C.SeqNum(w.nextseq()), C.PacketType.CHALLENGE_RESP, msg.dumpb(), None, C.RetryMode.NONE)]).to_bytes(key)
            except Exception:
                return None                      # the value cannot be encoded
            w.w.inject(raw, CA, kind="model")
            w.w.tick()
            w.w.tick()
        else:
            w.to_server(dict(t="ch", pub="c"), "ca")
            w.to_client(sh)
            crs = [d for d in w.w.seen_from[CA] if len(d) > 12 and d[12] == 3]
            if not crs:
                return None
            m = mutate(crs[0]) if kind == 2 else crs[0]
            if m is None or (kind == 2 and m == crs[0]):
                return None
            w.w.inject(m, CA if kind == 2 else XA, kind="model")
            w.w.tick()
            w.w.tick()
        ev = [e["a"] for e in w.w.ev[w.ev0:] if e["ev"] == "h" and e["what"] == "connect"]
        srv = int(w.w.aid(CA) in ev)
        other = int(any(a != w.w.aid(CA) for a in ev))
        conn = w.w.ctxt.connections.get(CA)
        cli = w.cl.conn
        cconn = int(w.cl.connected())
        samekey = int(bool(conn) and bool(cli) and bool(conn.session_key_bytes) and conn.session_key_bytes == cli.session_key_bytes)
        sametok = int(bool(conn) and bool(cli) and conn.token == cli.token)
        return [kind, srv, cconn, samekey, sametok, other]
    finally:
        w.close()


def sweep_server(ctx):
    """Byte-level mutations of the two client-to-server handshake datagrams (the third datagram, the server hello, is `sweep`)."""
    from concurrent.futures import ProcessPoolExecutor
    q = ctx.quick
    jobs = []
    hello_len, cr_len = 1440, 80
    for bit in range(0, hello_len * 8, 61 if q else 5):
        jobs.append((ctx.seed, 1, ("flip", bit, 0)))
    for pos in range(0, hello_len, 3 if q else 1):
        jobs.append((ctx.seed, 1, ("flipcrc", pos, 0)))
    for cut in range(0, hello_len, 97 if q else 13):
        jobs.append((ctx.seed, 1, ("cut", cut, 0)))
    for n in (1, 4, 60):
        jobs.append((ctx.seed, 1, ("extend", n, 0)))
    for bit in range(0, cr_len * 8, 3 if q else 1):
        jobs.append((ctx.seed, 2, ("flip", bit, 0)))
    for cut in range(0, cr_len, 4 if q else 1):
        jobs.append((ctx.seed, 2, ("cut", cut, 0)))
    # a genuine challenge response with bytes appended is a byte-level mutation like any other (nothing may follow the tag; see DESIGN 7.3, D23)
    for n in (1, 4, 60):
        jobs.append((ctx.seed, 2, ("extend", n, 0)))
    jobs.append((ctx.seed, 3, ("same", 0, 0)))
    for k in range(6):
        jobs.append((ctx.seed, 4, ("token-variant", k, 0)))
    with ProcessPoolExecutor(16) as ex:
        res = list(ex.map(_server_row, jobs, chunksize=8))
    rows = [r for r in res if r is not None]
    meta = [j for j, r in zip(jobs, res) if r is not None]
    if not any(r[0] == 1 and r[1] == 1 for r in rows) or not any(r[0] == 2 for r in rows):
        raise Machinery("vacuity: no benign client-hello mutation completed the handshake, or no challenge-response mutation was produced")
    wd = T.workdir("c02s")
    try:
        path = os.path.join(wd, "rows.json")
        open(path, "w").write(json.dumps(rows))
        r = ctx.mc("Obs_Handshake", "INIT Init\nNEXT Next\nINVARIANT AllOK2\nALIAS Where2\nCHECK_DEADLOCK FALSE\n", env=dict(OBS_FILE=path), coverage=False,
                   label="Obs_Handshake (%d client-to-server mutations)" % len(rows), cont=True, workers=4)
        ctx.extra["client_to_server_mutations"] = dict(rows=len(rows), client_hello=sum(1 for x in rows if x[0] == 1), challenge_response=sum(1 for x in rows if x[0] == 2),
                                                       hello_mutations_still_connecting=sum(1 for x in rows if x[0] == 1 and x[1] == 1))
        ctx.distinct_n += len(rows)
        ctx.evaluations += len(rows)
        if not r.ok:
            if r.violation["kind"] != "invariant":
                raise Machinery("Obs_Handshake judge failed: %s" % r.violation["text"][:1500])
            for tr in r.traces:
                for k, row in to_json(T.materialise(tr[-1]).get("bad", []))[:4]:
                    ctx.fail("%s mutation %s: [kind, server reported connect, client connected, same key, same token, connect for another address] = %s"
                             % ({1: "client hello", 2: "challenge response", 3: "challenge response replayed from another address", 4: "challenge response with a relative of the issued token"}[row[0]], list(meta[k - 1][2]), row), dict(mutation=list(meta[k - 1][2]), kind=row[0], row=row))
    finally:
        shutil.rmtree(wd, ignore_errors=True)


def refused_hello_histories(ctx):
    """Handshake.tla's NoKeyOnReject / ClientAuth are invariants: they hold in every LATER state too.  A client that refused a foreign / re-signed / garbled hello is
    left to itself for longer than every client-side clock (connect time-out, the 5 s silence limit), is polled all the while, and is then shown further copies with
    fresh datagram numbers: at no moment does it report connected, hold a key, or put application data on the wire."""
    gaps = (30, 400) if ctx.quick else (1, 30, 130, 320, 400, 700)
    sigs = [dict(by="A", over=["a", "na", "ta"]), dict(by="garbled", over=["a", "na", "ta"])]
    for gap in gaps:
        for sig in sigs:
            w = HsWorld(ctx.seed + gap)
            try:
                m = dict(t="sh", spub="a", salt="na", token="ta", sig=sig)
                seen0 = len(w.w.seen_from[CA])
                bad = []

                def look(where):
                    cl = w.cl
                    conn = cl.conn
                    key = getattr(conn, "session_key_bytes", None) if conn is not None else None
                    if cl.connected() or key:
                        bad.append("%s: connected()=%s, status %s, key %s" % (where, cl.connected(), cl.status(), "set" if key else None))
                first_raw = None
                for rnd_ in range(3):
                    try:
                        if rnd_ == 0 or rnd_ == 2:
                            first_raw = first_raw or w.bytes_of(m)
                            raw = first_raw if rnd_ == 0 else w.bytes_of(m)
                        else:
                            # the same datagram again under a fresh DATAGRAM number (bytes 8..9, CRC repaired): its message number is the old one
                            ln = struct.unpack(">H", first_raw[13:15])[0]
                            body = bytearray(first_raw[:20 + ln])
                            body[8:10] = struct.pack(">H", (struct.unpack(">H", first_raw[8:10])[0] + 7) % 65535 + 1)
                            raw = bytes(body) + struct.pack(">L", w.crypto.crc32(bytes(body)))
                        w.w.clients[1]["sock"].inbox.append(raw)
                        w.w.tick()
                    except Exception:
                        pass
                    look("after forged hello %d" % (rnd_ + 1))
                    for t in range(gap):
                        w.w.tick()
                        if t % 7 == 0:
                            look("%d ticks after forged hello %d" % (t, rnd_ + 1))
                    try:
                        w.cl.send(b"application data that must not leave in clear")
                    except Exception:
                        pass
                    w.w.tick()
                leaked = [d for d in w.w.seen_from[CA][seen0:] if len(d) > 12 and d[12] != 1]
                ctx.case(("refused-hello-history", gap, sig["by"]))
                if bad or leaked:
                    ctx.fail("client that refused a %s server hello, polled for %d ticks between further copies: %s%s"
                             % ("foreign-signed" if sig["by"] == "A" else "garbled-signature", gap, "; ".join(bad[:3]),
                                ("; %d datagram(s) other than the hello left the client" % len(leaked)) if leaked else ""), dict(gap=gap, sig=sig["by"], observations=bad[:6], leaked=len(leaked)))
            finally:
                w.close()


def run(ctx):
    ctx.level = "model_checking"
    ctx.rule = ("one replayed model transition per (specification state, datagram) pair, executed on a fresh real client + server loop along the shortest path to that state; plus one row per byte-level "
                "mutation of the genuine server hello; non-trivial = attacker transitions and mutations")
    ctx.assumptions += ["ECDSA signatures are unforgeable and the ECDH/HKDF key is secret to parties without a private half (symbolic Dolev-Yao abstraction)",
                        "fresh random key pairs in every run: 'for all key pairs' is sampled", "client configured with the server's public key (the statement's premise)"]
    r = ctx.mc("Handshake", "SPECIFICATION Spec\nCONSTANT MaxAttacker = %d\nVIEW NoLast\nINVARIANT ClientAuth\nINVARIANT NoKeyOnReject\nINVARIANT KeySecret\nINVARIANT Promotion\nINVARIANT ConnectEvent\n"
               "INVARIANT Agreement\nINVARIANT HonestCompletes\nCHECK_DEADLOCK FALSE\n" % (3 if ctx.quick else 4), label="Handshake MaxAttacker=%d" % (3 if ctx.quick else 4), coverage=False, timeout=2400)
    if not r.ok:
        ctx.fail("Handshake specification: %s violated" % r.violation["name"], dict(trace=to_json([s["state"] for s in r.trace[-6:]])))
        return
    replay_model(ctx, 1, 100000)
    replay_model(ctx, 2, 400 if ctx.quick else 8000)
    sweep(ctx)
    sweep_server(ctx)
    refused_hello_histories(ctx)

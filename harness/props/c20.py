"""C20 - dispatcher routes by message class; register/unregister are inverses.

TLC explores every operation sequence up to MaxOps over three resources (two pairs share a class, some
annotations are postponed strings); every transition of that state graph is replayed into the real
ServerMessageDispatcher and ClientMessageDispatcher and the projected table, the outcome and the handler
actually invoked are compared with the specification state.
"""
import impl, tlc as T
from graphreplay import replay_graph
from core import Machinery


def build_fixtures(D, S):
    class A(S.Serializable):
        v: int = 0

    class B(S.Serializable):
        v: int = 0

    class C(S.Serializable):
        v: int = 0

    class Dd(S.Serializable):
        v: int = 0
    Dd.__name__ = "D"

    class Z(S.Serializable):
        v: int = 0
    cls = dict(A=A, B=B, C=C, D=Dd, Z=Z)
    log = []

    def server_resources():
        class R1:
            @D.server_event
            def on_a(self, client, seqnum, msg: A):
                log.append(("r1", "A", client, seqnum, msg))

            @D.server_event
            def on_b(self, client, seqnum, msg: "B"):
                log.append(("r1", "B", client, seqnum, msg))

        class R2:
            @D.server_event
            def alpha(self, client, seqnum, msg: C):
                log.append(("r2", "C", client, seqnum, msg))

            @D.server_event
            def beta(self, client, seqnum, msg: B):
                log.append(("r2", "B", client, seqnum, msg))

        class R3:
            @D.server_event
            def on_c(self, client, seqnum, msg: "C"):
                log.append(("r3", "C", client, seqnum, msg))

            @D.server_event
            def on_d(self, client, seqnum, msg: Dd):
                log.append(("r3", "D", client, seqnum, msg))
        return dict(r1=R1(), r1b=R1(), r2=R2(), r3=R3())

    def client_resources():
        class R1:
            @D.client_event
            def on_a(self, seqnum, msg: A):
                log.append(("r1", "A", None, seqnum, msg))

            @D.client_event
            def on_b(self, seqnum, msg: "B"):
                log.append(("r1", "B", None, seqnum, msg))

        class R2:
            @D.client_event
            def alpha(self, seqnum, msg: C):
                log.append(("r2", "C", None, seqnum, msg))

            @D.client_event
            def beta(self, seqnum, msg: B):
                log.append(("r2", "B", None, seqnum, msg))

        class R3:
            @D.client_event
            def on_c(self, seqnum, msg: "C"):
                log.append(("r3", "C", None, seqnum, msg))

            @D.client_event
            def on_d(self, seqnum, msg: Dd):
                log.append(("r3", "D", None, seqnum, msg))
        return dict(r1=R1(), r1b=R1(), r2=R2(), r3=R3())
    return cls, log, server_resources, client_resources


def run(ctx):
    D = impl.mod("dispatch")
    S = impl.mod("serializable")
    ctx.level = "model_checking"
    ctx.rule = ("every transition (reachable table state x operation) of the Dispatch state graph, replayed on a fresh dispatcher of each kind; "
                "distinct = (dispatcher kind, state, operation); non-trivial = the table is non-empty before the operation")
    ctx.assumptions += ["what a refused register() leaves registered for the resource's other classes is unspecified (any subset accepted)",
                        "whether unregister() of a resource that owns nothing raises is unspecified; the table must stay unchanged"]
    maxops = 5 if ctx.quick else 7
    cfg = open(T.SPECS + "/MC_Dispatch.cfg").read().replace("MaxOps = 6", "MaxOps = %d" % maxops)
    r = ctx.mc("MC_Dispatch", cfg, need=["RegisterOk", "RegisterRefused", "Unregister", "Dispatch"], label="MC_Dispatch MaxOps=%d" % maxops)
    if not r.ok:
        ctx.fail("Dispatch specification: %s violated" % r.violation["name"], dict(trace=r.trace))
        return
    # graph for replay: drop the op counter from the identity of a state
    gcfg = cfg.replace("CHECK_DEADLOCK FALSE", "VIEW GraphView\nCHECK_DEADLOCK FALSE").replace("MaxOps = %d" % maxops, "MaxOps = 1000")
    gcfg = "\n".join(l for l in gcfg.split("\n") if not l.startswith("PROPERTY"))
    states, edges, init, gr = T.dump_graph("MC_Dispatch", gcfg, workers=1)
    if not states:
        raise Machinery("no state graph: %s" % (gr.violation,))
    ctx.states += gr.distinct
    ctx.transitions += gr.generated
    cls, log, mk_server, mk_client = build_fixtures(D, S)
    names = ["A", "B", "C", "D"]

    def op_of(st):
        l = st["last"]
        return (l["op"], l["arg"])

    def canon(st):
        l = st["last"]
        return (tuple(st["reg"][c] for c in names), l["res"] if l["op"] != "unregister" else "any", l["called"])

    for kind, mk_res, mk_disp in (("server", mk_server, D.ServerMessageDispatcher), ("client", mk_client, D.ClientMessageDispatcher)):
        other_mk_res, other_mk_disp = (mk_client, D.ClientMessageDispatcher) if kind == "server" else (mk_server, D.ServerMessageDispatcher)

        def make():
            d = mk_disp()
            # bystanders: other dispatchers alive in the same process.  A dispatcher's answers depend on ITS table only - two fully registered ones (same kind and
            # the other kind) are asked the same question just before, an empty one just after, and none of them may leak into or out of the one under test
            full, ofull, empty = mk_disp(), other_mk_disp(), mk_disp()
            for disp, mk in ((full, mk_res), (ofull, other_mk_res)):
                for robj in mk().values():
                    try:
                        disp.register(robj)
                    except Exception:
                        pass
            return dict(d=d, res=mk_res(), full=full, ofull=ofull, empty=empty)

        def project(o):
            out = []
            for c in names:
                fn = o["d"].registered_events.get(c)
                owner = "none"
                if fn is not None:
                    for rn, robj in o["res"].items():
                        if getattr(fn, "__self__", None) is robj:
                            owner = rn
                out.append(owner)
            extra = set(o["d"].registered_events) - set(names)
            if extra:
                out.append("EXTRA:%s" % sorted(extra))
            return tuple(out)

        def apply_op(o, op):
            kindop, arg = op
            del log[:]
            res, called = "ok", "none"
            if kindop == "register":
                try:
                    o["d"].register(o["res"][arg])
                except Exception:
                    res = "refused"
            elif kindop == "unregister":
                try:
                    o["d"].unregister(o["res"][arg])
                except Exception:
                    pass
                res = "any"
            elif kindop == "dispatch":
                msg = cls[arg](v=7)
                token = object()
                for disp, srv in ((o["full"], kind == "server"), (o["ofull"], kind != "server")):
                    try:
                        disp.dispatch(token, 42, msg) if srv else disp.dispatch(42, msg)
                    except Exception:
                        pass
                del log[:]
                try:
                    if kind == "server":
                        o["d"].dispatch(token, 42, msg)
                    else:
                        o["d"].dispatch(42, msg)
                except D.DispatchError:
                    res = "DispatchError"
                except Exception as e:
                    res = "exception:%s" % type(e).__name__
                if len(log) == 1:
                    rn, cn, cl, sq, m = log[0]
                    # the fixtures log their class; the instance that was actually invoked is the owner of the registered bound method
                    fn = o["d"].registered_events.get(arg)
                    for nm_, robj in o["res"].items():
                        if getattr(fn, "__self__", None) is robj:
                            rn = nm_
                    passed = (m is msg and sq == 42 and (cl is token if kind == "server" else True) and cn == arg)
                    called = rn if passed else "WRONG-ARGS"
                elif len(log) > 1:
                    called = "MANY:%d" % len(log)
                n_before = len(log)
                try:
                    o["empty"].dispatch(token, 42, msg) if kind == "server" else o["empty"].dispatch(42, msg)
                    bres = "no error"
                except D.DispatchError:
                    bres = "DispatchError"
                except Exception as e:
                    bres = type(e).__name__
                if bres != "DispatchError" or len(log) != n_before:
                    called = "EMPTY-BYSTANDER-DISPATCHER:%s,%d-handlers-called" % (bres, len(log) - n_before)
            return (project(o), res, called)

        def on_case(s, op):
            ctx.case((kind, s, op), nontrivial=any(v != "none" for v in states[s]["reg"].values()))

        n, mism = replay_graph(states, edges, init, make, apply_op, op_of, canon, on_case=on_case)
        ctx.traces += n
        ctx.extra["transitions_replayed_%s" % kind] = n
        for m in mism[:10]:
            ctx.fail("%s dispatcher leaves the specification: after %s, %s gives (table A..D, result, called) = %s; specification allows %s"
                     % (kind, m["path"], m["op"], m["observed"], m["allowed"]), dict(kind=kind, **m))
        if mism:
            ctx.extra["mismatching_transitions_%s" % kind] = len(mism)
    ctx.exhaustive = True
    ctx.sample(dict(kind="transition", example_state=states[next(iter(init))], operations=sorted({str(op_of(states[d])) for _, _, d in edges})[:12]))


def replay(ctx, doc):
    print(doc["clause"])
    run(ctx)

"""C17 - path_join_safe never returns a path outside the root.

TLC enumerates the adversarial name space (PathJoin!Names); the harness calls the real function for every
(root, name), plus names captured by the real router's :name* from hostile URLs and random unicode strings;
TLC judges every outcome with PathJoin!Safe (raised ValueError, or contained in the root).
"""
import json, os, shutil, random
import impl, tlc as T
from tlaval import to_json
from core import Machinery

ROOTS = ["/srv/www", "/srv/www/", "static", "/", "/srv/www/../www2", "rel/./dir"]


def concretise(n):
    segs = n["segs"]
    if n["sep"] == "mix":
        out = ""
        for k, s in enumerate(segs):
            if k:
                out += "/" if k % 2 else "\\"
            out += s
    else:
        out = n["sep"].join(segs)
    return n["pre"] + out


def substitute(name, root):
    """placeholders of the segment alphabet: %P = the root's parent path, %L = its last component, %S = a sibling that extends that name"""
    ab = os.path.abspath(root)
    parent, last = os.path.dirname(ab).strip("/"), os.path.basename(ab)
    # %C = the root's own absolute path in the other letter case (another directory on a case-sensitive file system)
    return name.replace("%C", ab.strip("/").swapcase() or "SRV").replace("%P", parent or "srv").replace("%S", (last or "www") + "-private").replace("%L", last or "www")


def comps_of(path):
    return [c for c in path.split(os.sep) if c != ""]


def outcome(H, root, name):
    try:
        res = H.path_join_safe(root, name)
    except ValueError:
        return 0, []
    except Exception as e:
        return -1, [type(e).__name__]
    if not isinstance(res, str):
        return -1, [repr(type(res))]
    return 1, comps_of(res)


def run(ctx):
    H = impl.mod("http_server")
    ctx.level = "exploration"
    ctx.exhaustive = True
    ctx.rule = ("every (root, name) with name from PathJoin!Names (segment alphabet x separators x absolute prefixes) enumerated by TLC, plus router "
                "captures and random unicode; distinct = (root, name) pairs; non-trivial = the name has an absolute-looking prefix, a '..' segment or a leading empty segment")
    ctx.assumptions += ["the root is trusted and normalised with os.path.abspath by the harness; containment is judged on path components", "POSIX os.path semantics (this platform)"]
    if ctx.quick:
        consts = dict(SegAlpha='{"..", ".", "", "a", "b c", "...", "..a", "C:", "~", "%P", "%L", "%S", "%C"}', MaxSegs=3, Seps="<-SepsDef",
                      AbsPrefixes="<-PrefQuick", LongAlpha='{"..", "", "a"}', LongMax=5)
    else:
        consts = dict(SegAlpha='{"..", ".", "", "a", "b c", "..a", "C:", "%P", "%L", "%S", "%C"}', MaxSegs=4, Seps="<-SepsDef",
                      AbsPrefixes="<-PrefThorough", LongAlpha='{"..", "", "a", "."}', LongMax=6)
    base = "NEXT Next\nCONSTANTS\n" + "".join((" %s <- %s\n" % (k, v[2:]) if str(v).startswith("<-") else " %s = %s\n" % (k, v)) for k, v in consts.items())
    wd = T.workdir("c17")
    try:
        inp = os.path.join(wd, "names.json")
        r = ctx.mc("Obs_PathJoin", "INIT GenInit\n" + base + "CHECK_DEADLOCK FALSE\n", env=dict(OUT_FILE=inp, OBS_FILE=inp), coverage=False, workers=1, count=False,
                   label="Obs_PathJoin generate", heap="8g")
        if not r.ok or not os.path.exists(inp):
            raise Machinery("name generation failed: %s" % (r.violation,))
        names = json.load(open(inp))["names"]
        roots = ROOTS[:4] if ctx.quick else ROOTS
        out, comps, rootc = [], [], []
        risky = 0
        for root in roots:
            rootc.append(comps_of(os.path.abspath(root)))
            o_r, c_r = [], []
            for n in names:
                s = substitute(concretise(n), root)
                o, c = outcome(H, root, s)
                o_r.append(o)
                c_r.append(c)
                if n["pre"] or ".." in n["segs"] or (n["segs"] and n["segs"][0] == ""):
                    risky += 1
            out.append(o_r)
            comps.append(c_r)
        # raw-string names: what the real router captures with :name* for hostile URLs, and random unicode
        extra = []
        router = H.Router()
        router.registerRoutes([H.Route("s", "GET", "/static/:path*", None), H.Route("t", "GET", "/:path*", None)])
        urls = []
        alpha = ["..", ".", "", "a", "%2e%2e", "..%2f", "\\..", "etc", "passwd", "~", "C:"]
        rnd = random.Random(ctx.seed)
        for _ in range(400 if ctx.quick else 4000):
            k = rnd.randint(1, 6)
            urls.append(rnd.choice(["/static", "", "/static/", "//"]) + "".join("/" + rnd.choice(alpha) for _ in range(k)) + rnd.choice(["", "/"]))
        from urllib.parse import unquote
        for u in urls:
            res = router.getRoute("GET", u)
            if res and res[1].get("path") is not None:
                for nm in {res[1]["path"], unquote(res[1]["path"])}:
                    for root in roots[:3]:
                        o, c = outcome(H, root, nm)
                        extra.append(dict(root=comps_of(os.path.abspath(root)), name=nm, out=o, comps=c))
        for _ in range(300 if ctx.quick else 5000):
            nm = "".join(rnd.choice(["/", "\\", ".", "..", "\u2215", "\uff0e", "\u2025", "a", "\x00", " ", "\u202e", "%", "é", "\ud7ff"]) for _ in range(rnd.randint(0, 9)))
            for root in roots[:2]:
                try:
                    o, c = outcome(H, root, nm)
                except Exception as e:      # e.g. embedded NUL rejected by os.path on some platforms
                    o, c = -1, [type(e).__name__]
                extra.append(dict(root=comps_of(os.path.abspath(root)), name=nm.encode("unicode_escape").decode(), out=o, comps=c))
        # call histories: the same relative root used again after the working directory changed (a daemon's chdir, a second site served
        # from another tree) - "the root" is what the root argument denotes when the call is made
        here = os.getcwd()
        try:
            sites = [os.path.join(wd, "site_a"), os.path.join(wd, "site_b"), os.path.join(wd, "site_a", "static")]
            for d in sites:
                os.makedirs(os.path.join(d, "static"), exist_ok=True)
            sample = [substitute(concretise(n), "static") for n in names[:: max(1, len(names) // (40 if ctx.quick else 400))]] + ["index.html", "a/b", ""]
            for cwd in sites + sites[:1]:
                os.chdir(cwd)
                for root in ("static", "./static", "static/../static", "."):
                    for nm in sample:
                        o, c = outcome(H, root, nm)
                        extra.append(dict(root=comps_of(os.path.abspath(root)), name="cwd=%s root=%s name=%s" % (os.path.relpath(cwd, wd), root, nm), out=o, comps=c))
        finally:
            os.chdir(here)
        obs = os.path.join(wd, "obs.json")
        json.dump(dict(roots=rootc, out=out, comps=comps, extra=extra), open(obs, "w"))
        r = ctx.mc("Obs_PathJoin", "INIT ObsInit\n" + base + "INVARIANT RowOK\nINVARIANT Complete\nALIAS Where\nCHECK_DEADLOCK FALSE\n",
                   env=dict(OUT_FILE=inp, OBS_FILE=obs), coverage=False, label="Obs_PathJoin judge", heap="10g", cont=True, workers=3, timeout=2400)
        ctx.evaluations = len(names) * len(roots) + len(extra)
        ctx.distinct_n = risky + len(extra)
        ctx.extra.update(names=len(names), roots=len(roots), raw_string_names=len(extra), refused=sum(o.count(0) for o in out), accepted=sum(o.count(1) for o in out))
        k = len(names) // 2
        ctx.sample(dict(root=roots[0], name=concretise(names[k]), outcome=out[0][k], components=comps[0][k]))
        if extra:
            ctx.sample(extra[0])
        if not r.ok:
            if r.violation["kind"] != "invariant":
                raise Machinery("judge failed: %s" % r.violation["text"][:1500])
            n = 0
            for tr in r.traces:
                bad = to_json(tr[-1]["state"].get("bad", []))
                for b in bad[:3]:
                    n += 1
                    rootname = roots[b["root"] - 1] if b["root"] else "(raw-name row)"
                    nm = substitute(concretise(b["name"]), rootname) if isinstance(b["name"], dict) else b["name"]
                    if b["out"] == -1:
                        ctx.fail("path_join_safe(%r, %r) raises %s, not ValueError" % (rootname, nm, b["comps"]), dict(root=rootname, name=nm))
                    else:
                        ctx.fail("path_join_safe(%r, %r) returns /%s which is outside the root" % (rootname, nm, "/".join(b["comps"])), dict(root=rootname, name=nm, returned=b["comps"]))
            if n == 0:
                ctx.fail("path_join_safe observation table rejected by TLC (%s)" % r.violation["name"], dict(text=r.violation["text"][:500]))
    finally:
        shutil.rmtree(wd, ignore_errors=True)


def replay(ctx, doc):
    H = impl.mod("http_server")
    c = doc["case"]
    try:
        print(repr(H.path_join_safe(c["root"], c["name"])))
    except Exception as e:
        print("raises", type(e).__name__, e)

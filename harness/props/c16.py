"""C16 - the HTTP router matches paths exactly as the documented pattern grammar says.

Pass 1: TLC enumerates the bounded space (every admissible pattern up to MaxPat segments x every path up to
MaxPath segments; every ordered route table x request) from specs/Obs_Router.tla.  The harness asks the real
Router (getRoute for the matching relation, dispatch with a fake Request for the table machine).
Pass 2: TLC judges every observation with Router!Matches / FirstMatch and checks completeness of the table.
"""
import io, json, os, shutil
import impl, tlc as T
from core import Machinery

SUFFIX = dict(one="", opt="?", plus="+", star="*")


def pat_str(pat):
    if not pat:
        return "/"
    out = ""
    n = 0
    for seg in pat:
        if seg["k"] == "lit":
            out += "/" + seg["v"]
        else:
            n += 1
            out += "/:%s%d%s" % (seg["v"], n, SUFFIX[seg["k"]])
    return out


def url(path):
    # "aNL" stands for the literal a followed by a line feed: an extension of a literal segment that `$` in a regular expression does not see
    return "".join("/" + s.replace("NL", "\n") for s in path)


def norm_binding(v):
    if v is None or v == "":
        return []
    return v.replace("\n", "NL").split("/")       # (the tolerated trailing slash is not a segment: a value that ends in one is not what the specification binds)


def consts(ctx):
    if ctx.quick:
        return dict(Lits='{"a", "a.b"}', Alpha='{"a", "ab", "axb", "", "aNL"}', MaxPat=3, MaxPath=4, MaxRoutes=2)
    return dict(Lits='{"a", "ab", "a.b"}', Alpha='{"a", "ab", "b", "axb", "", "aNL"}', MaxPat=4, MaxPath=5, MaxRoutes=3)


def cfg_for(c, init, invs=()):
    s = "INIT %s\nNEXT Next\nCONSTANTS\n Lits = %s\n Alpha = %s\n MaxPat = %d\n MaxPath = %d\n" % (init, c["Lits"], c["Alpha"], c["MaxPat"], c["MaxPath"])
    s += ' TableMethods = {"GET", "POST"}\n ReqMethods = {"GET", "POST", "DELETE"}\n MaxRoutes = %d\n' % c["MaxRoutes"]
    for i in invs:
        s += "INVARIANT %s\n" % i
    if invs:
        s += "ALIAS Where\n"
    s += "CHECK_DEADLOCK FALSE\n"
    return s


def run(ctx):
    H = impl.mod("http_server")
    ctx.level = "exploration"
    ctx.exhaustive = True
    ctx.rule = ("every (pattern, path) pair and every (route table, request) pair of the bounded grammar enumerated by TLC; distinct = pairs; "
                "non-trivial = the specification's verdict is yes or no (not 'unspecified') and the pattern is not the root pattern")
    ctx.assumptions += ["paths with empty segments inside a multi-segment capture, and a suffix operator followed by more segments, are outside the documented grammar: not judged",
                        "captures are compared modulo the one tolerated trailing slash; an absent optional capture may be None or ''"]
    c = consts(ctx)
    wd = T.workdir("c16")
    try:
        inp = os.path.join(wd, "inputs.json")
        r = ctx.mc("Obs_Router", cfg_for(c, "GenInit"), env=dict(OUT_FILE=inp, OBS_FILE=inp), label="Obs_Router generate", coverage=False, workers=1, count=False)
        if not r.ok or not os.path.exists(inp):
            raise Machinery("input generation failed: %s" % (r.violation,))
        space = json.load(open(inp))
        patterns, paths, tables, requests = space["patterns"], space["paths"], space["tables"], space["requests"]
        match_rows = []
        nreg_refused = 0
        for pat in patterns:
            router = H.Router()
            ps = pat_str(pat)
            route = H.Route("r", "GET", ps, lambda req: H.Response(b"ok"))
            try:
                router.registerRoutes([route])
            except Exception as e:
                ctx.fail("registering the documented pattern %s raises %s" % (ps, type(e).__name__), dict(pattern=ps))
                continue
            hits, bs = [], []
            for path in paths:
                res = router.getRoute("GET", url(path))
                if res is None:
                    hits.append(0)
                    bs.append([])
                else:
                    endpt, matches = res
                    hits.append(1)
                    bs.append([norm_binding(matches[k]) for k in matches])
            match_rows.append(dict(pat=pat, hit=hits, b=bs))
        table_rows = []
        ip = [0]
        for routes in tables:
            router = H.Router()
            objs = []
            for k, rt in enumerate(routes):
                objs.append(H.Route("r%d" % (k + 1), rt["method"], pat_str(rt["pat"]),
                                    (lambda kk: (lambda req: H.Response(b"route %d" % kk)))(k + 1)))
            if len(table_rows) % 2:
                # every second table is built the hard way: the requests are answered once on the still empty router (all 404), then the routes arrive in a batch whose
                # last entry is refused (unsupported method) - the earlier routes of such a batch are live - and only then the answers that count are taken:
                # they are a function of the table, not of what was asked before or of how registration ended
                for req in requests:
                    ip[0] += 1
                    router.dispatch(H.Request(("10.%d.%d.%d" % (ip[0] >> 16 & 255, ip[0] >> 8 & 255, ip[0] & 255), 4000), req["method"], url(req["path"]), {}, "", {}, io.BytesIO(b"")))
                try:
                    router.registerRoutes(objs + [H.Route("bad", "PATCH", "/never", lambda req: H.Response(b"never"))])
                except ValueError:
                    pass
            else:
                router.registerRoutes(objs)
            rows = []
            for req in requests:
                ip[0] += 1
                request = H.Request(("10.%d.%d.%d" % (ip[0] >> 16 & 255, ip[0] >> 8 & 255, ip[0] & 255), 4000), req["method"], url(req["path"]), {}, "", {}, io.BytesIO(b""))
                resp = router.dispatch(request)
                if resp.status_code == 404:
                    got = 0
                elif resp.status_code == 200 and resp.payload.startswith(b"route "):
                    got = int(resp.payload.split()[1])
                else:
                    got = -2 - resp.status_code
                rows.append(got)
            table_rows.append(dict(routes=routes, got=rows))
        obs = os.path.join(wd, "obs.json")
        if len(match_rows) != len(patterns):
            return
        json.dump(dict(hit=[m["hit"] for m in match_rows], b=[m["b"] for m in match_rows], got=[t["got"] for t in table_rows]), open(obs, "w"))
        r = ctx.mc("Obs_Router", cfg_for(c, "ObsInit", ["RowOK", "CompleteOnce"]), env=dict(OUT_FILE=inp, OBS_FILE=obs), label="Obs_Router judge",
                   coverage=False, heap="8g", cont=True)
        ctx.evaluations = len(patterns) * len(paths) + len(tables) * len(requests)
        ctx.distinct_n = ctx.evaluations
        ctx.extra.update(patterns=len(patterns), paths=len(paths), tables=len(tables), requests=len(requests))
        ctx.sample(dict(pattern=pat_str(patterns[len(patterns) // 2]), url=url(paths[len(paths) // 3]), matched=bool(match_rows[len(patterns) // 2]["hit"][len(paths) // 3]), bindings=match_rows[len(patterns) // 2]["b"][len(paths) // 3]))
        ctx.sample(dict(table=[(rt["method"], pat_str(rt["pat"])) for rt in tables[-1]], request=(requests[0]["method"], url(requests[0]["path"])), got=table_rows[-1]["got"][0]))
        if not r.ok:
            if r.violation["kind"] != "invariant":
                raise Machinery("judge failed: %s" % r.violation["text"][:1500])
            seen = set()
            for tr in r.traces:
                i = tr[-1]["state"].get("i")
                if i in seen or i is None:
                    continue
                seen.add(i)
                explain(ctx, i, match_rows, table_rows, r.violation["name"], tr[-1]["state"].get("bad"))
            if not seen:
                ctx.fail("router observation table rejected by TLC (%s)" % r.violation["name"], dict(text=r.violation["text"][:500]))
    finally:
        shutil.rmtree(wd, ignore_errors=True)


def explain(ctx, i, match_rows, table_rows, inv, bad):
    """Name the disagreeing rows of observation i, as computed by TLC (ALIAS Where)."""
    from tlaval import to_json
    bad = to_json(bad) if bad is not None else []
    if i <= len(match_rows):
        row = match_rows[i - 1]
        ps = pat_str(row["pat"])
        rows = [dict(url=url(x["path"]), rule_says=x["expected"]["ok"], expected_bindings=x["expected"]["b"], router_matched=bool(x["hit"]), router_bindings=x["b"]) for x in bad]
        ctx.fail("pattern %s: %d path(s) where the router disagrees with the documented rule, e.g. %s"
                 % (ps, len(rows), [(x["url"], "rule:" + x["rule_says"], "router:" + ("match" if x["router_matched"] else "no match")) for x in rows[:6]]),
                 dict(pattern=ps, disagreements=rows[:100]))
    else:
        row = table_rows[i - 1 - len(match_rows)]
        tb = [(rt["method"], pat_str(rt["pat"])) for rt in row["routes"]]
        ctx.fail("route table %s: routing differs from first-registered-match: %s" % (tb, [(x["req"]["method"], url(x["req"]["path"]), "expected", x["expected"], "got", x["got"]) for x in bad][:8]),
                 dict(table=tb, disagreements=bad))


def replay(ctx, doc):
    H = impl.mod("http_server")
    case = doc["case"]
    if "pattern" in case:
        router = H.Router()
        router.registerRoutes([H.Route("r", "GET", case["pattern"], None)])
        for d in case.get("disagreements", [])[:20]:
            print(case["pattern"], d["url"], "rule says", d["rule_says"], "router:", router.getRoute("GET", d["url"]))

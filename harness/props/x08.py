"""X08 (extension, beyond the listed properties) - AnimationComponent of the pygame engine.

specs/Animation.tla: a registry of four animations (looping, non-looping, non-looping and not interruptible, single image), the calls
setAnimationById / update, the callbacks onframe / onend and the predicate `finished`, over integer time (1/64 s, fps 4: floats exact).
TLC checks IndexInRange / FramesAscend / NoRestartWithoutLoop; every transition of the state graph is taken on the real class and the
observable state compared.  Three expected statements (EndOnce, FinishedWhenEnded, FramesInOrder) are violated in the specification the real class was
found to follow: they are reported as findings.
"""
import json
import impl, tlc as T
from tlaval import to_json
from core import Machinery
from graphreplay import replay_graph
from props.x04 import engine

REG = [(3, True, True), (2, False, True), (2, False, False), (1, True, True)]


def run(ctx):
    E = engine()
    ctx.level = "model_checking"
    ctx.exhaustive = True
    ctx.rule = "every transition of the state graph of Animation.tla taken on the real AnimationComponent; distinct = transitions; non-trivial = all"
    ctx.assumptions += ["extension check: not one of the listed properties", "pygame is replaced by an inert stand-in module (paint is not exercised)",
                        "time values are multiples of 1/64 s and fps = 4, so the floating-point arithmetic of the code is exact"]
    n = 6 if ctx.quick else 10
    c = "CONSTANTS\n MaxOps = %d\n Dts = {8, 16, 24}\n" % n
    r = ctx.mc("Animation", "SPECIFICATION Spec\n" + c + "INVARIANT IndexInRange\nINVARIANT FramesAscend\nINVARIANT NoRestartWithoutLoop\nINVARIANT TimerBounded\nCHECK_DEADLOCK FALSE\n",
               label="Animation MaxOps=%d" % n, coverage=False)
    if not r.ok:
        ctx.fail("Animation.tla: %s violated" % r.violation["name"], dict(trace=to_json([s["state"] for s in r.trace[-8:]])))
        return
    expected = {}
    for inv in ("EndOnce", "FinishedWhenEnded", "FramesInOrder"):
        b = ctx.mc("Animation", "SPECIFICATION Spec\n" + c + "INVARIANT %s\nCHECK_DEADLOCK FALSE\n" % inv, label="Animation (expected statement %s)" % inv, count=False, coverage=False)
        expected[inv] = b
    states, edges, init, g = T.dump_graph("Animation", "SPECIFICATION Spec\n" + c + "CHECK_DEADLOCK FALSE\n", workers=1)
    if not states:
        raise Machinery("graph dump failed: %s" % (g.violation,))

    class Ent:
        visible = True

    def make():
        w = dict(frames=[], ends=0)
        a = E.AnimationComponent(Ent())
        for k, (nimg, loop, intr) in enumerate(REG):
            aid = a.register(images=["img%d" % i for i in range(nimg)], fps=4, loop=loop, interuptable=intr,
                             onframe=lambda i: w["frames"].append(i), onend=lambda: w.__setitem__("ends", w["ends"] + 1))
            assert aid == k + 1
        w["a"] = a
        return w

    def apply(w, op):
        a = w["a"]
        res, err = None, ""
        try:
            if op[0] == "set":
                saved = (w["frames"], w["ends"])
                w["frames"], w["ends"] = [], 0
                res = a.setAnimationById(op[1])
                if not res:
                    w["frames"], w["ends"] = saved
            else:
                a.update(op[1] / 64.0)
        except Exception as e:
            err = "%s: %s" % (type(e).__name__, e)
        t = a.timer * 64
        st = a.getState()
        return (max(a._current_aid, 0), a.index, int(t) if t == int(t) else repr(a.timer), tuple(w["frames"]), w["ends"], bool(a.finished), res,
                (st.aid, st.index) == (a._current_aid, a.index), err)

    def canon(st):
        st = to_json(st)
        nimg, loop, _ = REG[st["cur"] - 1] if st["cur"] else (0, True, True)
        return (st["cur"], st["index"], st["timer"], tuple(st["frames"]), st["ends"], (not loop) and st["index"] == nimg,
                bool(st["last"]["res"]) if st["last"]["op"] == "set" else None, True, "")
    n_tr, mm = replay_graph(states, edges, init, make, apply, lambda st: (st["last"]["op"], st["last"]["a"]), canon, on_case=lambda s, op: ctx.case((s, op)))
    ctx.traces = n_tr
    ctx.extra.update(graph_states=len(states), transitions_taken_on_real_object=n_tr, expected_statements_violated_in_model=[k for k, b in expected.items() if not b.ok])
    for m in mm[:3]:
        ctx.fail("AnimationComponent leaves Animation.tla: after %s, %s gives [aid, index, timer, onframe calls, onend calls, finished, result, getState agrees, error] = %s; specification allows %s"
                 % (json.dumps(m["path"][-6:]), m["op"], m["observed"], m["allowed"]), m)
    if mm:
        return
    if not expected["FinishedWhenEnded"].ok:
        tr = [to_json(s["state"]["last"]) for s in expected["FinishedWhenEnded"].trace[1:]]
        ctx.fail("AnimationComponent.finished is never true for an animation that has played: update() steps a non-looping animation from its last frame to N and straight back to N - 1, and "
                 "`finished` tests index == N; an animation registered with interuptable=False is therefore never released (setAnimationById keeps returning False). "
                 "FinishedWhenEnded is violated in the specification the real class was found to follow, e.g. %s" % json.dumps(tr), dict(trace=tr), sig="animation-finished-never-true")
    if not expected["EndOnce"].ok:
        tr = [to_json(s["state"]["last"]) for s in expected["EndOnce"].trace[1:]]
        ctx.fail("AnimationComponent calls onend() of a non-looping animation again after every further frame time (the step from the last frame to N is repeated for ever). "
                 "EndOnce is violated in the specification the real class was found to follow, e.g. %s" % json.dumps(tr), dict(trace=tr), sig="animation-onend-repeats")
    if not expected["FramesInOrder"].ok:
        tr = [to_json(s["state"]["last"]) for s in expected["FramesInOrder"].trace[1:]]
        ctx.fail("AnimationComponent does not call onframe(0) when a looping animation starts over (the call is tested before the index wraps): the documented 'callback for the start of each frame' "
                 "sees 0 1 2 1 2 1 2 ... FramesInOrder is violated in the specification the real class was found to follow, e.g. %s" % json.dumps(tr), dict(trace=tr), sig="animation-onframe-skips-restart")


def replay(ctx, doc):
    print(json.dumps(doc["case"], indent=1)[:3000])

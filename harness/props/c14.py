"""C14 - deserializing hostile bytes is safe and bounded.

specs/Decoder.tla: a token grammar of adversarial inputs (also model-checked as a pushdown transcription of the decoder: bounded work,
termination).  TLC's token strings are turned into bytes with the constants of the live module; together with every truncation and bit flip
of valid encodings, crafted length fields, deep nesting and random bytes they go to the real Serializable.loadb - and to the handshake
decoders a server runs on unauthenticated input - under instrumentation (invocation count, tracemalloc peak, watchdog); TLC judges each
observation (Obs_Decoder).
"""
import io, json, os, shutil, struct, random, time, tracemalloc, signal
import impl, tlc as T
from tlaval import to_json
from core import Machinery
import codecterms as CT


def int_bytes(B, n):
    if -127 <= n <= 127:
        return struct.pack(">Hb", B.int8_t, n)
    if -32767 <= n <= 32767:
        return struct.pack(">Hh", B.int16_t, n)
    if -2 ** 31 < n < 2 ** 31:
        return struct.pack(">Hl", B.int32_t, n)
    return struct.pack(">Hq", B.int64_t, n)


def concretise(B, toks, rnd):
    out = b""
    for t in toks:
        k, a = t["k"], t["a"]
        if k == "atom":
            tid = {0: B.null_t, 1: rnd.choice([B.bool_t, B.int8_t]), 8: B.int64_t}[a]
            out += struct.pack(">H", tid) + bytes(rnd.getrandbits(8) for _ in range(a))
        elif k == "coll":
            out += struct.pack(">H", rnd.choice([B.seq_t, B.map_t, B.set_t])) + int_bytes(B, a)
        elif k == "blob":
            out += struct.pack(">H", rnd.choice([B.string_t, B.bytes_t])) + int_bytes(B, a) + bytes(0x41 for _ in range(a if 0 < a <= 4096 else 0))
        else:
            out += struct.pack(">H", rnd.choice([0, 19, 99, 127, 60000, 65535]))
    return out


class Watchdog(Exception):
    pass


def observe(S, data, clean_fn, entry=None):
    calls = [0]
    real = S.deserialize_value

    def counting(stream, **kw):
        calls[0] += 1
        return real(stream, **kw)
    S.deserialize_value = counting

    def on_alarm(sig, frm):
        raise Watchdog()
    old = signal.signal(signal.SIGALRM, on_alarm)
    signal.setitimer(signal.ITIMER_REAL, 5.0)
    tracemalloc.start()
    t0 = time.perf_counter()
    outcome, clean = "value", 0
    try:
        v = (entry or S.Serializable.loadb)(data)
        clean = int(clean_fn(v))
    except Watchdog:
        outcome = "timeout"
    except MemoryError:
        outcome = "memoryerror"
    except Exception:
        outcome = "exception"
    except BaseException:
        outcome = "baseexception"
    finally:
        signal.setitimer(signal.ITIMER_REAL, 0)
        signal.signal(signal.SIGALRM, old)
        peak = tracemalloc.get_traced_memory()[1]
        tracemalloc.stop()
        S.deserialize_value = real
    return [len(data), outcome, calls[0], peak // 1024, int((time.perf_counter() - t0) * 1000), clean]


def run(ctx):
    S = impl.mod("serializable")
    C = impl.mod("connection")
    F = CT.fixtures()
    B = S.SerializableBaseTypes
    ctx.level = "exploration"
    ctx.rule = ("hostile inputs: token strings enumerated by TLC (Decoder!Inputs) concretised with the live type ids, every truncation and single-bit flip of valid encodings, crafted length fields, "
                "deep nesting, random bytes, handshake payloads; distinct = distinct byte strings; non-trivial = the input starts with a decodable header")
    ctx.assumptions += ["allocation is measured with tracemalloc (Python-level allocations) and bounded by 64 bytes per input byte + 1 MiB (interpreter frames of a recursion cut off by the recursion limit)", "RecursionError is an ordinary exception (a subclass of Exception)",
                        "Serializable.loadz (gzip, marked private) is out of scope"]
    mt = 3 if ctx.quick else 4
    consts = "CONSTANTS\n MaxTokens = %d\n Counts <- CountsDef\n BlobLens <- BlobLensDef\n MaxArray = 16384\n MaxBlob = 1048576\n" % mt
    r = ctx.mc("Decoder", "SPECIFICATION Spec\n" + consts + "INVARIANT Bounded\nCHECK_DEADLOCK FALSE\n", label="Decoder MaxTokens=%d (bounded work)" % mt, coverage=False)
    if not r.ok:
        ctx.fail("Decoder model: %s violated" % r.violation["name"], dict(trace=to_json([s["state"] for s in r.trace[-5:]])))
    # the token strings themselves: the states of the model carry them
    states, edges, init, gr = T.dump_graph("Decoder", "SPECIFICATION Spec\n" + consts.replace("MaxTokens = %d" % mt, "MaxTokens = %d" % min(mt, 3)) + "CHECK_DEADLOCK FALSE\n", workers=1)
    inputs = [to_json(states[i]["inp"]) for i in init]
    rnd = random.Random(ctx.seed)
    registered = set(S.SerializableType.registry.values())

    def clean(v, depth=0):
        if depth > 200:
            return True
        if v is None or isinstance(v, (bool, int, float, str, bytes)):
            return True
        if isinstance(v, (list, tuple, set, frozenset)):
            return all(clean(x, depth + 1) for x in v)
        if isinstance(v, dict):
            return all(clean(k, depth + 1) and clean(x, depth + 1) for k, x in v.items())
        return type(v) in registered
    corpus = {}
    for toks in inputs:
        corpus[concretise(B, toks, rnd)] = "tokens"
    # valid encodings: truncations and bit flips
    valid = []
    for term in [dict(t="list", v="", e=[dict(t="int", v="128", e=[]), dict(t="str", v="multibyte", e=[])]),
                 dict(t="dict", v="", e=[dict(t="kv", v="", e=[dict(t="str", v="a", e=[]), dict(t="set", v="", e=[dict(t="int", v="1", e=[])])])]),
                 dict(t="obj", v="Point", e=[dict(t="float", v="0.1", e=[]), dict(t="list", v="", e=[dict(t="none", v="", e=[])])]),
                 dict(t="enum", v="Color.RED", e=[]), dict(t="bytes", v="L300", e=[])]:
        st = io.BytesIO()
        S.serialize_value(st, CT.concretise(term))
        valid.append(st.getvalue())
    hello = C.HandshakeClientHelloMessage()
    hello.client_pubkey = impl.mod("crypto").EllipticCurvePrivateKey.new().getPublicKey()
    hello.client_version = 1
    valid.append(hello.dumpb())
    for d in valid:
        for cut in range(len(d) + 1) if len(d) < 400 else list(range(0, 120)) + list(range(len(d) - 40, len(d) + 1)):
            corpus.setdefault(d[:cut], "truncation")
        bits = range(len(d) * 8) if (len(d) < 120 or not ctx.quick) else rnd.sample(range(len(d) * 8), 600)
        for bit in bits:
            t = bytearray(d)
            t[bit // 8] ^= 1 << (bit % 8)
            corpus.setdefault(bytes(t), "bitflip")
    # crafted: maximal / negative lengths with short bodies, wide collections of tiny elements, deep nesting
    for tid in (B.seq_t, B.map_t, B.set_t, B.string_t, B.bytes_t):
        for n in (-1, -2 ** 31, 2 ** 14, 2 ** 14 + 1, 2 ** 20, 2 ** 20 + 1, 2 ** 31 - 1, 2 ** 62):
            corpus.setdefault(struct.pack(">H", tid) + int_bytes(B, n) + b"\x00" * 6, "crafted-length")
        corpus.setdefault(struct.pack(">H", tid) + struct.pack(">Hf", B.float32_t, 3.0), "float-length")
        corpus.setdefault(struct.pack(">H", tid) + struct.pack(">H", B.null_t), "null-length")
    corpus.setdefault(struct.pack(">H", B.seq_t) + int_bytes(B, 2 ** 14) + struct.pack(">H", B.null_t) * (2 ** 14), "wide-nulls")
    for depth in (50, 900, 3000, 20000) if not ctx.quick else (50, 900, 3000):
        corpus.setdefault((struct.pack(">H", B.seq_t) + int_bytes(B, 1)) * depth + struct.pack(">H", B.null_t), "deep-nesting")
    # amplification by nesting: every level announces the maximal element count and holds nothing but the next level
    for tid in (B.seq_t, B.set_t, B.map_t):
        for n in (2 ** 14, 2 ** 14 - 1, 255):
            for depth in (8, 64, 235, 900):
                corpus.setdefault((struct.pack(">H", tid) + int_bytes(B, n)) * depth, "nested-announced-length")
                corpus.setdefault((struct.pack(">H", B.seq_t) + int_bytes(B, 2) + struct.pack(">H", B.null_t) + struct.pack(">H", tid) + int_bytes(B, n)) * depth, "nested-announced-length")
    # the one message a server decodes from unauthenticated peers is a fixed-size record (key, version, padding): chains of client hellos whose "version" is a
    # sequence holding a filler and the next hello, each hello starting a chosen distance after the previous one - record-aligned and misaligned, so that any
    # arithmetic on "what is left of the record" (negative padding, seeks) is exercised with every sign
    try:
        P, PH = C.Packet, C.PacketHeader
        record = 2 + (P.MAX_PAYLOAD_SIZE - 2 - PH.SIZE - 2)
        der = hello.client_pubkey.getBytes()
        hid = struct.pack(">H", C.HandshakeClientHelloMessage.type_id)

        def enc_bytes(b):
            return struct.pack(">H", B.bytes_t) + int_bytes(B, len(b)) + b
        for dist in (record, record - 1, record + 1, record - 6, record // 2, 600):
            for levels in (2, 6, 12, 18):
                nitems = levels + 3
                out = []
                for i in range(levels):
                    head = hid + enc_bytes(der) + struct.pack(">H", B.seq_t) + int_bytes(B, nitems)
                    fill = dist - len(head) - 6
                    if fill < 0:
                        break
                    chunk = head + enc_bytes(b"\xAA" * fill)
                    out.append(chunk + b"\xAA" * max(0, dist - len(chunk)))
                last = hid + enc_bytes(der) + int_bytes(B, 1)
                out.append(last + b"\x55" * max(0, record - len(last)))
                out.append(struct.pack(">H", B.null_t) * (nitems + 2))
                corpus.setdefault(b"".join(out), "hello-chains")
    except Exception as e:
        raise Machinery("cannot build the client-hello chains: %s" % e)
    # containers whose keys / members are registered enums carrying values no honest encoder produces (lists): thousands of them, all different - whatever the
    # decoder does with unhashable or colliding keys must stay linear
    enums = [c_ for c_ in registered if issubclass(c_, S.SerializableEnum)]
    for ecls in sorted(enums, key=lambda c_: c_.type_id)[:2]:
        for tid in (B.map_t, B.set_t):
            for n in (2000, 2 ** 14):
                items = []
                for i in range(n):
                    key = struct.pack(">H", ecls.type_id) + struct.pack(">H", B.seq_t) + int_bytes(B, 1) + int_bytes(B, 1000 + i)
                    items.append(key + (struct.pack(">H", B.null_t) if tid == B.map_t else b""))
                corpus.setdefault(struct.pack(">H", tid) + int_bytes(B, n) + b"".join(items), "enum-keys-with-list-values")
    # what a CLIENT decodes from an unauthenticated peer: server hellos signed by the sender's own root key (a client without a pinned key accepts the embedded
    # root key, a client with one at least parses up to the signature) whose signed fields have other types and sizes than the honest ones
    shello = {}
    try:
        K = impl.mod("crypto").EllipticCurvePrivateKey
        root, eph = K.new(), K.new()
        for name, fields in (("honest", [eph.getPublicKey().getBytes(), b"s" * 16, 77]),
                             ("salt=int 2^20", [eph.getPublicKey().getBytes(), 2 ** 20, 77]), ("salt=int 2^26", [eph.getPublicKey().getBytes(), 2 ** 26, 77]),
                             ("salt=int 2^31-1", [eph.getPublicKey().getBytes(), 2 ** 31 - 1, 77]), ("token=bytes", [eph.getPublicKey().getBytes(), b"s" * 16, b"t" * 64]),
                             ("salt=list", [eph.getPublicKey().getBytes(), [2 ** 26, 2 ** 26], 77]), ("key=int", [2 ** 26, b"s" * 16, 77]), ("salt=-1", [eph.getPublicKey().getBytes(), -1, 77])):
            tmp = io.BytesIO()
            for v in fields:
                S.serialize_value(tmp, v)
            payload = tmp.getvalue()
            body = io.BytesIO()
            body.write(struct.pack(">H", C.HandshakeServerHelloMessage.type_id))
            S.serialize_value(body, root.getPublicKey().getBytes())
            S.serialize_value(body, payload)
            S.serialize_value(body, root.sign(payload))
            shello[body.getvalue()] = "self-signed-server-hello:" + name
    except Exception as e:
        raise Machinery("cannot build the self-signed server hellos: %s" % e)
    for cls in sorted(registered, key=lambda c: c.type_id):
        nf = len(getattr(cls, "_fields", ()) or ())
        for n in (0, 1, nf, nf + 1, 255, 2 ** 31 - 1, 2 ** 62, -1):
            # every field the type really has is present and well formed; the announced count may be far larger
            corpus.setdefault(struct.pack(">H", cls.type_id) + int_bytes(B, n) + struct.pack(">H", B.null_t) * (nf + 2), "object-fields")
    for _ in range(600 if ctx.quick else 6000):
        corpus.setdefault(bytes(rnd.getrandbits(8) for _ in range(rnd.choice([0, 1, 2, 3, 5, 9, 40, 300]))), "random")
        corpus.setdefault(struct.pack(">H", rnd.choice([B.seq_t, B.map_t, B.string_t, B.int8_t, 130])) + bytes(rnd.getrandbits(8) for _ in range(rnd.randint(0, 30))), "random-typed")
    rows, meta = [], []
    # each input that runs into the watchdog costs 5 s: after a few of them the verdict is settled and the rest of the corpus is not tried any more
    def settled():
        return sum(1 for r_ in rows if str(r_[1]).startswith("timeout")) >= 3
    for k, (data, kind) in enumerate(corpus.items()):
        if settled():
            break
        row = observe(S, data, clean)
        if k % 4 == 0:
            # decoding is a function of the bytes: the same input again, in the same process, ends the same way with the same amount of work
            again = observe(S, data, clean)
            if (again[1], again[2], again[5]) != (row[1], row[2], row[5]):
                row[1] = "unstable (%s/%d calls, then %s/%d calls)" % (row[1], row[2], again[1], again[2])
        rows.append(row)
        meta.append((kind, data))
        ctx.case(None)
    # the handshake decoders the server runs on unauthenticated input
    ctxt = impl.mod("context").ServerContext(impl.mod("handler").EventHandler())
    for data, kind in list(corpus.items())[:: (3 if ctx.quick else 1)]:
        if settled():
            break
        conn = C.ServerClientConnection(ctxt, ("9.9.9.9", 9))
        rows.append(observe(S, data, lambda v: True, entry=conn._recvClientHello))
        meta.append(("server._recvClientHello:" + kind, data))
    for data, kind in shello.items():
        for pinned in (None, "other"):
            if settled():
                break
            key = None if pinned is None else impl.mod("crypto").EllipticCurvePrivateKey.new().getPublicKey()
            rows.append(observe(S, data, lambda v: True, entry=lambda d, key=key: S.Serializable.loadb(d, server_public_key=key)))
            meta.append(("client.loadb(server hello, pinned key=%s):%s" % (pinned, kind), data))
    wd = T.workdir("c14")
    try:
        path = os.path.join(wd, "rows.json")
        open(path, "w").write(json.dumps(rows))
        j = ctx.mc("Obs_Decoder", "INIT Init\nNEXT Next\nINVARIANT AllOK\nALIAS Where\nCHECK_DEADLOCK FALSE\n", env=dict(OBS_FILE=path), coverage=False, label="Obs_Decoder (%d inputs)" % len(rows), cont=True, workers=4)
        kinds = {}
        for k, _ in meta:
            kinds[k.split(":")[0]] = kinds.get(k.split(":")[0], 0) + 1
        ctx.extra.update(inputs=len(rows), by_kind=kinds, outcomes={o: sum(1 for r_ in rows if r_[1] == o) for o in set(r_[1] for r_ in rows)},
                         max_calls_per_byte=round(max(r_[2] / max(1, r_[0]) for r_ in rows), 2), max_peak_kib=max(r_[3] for r_ in rows), token_strings=len(inputs))
        ctx.distinct_n = len(rows)
        ctx.evaluations = len(rows)
        ctx.sample(dict(kind=meta[len(meta) // 3][0], input_hex=meta[len(meta) // 3][1][:40].hex(), row_n_outcome_calls_peakKiB_ms_clean=rows[len(rows) // 3]))
        if not j.ok:
            if j.violation["kind"] != "invariant":
                raise Machinery("Obs_Decoder judge failed: %s" % j.violation["text"][:1500])
            for tr in j.traces:
                for k, row in to_json(T.materialise(tr[-1]).get("bad", []))[:4]:
                    kind, data = meta[k - 1]
                    ctx.fail("hostile input (%s, %d bytes, %s...): outcome %s, %d decoder invocations (bound %d), peak %d KiB (bound %d), %d ms, clean=%s"
                             % (kind, row[0], data[:24].hex(), row[1], row[2], row[0] // 2 + 8, row[3], (64 * row[0]) // 1024 + 1024, row[4], row[5]), dict(kind=kind, input_hex=data[:4096].hex(), row=row))
    finally:
        shutil.rmtree(wd, ignore_errors=True)


def replay(ctx, doc):
    S = impl.mod("serializable")
    d = bytes.fromhex(doc["case"]["input_hex"])
    print(observe(S, d, lambda v: True))

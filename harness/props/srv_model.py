"""Exhaustive TLC runs of the design model specs/Server.tla for C10."""
from core import Machinery


def cfg(unique=True, addrs=2, objs=3, props=(), queue=2):
    s = ("SPECIFICATION Spec\nCONSTANTS\n Addrs = {%s}\n TokenSpace = {1, 2}\n MaxObjs = %d\n Timeout = 2\n MaxQueue = %d\n Unique = %s\n"
         % (", ".join('"a%d"' % i for i in range(1, addrs + 1)), objs, queue, "TRUE" if unique else "FALSE"))
    s += "INVARIANT Lifecycle\nINVARIANT ConnectedMeansLogged\nINVARIANT TokensDistinct\nINVARIANT ShutdownLast\n"
    for p in props:
        s += "PROPERTY %s\n" % p
    s += "CONSTRAINT Bound\nCHECK_DEADLOCK FALSE\n"
    return s


def c10_models(ctx):
    r = ctx.mc("Server", cfg(objs=2 if ctx.quick else 3, queue=1), label="Server: 2 addresses, %d client objects (reconnects), kicks, silence, handler exception, shutdown at any step" % (2 if ctx.quick else 3),
               need=["ProcessOne", "Sweep", "SweepTemp", "Shutdown", "Drain", "Kick", "HandlerRaises"], timeout=2400)
    if not r.ok:
        ctx.fail("design model Server: %s %s violated" % (r.violation["kind"], r.violation["name"]), dict(trace=[dict(action=s["action"], log=s["state"].get("log")) for s in r.trace[-10:]]))
    c = ctx.mc("Server", cfg(unique=False, objs=2, queue=1), label="Server control: token generator without the in-use test", count=False, coverage=False, timeout=600)
    if c.ok or c.violation["name"] != "TokensDistinct":
        raise Machinery("control configuration of Server did not refute TokensDistinct (got %s)" % (c.violation,))
    ctx.extra.setdefault("controls_refuted", []).append("Unique=FALSE: TokensDistinct refuted in %d steps" % len(c.trace))

"""C07 - reliability-layer property judged on recorded executions (see conn_judge / specs/Trace_Conn.tla)."""
from props import conn_judge as J, conn_model as CM


def run(ctx):
    ctx.level = "model_checking"
    ctx.rule = ("events of recorded executions of two real endpoints judged by TLC against Trace_Conn; distinct = recv + build events; "
                "non-trivial = every recv/build event (each is checked against the full clause set)")
    CM.c07_models(ctx)
    J.schedule_sweep(ctx, "C07", ctx.quick)
    J.ack_lateness_sweep(ctx, "C07", list(range(27, 38)) if ctx.quick else list(range(1, 50)))
    J.run_scenarios(ctx, "C07", scenarios(ctx))


def scenarios(ctx):
    q = ctx.quick
    return [
        dict(name="callbacks-long-rtt", n=4 if q else 40, nticks=800 if q else 3000, heal_after=500 if q else 2400,
             policy=dict(p_cb=1.0, p_loss=0.1, p_dup=0.05, maxdelay=30, retries=(0, -1, -1, 1)), world=dict(start_seq="alt")),
        dict(name="callbacks-short-timeout", n=3 if q else 30, nticks=800 if q else 3000, heal_after=500 if q else 2400,
             policy=dict(p_cb=1.0, p_loss=0.25, maxdelay=8, retries=(0, 0, -1, 1)), world=dict(start_seq="alt", timeout=0.25)),
        dict(name="callbacks-fragments", n=3 if q else 30, nticks=800 if q else 3000, heal_after=500 if q else 2400,
             policy=dict(p_cb=1.0, p_send=0.2, p_loss=0.12, maxdelay=12, lens=[1500, 2451, 2453, 2455, 2457, 2458, 3000, 3479, 5000, 100, 4], retries=(0, -1, 1)), world=dict(start_seq="alt")),
        # several small sends per frame (they share datagrams), every second one with a callable that compares equal to the others; some callbacks raise
        dict(name="callbacks-shared-callable", n=3 if q else 16, nticks=700 if q else 2000, heal_after=450 if q else 1600,
             policy=dict(p_cb=1.0, p_send=0.7, p_loss=0.2, maxdelay=8, lens=[4, 8, 20], retries=(0, 1, 0, -1)), world=dict(start_seq="alt", cb_raise=0.2)),
        # success may only be reported for what the peer accepted - also when the retransmission arrives behind a burst wider than the message window
        dict(name="callbacks-under-bursts", n=3 if q else 10, nticks=800 if q else 1500, heal_after=500 if q else 1100,
             policy=dict(p_cb=1.0, p_send=0.15, p_loss=0.2, retries=(-1, -1, 1), lens=[4, 20, 600, 1500], burst=0.03, burst_lens=(4, 4, 5), burst_retries=(0,), maxdelay=4), world=dict(start_seq="alt")),
        # success may only be reported for what the peer accepted - also when somebody puts damaged or forged copies of lost datagrams in front of the peer
        # (the header travels in clear: a copy with the genuine sequence number and a broken seal must not be acknowledged)
        dict(name="callbacks-with-forgeries", n=3 if q else 12, nticks=700 if q else 2000, heal_after=450 if q else 1600,
             policy=dict(p_cb=1.0, p_send=0.3, p_loss=0.3, p_forge=0.5, maxdelay=6, lens=[4, 20, 600], retries=(0, 0, 1, -1)), world=dict(start_seq="alt")),
    ]

"""C15 - typed JSON round trip of Serializable objects.

specs/Obs_Json.tla enumerates field assignments of a fixture class with one field per documented annotated shape (every single choice and
every pair); the harness runs fromJson(toJson(x)), loads(dumps(x)) and json.dumps(toJson(x)) on the real module and abstracts the results
into terms; TLC judges field-for-field equality (sets stay sets, tuples tuples, int / enum keys keep their type).
"""
import json, os, shutil
from typing import List, Set, Dict, Tuple
import impl, tlc as T
from tlaval import to_json
from core import Machinery
import codecterms as CT

_doc = {}


def doc_class():
    if _doc:
        return _doc["Doc"]
    F = CT.fixtures()
    S, Color, Facing, Opp = F["S"], F["Color"], F["Facing"], F["Opp"]

    class Inner(S.Serializable):
        a: int = 0
        b: str = ""

    class DocBase(S.Serializable):
        # an earlier version of the message type: the same field names with other shapes.  Doc re-declares them; the base class is converted first, so that
        # anything the library remembers per class about annotations is in place before the subclass is used
        li: Dict[str, int] = None
        di: List[int] = None
        si: List[str] = None
        t: List[int] = None
        de: Set[int] = None

    b0 = DocBase()
    b0.li, b0.di, b0.si, b0.t, b0.de = {"a": 1}, [1, 2], ["x"], [3], {4}
    DocBase.fromJson(b0.toJson())
    DocBase.loads(b0.dumps())

    class Doc(DocBase):
        i: int = 0
        f: float = 0.0
        b: bool = False
        s: str = ""
        e: Color = Color.RED
        z: Facing = Facing.SOUTH
        o: Opp = Opp.NORTH
        lo: List[Opp] = None
        do: Dict[Opp, int] = None
        lz: List[Facing] = None
        dz: Dict[Facing, int] = None
        n: Inner = S.Default
        li: List[int] = None
        ls: List[str] = None
        le: List[Color] = None
        ln: List[Inner] = None
        si: Set[int] = None
        ss: Set[str] = None
        se: Set[Color] = None
        sn: Set[Inner] = None
        di: Dict[int, str] = None
        ds: Dict[str, int] = None
        de: Dict[Color, int] = None
        dn: Dict[str, Inner] = None
        t: Tuple[int, str] = None
        te: Tuple[Color, Inner] = None
    F["Inner"] = Inner
    _doc["Doc"] = Doc
    return Doc


def run(ctx):
    S = impl.mod("serializable")
    Doc = doc_class()
    ctx.level = "exploration"
    ctx.exhaustive = True
    ctx.rule = ("every single field choice and every pair of field choices of the fixture class (22 annotated shapes) enumerated by TLC; distinct = assignments; "
                "non-trivial = the assignment overrides a container, enum, nested or tuple field")
    ctx.assumptions += ["one level of generic containers (as documented)", "None for nested Serializable fields is outside the documented shapes (used only for the failed exports that precede every third round trip)", "the abstraction function Python value -> term is trusted"]
    consts = "CONSTANT Pairs = TRUE\n"
    wd = T.workdir("c15")
    try:
        inp = os.path.join(wd, "docs.json")
        g = ctx.mc("Obs_Json", "INIT GenInit\nNEXT JNext\n" + consts + "CHECK_DEADLOCK FALSE\n", env=dict(OUT_FILE=inp, OBS_FILE=inp), coverage=False, workers=1, count=False, label="Obs_Json generate", heap="6g")
        if not g.ok or not os.path.exists(inp):
            raise Machinery("document generation failed: %s" % (g.violation,))
        docs = json.load(open(inp))["docs"]
        F = CT.fixtures()

        def fresh():
            # fields hold values of their annotated types: a Tuple[...] field needs a tuple of that length (the constructor's default is the empty tuple)
            x = Doc()
            x.t = (0, "")
            x.te = (F["Color"].RED, F["Inner"]())
            return x
        defaults = {f: CT.abstract(getattr(fresh(), f)) for f in Doc._fields}
        rows = []
        for d in docs:
            o = dict(ok=1, viaJson=[], viaString=[], rest=1, err="")
            try:
                x = fresh()
                for ov in d:
                    setattr(x, ov["f"], CT.concretise(ov["v"]))
                if len(rows) % 3 == 0:
                    # history: an export attempted while a field was still unconvertible (an object exported half-built); the field is then given a value of
                    # its annotated type, and from there on the property applies to x
                    for bad_f, bad_v in (("ln", 5), ("n", None), ("dn", {"k": None}), ("e", 77)):
                        keep = getattr(x, bad_f)
                        setattr(x, bad_f, bad_v)
                        for export in (x.toJson, x.dumps):
                            try:
                                export()
                            except Exception:
                                pass
                        setattr(x, bad_f, keep)
                j = x.toJson()
                json.dumps(j)
                y = Doc.fromJson(j)
                z = Doc.loads(x.dumps())
                o["viaJson"] = [CT.abstract(getattr(y, ov["f"])) for ov in d]
                o["viaString"] = [CT.abstract(getattr(z, ov["f"])) for ov in d]
                over = {ov["f"] for ov in d}
                for f in Doc._fields:
                    if f not in over and (CT.abstract(getattr(y, f)) != defaults[f] or CT.abstract(getattr(z, f)) != defaults[f]):
                        o["rest"] = 0
            except Exception as e:
                o["ok"] = 0
                o["err"] = "%s: %s" % (type(e).__name__, e)
            rows.append(o)
            ctx.case(None)
        obs = os.path.join(wd, "obs.json")
        open(obs, "w").write(json.dumps([{k: v for k, v in o.items() if k != "err"} for o in rows]))
        r = ctx.mc("Obs_Json", "INIT ObsInit\nNEXT JNext\n" + consts + "INVARIANT AllOK\nINVARIANT Complete\nALIAS Where\nCHECK_DEADLOCK FALSE\n", env=dict(OUT_FILE=inp, OBS_FILE=obs), coverage=False,
                   label="Obs_Json judge (%d documents)" % len(docs), cont=True, workers=4, heap="8g")
        ctx.evaluations = len(docs)
        ctx.distinct_n = len(docs)
        ctx.extra.update(documents=len(docs), fields=len(Doc._fields))
        ctx.sample(dict(overrides=docs[len(docs) // 2], observed={k: v for k, v in rows[len(docs) // 2].items() if k != "err"}))
        if not r.ok:
            if r.violation["kind"] != "invariant":
                raise Machinery("Obs_Json judge failed: %s" % r.violation["text"][:1500])
            n = 0
            for tr in r.traces:
                for k, d, o in to_json(T.materialise(tr[-1]).get("bad", []))[:4]:
                    n += 1
                    ctx.fail("fields %s: typed JSON round trip differs: via fromJson(toJson) %s, via loads(dumps) %s, ok=%s %s"
                             % (json.dumps(d)[:300], json.dumps(o.get("viaJson"))[:200], json.dumps(o.get("viaString"))[:200], o.get("ok"), rows[k - 1]["err"]), dict(overrides=d, observed=o, error=rows[k - 1]["err"]))
            if not n:
                ctx.fail("JSON observation table rejected by TLC (%s)" % r.violation["name"], dict(text=r.violation["text"][:400]))
    finally:
        shutil.rmtree(wd, ignore_errors=True)

"""Real ConnectionBase endpoints under a virtual clock and an in-memory adversarial network, with a recorder.

One event per public call, logged after it returns (sequential library: that is the linearisation point).
The driver is the environment: it knows what it put on the wire, so `recv` events carry the datagram content
and the trace specification keeps its own ghost of what was sent / accepted.

Event kinds (fields are small ints / lists; 32-bit fields as bit-position lists; time in integer microseconds):
  start     {start, maxpayload, mtu, timeout_us, resend_us, interval_us}
  send      {e, pid, len, retry, hascb, res: "ok"|"error:<T>", appended:[{mseq,type,len,retry}], fid}
  build     {e, now, dseq, ack, ackbits, type, sec, size, sealed, count, msgs:[{mseq,type,len,pid,fid,idx,cnt}], left:[len...], gap_us}
  builderr  {e, now, err}
  timeouts  {e, now, timedout:[dseq], cbs:[{pid,val}]}
  recv      {e, now, res, dg:{dseq,ack,ackbits,msgs}, known, delivered:[{pid,exact}], cbs, acked, timedout, cur, bits, mcur, rxctx, dropped, received}
  end       {healed, left:{c:{out,pend,ptx,retry}, s:{...}}}
"""
import os, random, struct
import impl

TICK_US = 16667


class VClock:
    """Stands in for the `time` module inside mpgameserver modules."""

    def __init__(self, start_us=1_000_000_000):
        self.us = start_us

    def time(self):
        return self.us / 1e6

    def monotonic(self):
        return self.us / 1e6

    def perf_counter(self):
        return self.us / 1e6

    def sleep(self, d):
        pass

    def __getattr__(self, k):
        import time as _t
        return getattr(_t, k)


class RandomPolicy:
    """Seeded random environment: application sends and datagram fates."""

    def __init__(self, seed, p_send=0.35, p_loss=0.1, p_dup=0.05, p_replay=0.02, maxdelay=12, lens=None, retries=(0, 0, -1, -1, 1),
                 p_cb=0.7, replay_back=400, burst=0.0, burst_lens=(4, 4, 5), p_forge=0.0, p_stall=0.0, burst_retries=(0, 0, -1), mindelay=0,
                 p_outage=0.0, outage_len=(30, 150)):
        self.rnd = random.Random(seed)
        self.p_send, self.p_loss, self.p_dup, self.p_replay, self.maxdelay = p_send, p_loss, p_dup, p_replay, maxdelay
        self.lens = lens
        self.retries = retries
        self.p_cb = p_cb
        self.replay_back = replay_back
        self.burst = burst
        self.p_forge = p_forge
        self.p_stall = p_stall
        self.burst_retries = list(burst_retries)
        self.mindelay = mindelay
        self.stall_until = {}
        self.p_outage, self.outage_len, self.outage_until = p_outage, outage_len, {}
        self.burst_lens = list(burst_lens)

    def sends(self, tick, name, world):
        out = []
        P = world.C.Packet
        lens = self.lens or [4, 4, 5, 20, 100, 600, 1200, P.MAX_PAYLOAD_SIZE - 3, P.MAX_PAYLOAD_SIZE - 2, P.MAX_PAYLOAD_SIZE - 1, P.MAX_PAYLOAD_SIZE,
                             P.MAX_PAYLOAD_SIZE + 1, 2000, P.MAX_FRAGMENT_SIZE + P.MAX_PAYLOAD_SIZE - 7, P.MAX_FRAGMENT_SIZE + P.MAX_PAYLOAD_SIZE - 6,
                             P.MAX_FRAGMENT_SIZE + P.MAX_PAYLOAD_SIZE - 5, P.MAX_FRAGMENT_SIZE + P.MAX_PAYLOAD_SIZE - 3, P.MAX_FRAGMENT_SIZE + P.MAX_PAYLOAD_SIZE - 1,
                             2 * P.MAX_FRAGMENT_SIZE + P.MAX_PAYLOAD_SIZE - 2, P.MAX_FRAGMENT_SIZE + P.MAX_PAYLOAD_SIZE, 3000, 5000]
        while self.rnd.random() < self.p_send:
            out.append((self.rnd.choice(lens), self.rnd.choice(self.retries), self.rnd.random() < self.p_cb))
        if self.burst and self.rnd.random() < self.burst:
            n = self.rnd.choice([40, 260, 300])
            out += [(self.rnd.choice(self.burst_lens), self.rnd.choice(self.burst_retries), False) for _ in range(n)]
        return out

    def fate(self, tick, name, dgid, world):
        if self.p_outage:
            # a link outage: every datagram of one direction is lost for 0.5 .. 2.5 s (longer than the resend interval and the ack time-out)
            if self.outage_until.get(name, -1) >= tick:
                return []
            if self.rnd.random() < self.p_outage:
                self.outage_until[name] = tick + self.rnd.randint(*self.outage_len)
                return []
        if self.rnd.random() < self.p_loss:
            return []
        f = [self.rnd.randint(self.mindelay, max(self.mindelay, self.maxdelay))]
        if self.rnd.random() < self.p_dup:
            f.append(self.rnd.randint(self.mindelay, max(self.mindelay, self.maxdelay)))
        return f

    def stalled(self, tick, name):
        """a frame hitch: the application does not call into the library for a few ticks (the clock runs on)"""
        if self.stall_until.get(name, -1) >= tick:
            return True
        if self.p_stall and self.rnd.random() < self.p_stall:
            self.stall_until[name] = tick + self.rnd.randint(2, 6)
            return True
        return False

    def replays(self, tick, name, world):
        n = len(world.emitted[name])
        if n and self.rnd.random() < self.p_replay:
            return [self.rnd.randint(max(1, n - self.replay_back), n)]
        return []


class ScriptPolicy:
    """Environment schedule taken from a TLC behaviour: sends per tick, fate per emitted datagram index, replays per tick."""

    def __init__(self, sends=None, fates=None, replays=None, default_fate=(0,)):
        self._sends = sends or {}       # (tick, name) -> [(len, retry, hascb)]
        self._fates = fates or {}       # (name, dgid) -> [delays]
        self._replays = replays or {}   # (tick, name) -> [dgid]
        self.default_fate = list(default_fate)

    def sends(self, tick, name, world):
        return self._sends.get((tick, name), [])

    def fate(self, tick, name, dgid, world):
        return list(self._fates.get((name, dgid), self.default_fate))

    def replays(self, tick, name, world):
        return [d for d in self._replays.get((tick, name), []) if d <= len(world.emitted[name])]


class ConnWorld:
    KEY = b"k" * 16

    def __init__(self, mtu=None, start_seq=None, timeout=None, keepalive=None, tick_us=TICK_US, cb_raise=0.0):
        self.cb_raise = cb_raise          # probability that an application callback raises after it was told (a strict `assert ok`, a bug in the application)
        self.cb_rnd = random.Random(12345)
        self.C = impl.mod("connection")
        C = self.C
        self.vt = VClock()
        C.time = self.vt
        self.tick_us = tick_us
        if mtu is not None:
            C.Packet.setMTU(mtu)
        self.mtu = C.Packet.MTU
        self.ends = {}
        for name, srv in (("c", False), ("s", True)):
            e = C.ConnectionBase(srv, ("h", 1))
            e.clock = self.vt.time
            e.session_key_bytes = self.KEY
            e.status = C.ConnectionStatus.CONNECTED
            if timeout is not None:
                e.outgoing_timeout = timeout
            if keepalive is not None:
                e.send_keep_alive_interval = keepalive
            if start_seq:
                e.seq_sending = C.SeqNum(start_seq)
                e.seq_message = C.SeqNum(start_seq)
                e.seq_fragment = C.SeqNum(start_seq)
            self.ends[name] = e
        self.start_seq = start_seq or 0
        any_e = self.ends["c"]
        self.ev = [dict(ev="start", start=self.start_seq, maxpayload=C.Packet.MAX_PAYLOAD_SIZE, mtu=self.mtu,
                        maxfrag=C.Packet.MAX_FRAGMENT_SIZE, fraglimit_k=C.Packet.MAX_FRAGMENTS,
                        timeout=int(round(any_e.outgoing_timeout * 1e4)), resend=int(round(any_e.send_keep_alive_interval * 1e4)),
                        interval=int(any_e.send_interval * 1e4), tick=tick_us // 100)]
        self.cur = {}
        self.emitted = {"c": [], "s": []}
        self.flight = []
        self.sentpayload = {}
        self.npid = 0
        self.last_build = {"c": None, "s": None}
        self.mseq2pid = {"c": {}, "s": {}}     # the driver's own record of which payload travels under which message seq
        for name, e in self.ends.items():
            self._wrap(e)
        self.seals = []
        self.seal_mark = 0
        self.ivs = []
        self._wrap_crypto()

    # -- instrumentation from outside: no source hooks
    def _wrap(self, e):
        oa, ot = e._handle_ack, e._handle_timeout
        cur = self.cur

        def ha(seq):
            cur["acked"].append(int(seq))
            return oa(seq)

        def ht(seq):
            cur["timedout"].append(int(seq))
            return ot(seq)
        e._handle_ack, e._handle_timeout = ha, ht
        orm = e._recv_message

        def rm(typ, msgseq, msg):
            try:
                return orm(typ, msgseq, msg)
            finally:
                cur.setdefault("steps", []).append(sorted(int(k) for k in e.received_fragments.keys()))
        e._recv_message = rm

    def _wrap_crypto(self):
        C = self.C
        real = impl.mod("crypto").encrypt_gcm
        seals = self.seals

        def enc(key, iv, aad, data):
            seals.append((bytes(key), bytes(iv), bytes(aad), len(data)))
            return real(key, iv, aad, data)

        class CryptoProxy:
            def __getattr__(s, k):
                return enc if k == "encrypt_gcm" else getattr(impl.mod("crypto"), k)
        C.crypto = CryptoProxy()

    def now(self):
        return self.vt.us // 100

    def close(self):
        C = self.C
        import time as _t
        C.time = _t
        C.crypto = impl.mod("crypto")
        C.Packet.setMTU(1500)

    def begin(self, e):
        self.cur.clear()
        self.cur.update(cbs=[], acked=[], timedout=[], steps=[])

    def mkcb(self, pid):
        world = self

        def told(ok):
            world.cur.setdefault("cbs", []).append(dict(pid=pid, val=bool(ok)))
            if world.cb_raise and world.cb_rnd.random() < world.cb_raise:
                raise AssertionError("application callback of payload %d raises" % pid)
        if pid % 2:
            return told

        class SameCallable:
            """every second send hands over a callable that COMPARES EQUAL to the others of its kind - as `self.on_sent` does when one bound method is
            given to every send - while each still knows its own payload"""
            def __call__(s, ok):
                told(ok)

            def __eq__(s, other):
                return type(other).__name__ == "SameCallable"

            def __hash__(s):
                return 7
        return SameCallable()

    def decode(self, raw):
        """Independent reader of a genuine datagram (the harness's own AES-GCM, not the library's)."""
        from cryptography.hazmat.primitives.ciphers.aead import AESGCM
        magic, ctime, seq, ack, typ, length, count, ack_bits = struct.unpack(">4sLHHBHBL", raw[:20])
        sealed = True
        try:
            pt = AESGCM(self.KEY).decrypt(raw[:12], raw[20:], raw[:20])
        except Exception:
            sealed = False
            pt = raw[20:20 + length]
        ms = []
        try:
            if count == 1:
                ms.append((struct.unpack(">H", pt[:2])[0], typ, pt[2:]))
            elif count > 1:
                p = pt
                for _ in range(count):
                    ln, sq, ty = struct.unpack(">HHB", p[:5])
                    ms.append((sq, ty, p[5:5 + ln]))
                    p = p[5 + ln:]
        except struct.error:
            ms = []            # not readable by the independent reader (e.g. not sealed the way the property says): the seal clauses report it
        bits = [d for d in range(1, 33) if ack_bits & (0x80000000 >> (d - 1))]
        return dict(magic=magic, ctime=ctime, dseq=seq, ack=ack, type=typ, length=length, count=count, ackbits=bits, sealed=sealed,
                    ptlen=len(pt)), ms

    def msgdesc(self, src, sq, ty, b):
        d = dict(mseq=sq, type=ty, len=len(b), pid=self.mseq2pid[src].get(sq, 0) if ty in (6, 7) else 0, fid=0, idx=0, cnt=0)
        if ty == 7:
            if len(b) >= 6:
                d["fid"], d["idx"], d["cnt"] = struct.unpack(">HHH", b[:6])
            else:
                d["fid"] = -1
        return d

    # -- one application send
    def app_send(self, name, ln, retry, hascb, payload=None):
        e = self.ends[name]
        self.npid += 1
        pid = self.npid
        if payload is None:
            rnd = random.Random(pid * 7919 + ln)
            body = bytes(rnd.getrandbits(8) for _ in range(max(0, min(ln - 4, 48)))) + b"\xa5" * max(0, ln - 4 - 48)
            payload = (struct.pack(">L", pid) + body)[:ln] if ln >= 4 else b"\x00" * ln
        self.sentpayload[pid] = payload
        f0, n0 = int(e.seq_fragment), len(e.outgoing_messages)
        self.begin(e)
        res = "ok"
        try:
            e.send(payload, retry=retry, callback=self.mkcb(pid) if hascb else None)
        except Exception as ex:
            res = "error:" + type(ex).__name__
        app = [dict(mseq=int(m.seq), type=m.type.value, len=len(m.payload), retry=m.retry.value) for m in e.outgoing_messages[n0:]]
        for a in app:
            self.mseq2pid[name][a["mseq"]] = pid
        self.ev.append(dict(ev="send", e=name, pid=pid, len=len(payload), retry=retry, hascb=bool(hascb), res=res, appended=app,
                            fid=int(e.seq_fragment) if int(e.seq_fragment) != f0 else 0, short=int(ln < 4)))
        return pid

    # -- one tick of one endpoint: build / encode / check-timeout (UdpClient.update order)
    def endpoint_tick(self, name, tick, policy, healed=False):
        e = self.ends[name]
        self.begin(e)
        try:
            pkt = e._build_packet()
            raw = e._encode_packet(pkt) if pkt is not None else None
        except Exception as ex:
            self.ev.append(dict(ev="builderr", e=name, now=self.now(), err=type(ex).__name__))
            pkt = raw = None
        if raw is None and pkt is None and e.outgoing_messages:
            capped = int(self.vt.time() - e.last_send_time < e.send_interval)
            self.ev.append(dict(ev="skip", e=name, now=self.now(), left=[len(m.payload) for m in e.outgoing_messages][:40], capped=capped))
        if raw is not None:
            self.emitted[name].append(raw)
            hdr, ms = self.decode(raw)
            newseals = self.seals[self.seal_mark:]
            self.seal_mark = len(self.seals)
            aadok = int(len(newseals) == 1 and newseals[0][0] == self.KEY and newseals[0][1] == raw[:12] and newseals[0][2] == raw[:20])
            self.ivs.append((name, raw[:12]))
            leak = int(any(len(m[2]) >= 8 and bytes(m[2][:32]) in raw for m in ms))
            lb = self.last_build[name]
            self.last_build[name] = self.vt.us
            self.ev.append(dict(ev="build", e=name, now=self.now(), dseq=hdr["dseq"], ack=hdr["ack"], ackbits=hdr["ackbits"], type=hdr["type"],
                                sec=hdr["ctime"], size=len(raw), sealed=hdr["sealed"], count=hdr["count"], length=hdr["length"], ptlen=hdr["ptlen"],
                                msgs=[self.msgdesc(name, *m) for m in ms], left=[len(m.payload) for m in e.outgoing_messages][:40],
                                nleft=len(e.outgoing_messages), gap=(self.vt.us - lb) // 100 if lb is not None else -1,
                                toserver=int(hdr["magic"] == b"FSOS"), nseals=len(newseals), aadok=aadok, leak=leak))
            dgid = len(self.emitted[name])
            fate = [0] if healed else policy.fate(tick, name, dgid, self)
            for d in fate:
                self.flight.append((self.vt.us + d * self.tick_us, name, dgid))
        self.begin(e)
        e._check_timeout(self.vt.time())
        if self.cur["timedout"] or self.cur["cbs"]:
            self.ev.append(dict(ev="timeouts", e=name, now=self.now(), timedout=self.cur["timedout"], cbs=self.cur["cbs"]))

    def deliver(self, src, dgid):
        C = self.C
        dst = "s" if src == "c" else "c"
        e = self.ends[dst]
        raw = self.emitted[src][dgid - 1]
        hdr, ms = self.decode(raw)
        self.begin(e)
        n0 = len(e.incoming_messages)
        d0, r0 = e.stats.dropped, e.stats.received
        err = ""
        try:
            res = e._recv_datagram(C.PacketHeader.from_bytes(e.isServer, raw), raw)
        except Exception as ex:
            res, err = False, type(ex).__name__
        dl = []
        for sq, m in e.incoming_messages[n0:]:
            pid = self.mseq2pid[src].get(int(sq), 0)
            dl.append(dict(pid=pid, exact=bool(self.sentpayload.get(pid) == bytes(m))))
        self.ev.append(dict(ev="recv", e=dst, now=self.now(), steps=self.cur["steps"], res=bool(res), err=err, delivered=dl, cbs=self.cur["cbs"], acked=self.cur["acked"],
                            timedout=self.cur["timedout"],
                            dg=dict(dseq=hdr["dseq"], ack=hdr["ack"], ackbits=hdr["ackbits"], msgs=[self.msgdesc(src, *m) for m in ms]),
                            cur=int(e.bitfield_pkt.current_seqnum), bits=impl.offsets(e.bitfield_pkt.bits, e.bitfield_pkt.nbits),
                            mcur=int(e.bitfield_msg.current_seqnum), rxctx=sorted(int(k) for k in e.received_fragments.keys()),
                            ddrop=e.stats.dropped - d0, drecv=e.stats.received - r0))
        return res

    # -- attacker: a datagram not produced with the session key, injected at this point of the history (C01)
    def forge(self, name, rnd):
        import struct as st
        C = self.C
        e = self.ends[name]
        src = "s" if name == "c" else "c"
        kind = rnd.choice(["bitflip", "bitflip-hdr", "truncate", "crc-plain", "crc-hello", "otherkey", "rewrite-ack", "random"])
        gen = self.emitted[src][-rnd.randint(1, min(40, len(self.emitted[src]))):][0] if self.emitted[src] else None
        cur = int(e.bitfield_pkt.current_seqnum)
        magic = b"FSOS" if e.isServer else b"FSOC"
        if kind in ("bitflip", "bitflip-hdr", "truncate", "rewrite-ack") and gen is None:
            kind = "random"
        if kind == "bitflip":
            t = bytearray(gen)
            b = rnd.randrange(20 * 8, len(gen) * 8)
            t[b // 8] ^= 1 << (b % 8)
            raw = bytes(t)
        elif kind == "bitflip-hdr":
            t = bytearray(gen)
            b = rnd.randrange(0, 20 * 8)
            t[b // 8] ^= 1 << (b % 8)
            raw = bytes(t)
        elif kind == "truncate":
            raw = gen[:rnd.randrange(0, len(gen))]
        elif kind == "rewrite-ack":
            t = bytearray(gen)
            t[16:20] = b"\xff\xff\xff\xff"
            t[10:12] = st.pack(">H", max((int(k) for k in e.pending_acks), default=1))
            body = bytes(t[:20 + st.unpack(">H", t[13:15])[0]])
            raw = body + st.pack(">L", impl.mod("crypto").crc32(body)) if rnd.random() < 0.5 else bytes(t)
        elif kind in ("crc-plain", "crc-hello"):
            typ = rnd.choice([1, 2]) if kind == "crc-hello" else rnd.choice([3, 4, 5, 6, 7])
            n = rnd.choice([0, 1, 2, 3])
            hdr = C.PacketHeader.create(not e.isServer, int(self.vt.time()), C.PacketType(typ), C.SeqNum((cur + rnd.randint(1, 9) - 1) % 65535 + 1),
                                        C.SeqNum(max((int(k) for k in e.pending_acks), default=1)), 0xFFFFFFFF)
            msgs = [C.PendingMessage(C.SeqNum((int(e.bitfield_msg.current_seqnum) + 500 + i) % 65535 + 1), C.PacketType(rnd.choice([5, 6, 6, typ])), b"EVIL%d" % i, None, C.RetryMode.NONE) for i in range(n)]
            raw = C.Packet.create(hdr, msgs).to_bytes(None)
        elif kind == "otherkey":
            from cryptography.hazmat.primitives.ciphers.aead import AESGCM
            hdr = C.PacketHeader.create(not e.isServer, int(self.vt.time()), C.PacketType.APP, C.SeqNum((cur + 3 - 1) % 65535 + 1), C.SeqNum(1), 0)
            pkt = C.Packet.create(hdr, [C.PendingMessage(C.SeqNum(7), C.PacketType.APP, b"otherkey", None, C.RetryMode.NONE)])
            h = pkt.hdr.to_bytes()
            raw = h + AESGCM(b"z" * 16).encrypt(h[:12], pkt.msg, h)
        else:
            raw = magic + bytes(rnd.getrandbits(8) for _ in range(rnd.randint(0, 80)))
        if gen is not None and raw == gen:
            return
        from gateworld import snapshot
        before = snapshot(e)
        ncb = len(self.cur.get("cbs", []))
        self.begin(e)
        d0 = e.stats.dropped
        try:
            hdr = C.PacketHeader.from_bytes(e.isServer, raw)
            try:
                res = "true" if e._recv_datagram(hdr, raw) else "false"
            except Exception as ex:
                res = "exc"
        except Exception:
            res = "hdr"
        after = snapshot(e)
        self.ev.append(dict(ev="forge", e=name, now=self.now(), kind=kind, res=res, changed=sorted(k for k in after if after[k] != before[k]),
                            cbs=len(self.cur["cbs"]), acked=len(self.cur["acked"]), timedout=len(self.cur["timedout"])))

    def left(self):
        return {n: dict(out=len(e.outgoing_messages), pend=len(e.pending_acks), ptx=len(e.pending_fragments), retry=len(e.pending_retry_msg))
                for n, e in self.ends.items()}

    def run(self, policy, nticks, heal_after=None, quiesce_ticks=0):
        """Run nticks; from tick heal_after on the network is perfect and the application is silent."""
        rnd = random.Random(12345)
        tick = 0
        total = nticks
        while tick < total:
            self.vt.us += self.tick_us
            healed = heal_after is not None and tick >= heal_after
            for name in ("c", "s"):
                if not healed:
                    for ln, retry, hascb in policy.sends(tick, name, self):
                        self.app_send(name, ln, retry, hascb)
                if not healed and getattr(policy, "stalled", None) and policy.stalled(tick, name):
                    continue
                self.endpoint_tick(name, tick, policy, healed)
                if not healed:
                    for dgid in policy.replays(tick, name, self):
                        self.flight.append((self.vt.us, name, dgid))
                    if getattr(policy, "p_forge", 0) and policy.rnd.random() < policy.p_forge:
                        self.forge(name, policy.rnd)
            due = [f for f in self.flight if f[0] <= self.vt.us]
            self.flight = [f for f in self.flight if f[0] > self.vt.us]
            due.sort(key=lambda f: (f[0], rnd.random()))
            for _, src, dgid in due:
                self.deliver(src, dgid)
            tick += 1
            if healed and tick == total and quiesce_ticks > 0:
                l = self.left()
                if any(v["out"] or v["pend"] for v in l.values()) and total < nticks + quiesce_ticks:
                    total += 60
        self.ev.append(dict(ev="end", healed=heal_after is not None, left=self.left(), ticks=tick))
        return self.ev


class FnPolicy:
    """Scripted environment given as functions (used to replay the counterexamples of the known findings deterministically)."""

    def __init__(self, sends=None, fate=None, replays=None):
        self._s, self._f, self._r = sends, fate, replays

    def sends(self, tick, name, world):
        return self._s(tick, name, world) if self._s else []

    def fate(self, tick, name, dgid, world):
        return self._f(tick, name, dgid, world) if self._f else [0]

    def replays(self, tick, name, world):
        return self._r(tick, name, world) if self._r else []

"""Real endpoints in the situations of specs/Gate.tla, an attacker concretiser, and a tolerant before/after snapshot."""
import os, struct, random
import impl
from connworld import VClock

MISSING = "<missing>"


def g(o, name, f=lambda x: x):
    v = getattr(o, name, MISSING)
    if v is MISSING:
        return MISSING
    try:
        return f(v)
    except Exception:
        return MISSING


def snapshot(e, extra=None):
    """Everything an accepted datagram may change, except stats.dropped (C01 does not say the discard is counted)."""
    C = impl.mod("connection")
    s = dict(
        key=g(e, "session_key_bytes"), status=g(e, "status", lambda v: v.value), token=g(e, "token"),
        pcur=g(e, "bitfield_pkt", lambda b: int(b.current_seqnum)), pbits=g(e, "bitfield_pkt", lambda b: b.bits),
        mcur=g(e, "bitfield_msg", lambda b: int(b.current_seqnum)), mbits=g(e, "bitfield_msg", lambda b: b.bits),
        pend=g(e, "pending_acks", lambda d: sorted((int(k), v) for k, v in d.items())), cbs=g(e, "pending_callbacks", lambda d: sorted(int(k) for k in d)),
        retry=g(e, "pending_retry", lambda d: sorted(int(k) for k in d)), rmsg=g(e, "pending_retry_msg", lambda d: sorted(int(k) for k in d)),
        out=g(e, "outgoing_messages", lambda l: [(int(m.seq), m.type.value, len(m.payload)) for m in l]),
        inc=g(e, "incoming_messages", lambda l: [(int(a), bytes(b)) for a, b in l]),
        frx=g(e, "received_fragments", lambda d: sorted((int(k), tuple(f is not None for f in v.fragments)) for k, v in d.items())),
        ftx=g(e, "pending_fragments", lambda d: sorted(int(k) for k in d)),
        lr=g(e, "last_recv_time"), received=g(e, "stats", lambda s_: s_.received), acked=g(e, "stats", lambda s_: s_.acked),
        timeouts=g(e, "stats", lambda s_: s_.timeouts), latency=g(e, "latency"),
        seqs=(g(e, "seq_sending", int), g(e, "seq_message", int), g(e, "seq_fragment", int)))
    if extra:
        s.update(extra())
    return s


class GateWorld:
    """client <-> server-side connection, connected through the real handshake, then brought into a rich situation."""

    def __init__(self, seed=0, connect=True, rich=True):
        self.C = C = impl.mod("connection")
        self.X = impl.mod("context")
        self.H = impl.mod("handler")
        self.vt = VClock(2_000_000_000)
        C.time = self.vt
        self.rnd = random.Random(seed)
        self.handler_log = []
        world = self

        class Hn(self.H.EventHandler):
            def connect(s, client):
                world.handler_log.append(("connect", id(client)))

            def disconnect(s, client):
                world.handler_log.append(("disconnect", id(client)))

            def handle_message(s, client, seqnum, msg=b""):
                world.handler_log.append(("msg", bytes(msg)))
        self.ctxt = self.X.ServerContext(Hn())
        self.cbs = []
        self.cl = C.ClientServerConnection(("1.1.1.1", 1))
        self.cl.clock = self.vt.time
        self.cl.setServerPublicKey(self.ctxt.server_root_key.getPublicKey())
        self.sv = C.ServerClientConnection(self.ctxt, ("1.1.1.1", 1))
        self.sv.clock = self.vt.time
        self.genuine = []     # (from_server, bytes, delivered)
        if connect:
            self.ctxt.temp_connections[self.sv.addr] = self.sv
            self.cl._sendClientHello()
            self.step(self.cl, self.sv)
            self.step(self.sv, self.cl)
            self.step(self.cl, self.sv)
            assert self.sv.status == C.ConnectionStatus.CONNECTED == self.cl.status, "handshake failed in the harness"
            if rich:
                for _ in range(40):          # so that the first datagrams are older than the window
                    self.vt.us += 110_000
                    self.step(self.cl, self.sv)
                    self.step(self.sv, self.cl)
                cb = lambda ok: self.cbs.append(ok)
                self.cl.send(b"A" * 10, retry=-1, callback=cb)
                self.sv.send(b"B" * 3000, retry=0, callback=cb)
                self.step(self.cl, self.sv)
                self.step(self.sv, self.cl)
                self.step(self.cl, self.sv, deliver=False)
                self.step(self.sv, self.cl, deliver=False)
                self.cl.send(b"C" * 20, retry=0, callback=cb)
                self.sv.send(b"D" * 20, retry=1, callback=cb)
                self.step(self.cl, self.sv, deliver=False)
                self.step(self.sv, self.cl, deliver=False)

    def close(self):
        import time as _t
        self.C.time = _t

    def step(self, a, b, deliver=True):
        C = self.C
        self.vt.us += 20_000
        pkt = a._build_packet()
        if pkt is None:
            return None
        d = a._encode_packet(pkt)
        self.genuine.append([a.isServer, d, deliver])
        if deliver:
            b._recv_datagram(C.PacketHeader.from_bytes(b.isServer, d), d)
        return d

    def endpoint(self, side):
        return self.cl if side == "client" else self.sv

    def extra(self, side):
        if side == "server":
            return lambda: dict(pools=(sorted(self.ctxt.connections), sorted(self.ctxt.temp_connections)), hlog=len(self.handler_log), ucb=len(self.cbs))
        return lambda: dict(ucb=len(self.cbs))

    def inject(self, side, raw):
        """Returns observation dict (ret, changed, app, keychg, dropped)."""
        C = self.C
        e = self.endpoint(side)
        before = snapshot(e, self.extra(side))
        d0 = e.stats.dropped
        try:
            hdr = C.PacketHeader.from_bytes(e.isServer, raw)
        except Exception:
            return dict(ret="hdr", changed=[], app=0, keychg=0, dropped=0)
        try:
            r = e._recv_datagram(hdr, raw)
            ret = "true" if r else "false"
        except Exception as ex:
            ret = "exc"
        after = snapshot(e, self.extra(side))
        changed = sorted(k for k in after if after[k] != before[k])
        return dict(ret=ret, changed=changed, app=int(after["inc"] != before["inc"] or after.get("hlog", 0) != before.get("hlog", 0)),
                    keychg=int(any(after[k] != before[k] for k in ("key", "token", "status"))), dropped=int(e.stats.dropped - d0 == 1))

    # ------------------------------------------------------------ attacker
    def forge_crc(self, side, htype, types, seqc, ackc, payloads=None):
        """Plaintext datagram with a valid CRC addressed to `side`."""
        C = self.C
        e = self.endpoint(side)
        cur = int(e.bitfield_pkt.current_seqnum)
        seq = {"fresh": (cur + 5 - 1) % 65535 + 1, "dup": cur or 1, "stale": (cur - 60 - 1) % 65535 + 1}[seqc]
        ack, bits = 2, 0
        if ackc == "pending" and e.pending_acks:
            ack, bits = max(int(k) for k in e.pending_acks), 0xFFFFFFFF
        hdr = C.PacketHeader.create(side == "client", int(self.vt.time()), C.PacketType(htype), C.SeqNum(seq), C.SeqNum(ack), bits)
        mcur = int(e.bitfield_msg.current_seqnum)
        msgs = [C.PendingMessage(C.SeqNum((mcur + 300 + i) % 65535 + 1), C.PacketType(t), (payloads[i] if payloads else b"EVIL%d" % i), None, C.RetryMode.NONE)
                for i, t in enumerate(types)]
        pkt = C.Packet.create(hdr, msgs)
        return pkt.to_bytes(None)

    def otherkey(self, side, htype, seqc):
        C = self.C
        e = self.endpoint(side)
        cur = int(e.bitfield_pkt.current_seqnum)
        seq = {"fresh": (cur + 5 - 1) % 65535 + 1, "dup": cur or 1, "stale": (cur - 60 - 1) % 65535 + 1}[seqc]
        hdr = C.PacketHeader.create(side == "client", int(self.vt.time()), C.PacketType(htype), C.SeqNum(seq), C.SeqNum(1), 0)
        pkt = C.Packet.create(hdr, [C.PendingMessage(C.SeqNum(7), C.PacketType(htype), b"otherkey", None, C.RetryMode.NONE)])
        from cryptography.hazmat.primitives.ciphers.aead import AESGCM
        h = pkt.hdr.to_bytes()          # sealed by the attacker's own AES-GCM under a key the endpoint does not hold, whatever the type
        return h + AESGCM(b"z" * 16).encrypt(h[:12], pkt.msg, h)

    def genuine_for(self, side, seqc):
        """A recorded genuine datagram addressed to `side`: undelivered (fresh), just delivered (dup), delivered long ago (stale)."""
        e = self.endpoint(side)
        cands = [x for x in self.genuine if x[0] != e.isServer]
        if seqc == "fresh":
            c = [x for x in cands if not x[2]]
            return c[0] if c else None
        delivered = [x for x in cands if x[2]]
        if not delivered:
            return None
        return delivered[-1] if seqc == "dup" else delivered[1] if len(delivered) > 36 else None

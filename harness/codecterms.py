"""Concretisation of Codec.tla terms into Python values and the abstraction function back (trusted harness code, independent of the encoder)."""
import math, struct
import impl

_fix = {}


def fixtures():
    """Serializable / SerializableEnum fixture classes (registered once per process)."""
    if _fix:
        return _fix
    S = impl.mod("serializable")

    class Color(S.SerializableEnum):
        RED = 1
        BLUE = 2

    class Shape(S.SerializableEnum):
        SQUARE = 1
        CIRCLE = 3

    class Facing(S.SerializableEnum):       # a C-style enumeration: the first member's value is 0 (falsy)
        NORTH = 0
        SOUTH = 1

    class PointBase(S.Serializable):
        x: object = None

    # the base class is used first: whatever the library remembers per class (type ids, headers, field tables) is in place before the subclass appears
    S.Serializable.loadb(PointBase().dumpb())

    class Point(PointBase):
        x: object = None
        y: object = None

    class Empty(S.Serializable):
        pass

    class Entity(S.Serializable):           # a base class with fields of its own ...
        uid: object = None
        name: object = None

    class Player(Entity):                   # ... and a subclass that only ADDS a field: an object of it has all three
        score: object = None

    class Gauge(S.Serializable):            # two fields and a computed, read-only attribute: the attribute is not a field
        lo: object = None
        hi: object = None

        @property
        def span(self):
            return (self.hi or 0) - (self.lo or 0) if isinstance(self.hi, int) and isinstance(self.lo, int) else 0

    class Bag(S.Serializable):              # container-annotated fields whose declared default is not a container: the constructor installs fresh empty
        items: list = None                  # containers, and an application may well set them back to None ("not loaded yet" is not "empty")
        extra: dict = None
    class Opp(S.SerializableEnum):          # string-valued; every member's NAME is another member's VALUE
        NORTH = "SOUTH"
        SOUTH = "NORTH"
    _fix.update(S=S, Color=Color, Shape=Shape, Facing=Facing, Point=Point, Empty=Empty, Opp=Opp, PointBase=PointBase, Bag=Bag, Entity=Entity, Player=Player, Gauge=Gauge)
    return _fix


FIELDS = {"Player": ("uid", "name", "score"), "Gauge": ("lo", "hi")}


def fields_of(cls):
    return FIELDS.get(cls.__name__) or cls._fields


def f32(x):
    return struct.unpack(">f", struct.pack(">f", x))[0]


FLOATS = {"0.0": 0.0, "-0.0": -0.0, "1.5": 1.5, "0.1": 0.1, "inf": math.inf, "-inf": -math.inf, "nan": math.nan, "1e-50": 1e-50, "3.4e38": 3.4e38, "16777217.0": 16777217.0, "1e39": 1e39}
FLOATS32 = {"0.1f": f32(0.1), "16777216.0": 16777216.0, "3.4e38": f32(3.4e38)}
STRS = {"bom": "\ufeffhello", "bom_only": "\ufeff", "json_special": 'the 27" room \\ http://host/a//b # c\n{"k": [1, "x"]} // not a comment',
        "": "", "a": "a", "multibyte": "héllo ✓ \U0001f600", "nul": "nu\x00l", "L300": "x" * 300, "toolong": "y" * (2 ** 20 + 1), "surrogate": "bad\ud800",
        "mb_edge": "\u00e9" * (2 ** 19), "mb_over": "\u00e9" * (2 ** 19 + 1)}
BYTES = {"": b"", "00ff": b"\x00\xff", "L300": bytes(range(256)) + b"z" * 44, "toolong": b"q" * (2 ** 20 + 1)}


def concretise(t):
    F = fixtures()
    k, v, e = t["t"], t["v"], t["e"]
    if k == "int":
        return int(v)
    if k == "bool":
        return v == "T"
    if k == "none":
        return None
    if k == "float":
        return FLOATS[v]
    if k == "str":
        return STRS[v]
    if k == "bytes":
        return BYTES[v]
    if k == "enum":
        cls, member = v.split(".")
        return getattr(F[cls], member)
    if k == "bad":
        return complex(1, 2) if v == "complex" else object()
    if v == "overlong":
        n = 2 ** 14 + 1
        return list(range(n)) if k == "list" else set(range(n)) if k == "set" else {i: i for i in range(n)}
    if k == "list":
        return [concretise(x) for x in e]
    if k == "tuple":
        return tuple(concretise(x) for x in e)
    if k == "set":
        return set(concretise(x) for x in e)
    if k == "dict":
        return {concretise(kv["e"][0]): concretise(kv["e"][1]) for kv in e}
    if k == "obj":
        cls = F[v]
        o = cls()
        for name, x in zip(fields_of(cls), e):
            setattr(o, name, concretise(x))
        return o
    raise KeyError(k)


def _bits(x):
    return struct.pack(">d", x)


def abstract(v):
    """Python value -> term.  Unknown things become t='unknown' (never equal to a specification term)."""
    F = fixtures()
    S = F["S"]
    A = lambda t, x: dict(t=t, v=x, e=[])
    if v is None:
        return A("none", "")
    if isinstance(v, bool):
        return A("bool", "T" if v else "F")
    if isinstance(v, int):
        return A("int", str(v))
    if isinstance(v, float):
        for tok, x in list(FLOATS32.items()) + list(FLOATS.items()):
            if (math.isnan(x) and math.isnan(v)) or (not math.isnan(x) and _bits(x) == _bits(v)):
                return A("float", tok)
        return A("float", "other:%r" % v)
    if isinstance(v, str):
        for tok, x in STRS.items():
            if x == v:
                return A("str", tok)
        return A("str", "other")
    if isinstance(v, bytes):
        for tok, x in BYTES.items():
            if x == v:
                return A("bytes", tok)
        return A("bytes", "other")
    if isinstance(v, S.SerializableEnum):
        try:
            return A("enum", "%s.%s" % (type(v).__name__, v.name()))
        except Exception:
            return A("enum", "invalid")
    if isinstance(v, list):
        return dict(t="list", v="", e=[abstract(x) for x in v])
    if isinstance(v, tuple):
        return dict(t="tuple", v="", e=[abstract(x) for x in v])
    if isinstance(v, (set, frozenset)):
        return dict(t="set", v="", e=[abstract(x) for x in v])
    if isinstance(v, dict):
        return dict(t="dict", v="", e=[dict(t="kv", v="", e=[abstract(k), abstract(x)]) for k, x in v.items()])
    if isinstance(v, S.Serializable):
        return dict(t="obj", v=type(v).__name__, e=[abstract(getattr(v, f)) for f in fields_of(type(v))])
    return A("unknown", type(v).__name__)

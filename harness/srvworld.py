"""The real server loop (UdpServerThread.run behind TwistedServer.datagramReceived) in lock-step with the driver, real UdpClients
with fake sockets, virtual time, and a recorder.  No source hooks: module attributes (time, select, sleep, reactor) are rebound and
the handler / a stand-in for the queue condition hand a baton back to the driver, so exactly one of driver / server thread runs.

Events (now in 100 us units of the virtual clock):
  rx    {now, a (address id), n, blocked, kind, genuine, q (growth of the server queue)}
  tx    {now, a, n}
  h     {now, what, obj, a, token, tid, raised, tag}
  tick  {now, alive, conns:[address ids in ctxt.connections], temps:[...]}
  cstat {now, c (client id), a, status}
  csend {now, c, a}                 client emitted a datagram
  cfg   {...}                       first event: the configuration of the run
  stop  {now}                       shutdown requested;   end {now, alive}
"""
import threading, collections, random, os
import impl
from connworld import VClock


class Baton:
    def __init__(self):
        self.to_srv = threading.Semaphore(0)
        self.to_drv = threading.Semaphore(0)

    def srv_yield(self):
        self.to_drv.release()
        self.to_srv.acquire()

    dead = False          # the server loop has ended (shutdown, or an exception that escaped it: the tick events then report alive = 0)

    def drv_step(self, timeout=20):
        if self.dead:
            return
        self.to_srv.release()
        waited = 0.0
        while not self.to_drv.acquire(timeout=0.05):
            waited += 0.05
            if self.dead:
                return
            if waited >= timeout:
                raise RuntimeError("server thread did not hand the baton back")


class FakeCond:
    def __init__(self, lk, baton):
        self.lk, self.baton = lk, baton

    def __enter__(self):
        return self.lk.__enter__()

    def __exit__(self, *a):
        return self.lk.__exit__(*a)

    def wait(self, timeout=None):
        self.lk.release()
        self.baton.srv_yield()
        self.lk.acquire()

    def notify_all(self):
        pass


class FSock:
    def __init__(self, world, cid):
        self.world, self.cid = world, cid
        self.inbox = []

    def sendto(self, d, a):
        self.world.client_out(self.cid, bytes(d))

    def recvfrom(self, n):
        return self.inbox.pop(0), ("srv", 1)

    def close(self):
        pass


class ServerWorld:
    def __init__(self, seed=0, interval=1 / 60, conn_timeout=None, temp_timeout=None, keepalive=None, msg_timeout=None, blocklist=(), mtu=None,
                 handler_raise=0.0, echo=True, urandom=None, echo_deadline=0.6, late_config=False):
        self.C = C = impl.mod("connection")
        self.S = S = impl.mod("server")
        self.Tw = Tw = impl.mod("twisted")
        self.CL = CL = impl.mod("client")
        self.X = X = impl.mod("context")
        self.H = impl.mod("handler")
        self.rnd = random.Random(seed)
        self.vt = VClock(3_000_000_000)
        C.time = self.vt
        S.time = self.vt
        CL.time = self.vt
        self._saved = dict(sleep=S.sleep, reactor=getattr(Tw, "reactor", None), select=CL.select, urandom=X.os.urandom)
        S.sleep = lambda *a, **k: None
        if mtu:
            C.Packet.setMTU(mtu)
        self.ev = []
        self.baton = Baton()
        world = self
        self.objids = {}
        self.addrids = {}
        self.handler_raise = handler_raise
        self.echo = echo
        self.kick_tags = set()
        self.producer = {}         # datagram bytes -> id of the client that produced them (replays keep their producer)
        self.everbye = set()       # every address that ever said goodbye / was kicked / was closed by the application (never forgotten)
        everbye = self.everbye

        class _Bye(set):
            def add(s, a):
                everbye.add(a)
                set.add(s, a)
        self.goodbye = _Bye()      # addresses whose client said goodbye / was kicked: their disconnect is not a silence time-out
        self.stopped_req = False
        self.handed = {}           # (connection object, message bytes) -> times handed to handle_message
        self.uniq = 0
        self.raise_in = None       # restrict handler exceptions to these events (None: any)
        self.on_disconnect = None  # optional application behaviour inside the handler's disconnect event (e.g. "match over": close the other players)

        class Hn(self.H.EventHandler):
            def _maybe(s, what):
                if world.raise_in and what not in world.raise_in:
                    return
                if world.handler_raise and world.rnd.random() < world.handler_raise:
                    world.ev[-1]["raised"] = 1
                    raise RuntimeError("handler raises in " + what)

            def starting(s):
                world.hev("starting", None)

            def shutdown(s):
                world.hev("shutdown", None)

            def connect(s, client):
                world.hev("connect", client)
                if world.greet:
                    client.send(b"\x00\x00\x00\x00GREETING-from-the-server-" + bytes(range(64)))
                s._maybe("connect")

            def disconnect(s, client):
                world.hev("disconnect", client)
                if world.on_disconnect:
                    world.on_disconnect(client)
                s._maybe("disconnect")

            def handle_message(s, client, seqnum, msg=b""):
                world.hev("msg", client, bytes(msg))
                if msg[4:8] == b"KICK":
                    world.goodbye.add(client.addr)
                    client.disconnect()
                elif world.echo:
                    client.send(bytes(msg), retry=-1 if msg[4:8] == b"GUAR" else 0)
                s._maybe("handle_message")

            def update(s, dt):
                world.baton.srv_yield()
                if getattr(world, "broadcast", False):
                    # a game server: the world state goes to every connected client on every tick
                    for c in list(world.ctxt.connections.values()):
                        c.send(b"\x00\x00\x00\x00STATE-of-the-world-" + bytes(range(40)))
                s._maybe("update")
        self.handler = Hn()
        self.ctxt = X.ServerContext(self.handler)

        def configure():
            self.ctxt.setInterval(interval)
            if conn_timeout is not None:
                self.ctxt.setConnectionTimeout(conn_timeout)
            if temp_timeout is not None:
                self.ctxt.setTempConnectionTimeout(temp_timeout)
            if keepalive is not None:
                self.ctxt.setKeepAliveInterval(keepalive)
            if msg_timeout is not None:
                self.ctxt.setMessageTimeout(msg_timeout)
            if blocklist:
                self.ctxt.setBlockList(set(blocklist))
                self.block_cfg = set(blocklist)
        # the documentation asks for the configuration "prior to calling the run method": it may be made before or after the server object is built
        if not late_config:
            configure()
        if urandom is not None:
            X.os = type("OsProxy", (), {"urandom": staticmethod(urandom), "__getattr__": lambda s, k: getattr(os, k)})()
        Tw.reactor = type("R", (), {"callFromThread": staticmethod(lambda f, *a: f(*a))})
        self.srv = Tw.TwistedServer(self.ctxt, ("0.0.0.0", 1), install_signals=False)
        self.srv.transport = type("Tr", (), {"write": staticmethod(lambda d, a: world.server_out(bytes(d), a))})
        if late_config:
            configure()
        self.srv.thread.cv_queue = FakeCond(self.srv.thread.lk_queue, self.baton)
        self.clients = {}       # cid -> dict(cl, addr, sock, silent, tag)
        self.to_server = []     # (datagram, addr, kind, genuine)
        self.sent_to = collections.defaultdict(list)   # addr -> datagrams the server sent (attacker's view)
        self.seen_from = collections.defaultdict(list)  # addr -> genuine client datagrams (for replays)
        self.tick_us = int(round(interval * 1e6)) + 1
        self.tickno = 0
        self.delayed_in = []       # (due tick, datagram, addr, kind, genuine)
        self.delayed_out = []      # (due tick, datagram, addr)
        self.delivered_before = set()
        self.keys = {}
        self.greet = False
        self.ev.append(dict(ev="cfg", interval=int(interval * 1e4), conn_timeout=int(self.ctxt.connection_timeout * 1e4), temp_timeout=int(self.ctxt.temp_connection_timeout * 1e4),
                            keepalive=int(self.ctxt.keep_alive_interval * 1e4), msg_timeout=int(self.ctxt.outgoing_timeout * 1e4), tick=self.tick_us // 100,
                            blocked=[self.aid((ip, 0)) for ip in blocklist], echo_deadline=int(echo_deadline * 1e4)))
        def _loop():
            try:
                self.srv.thread.run()
            finally:
                self.baton.dead = True
        self.th = threading.Thread(target=_loop, daemon=True)
        self.th.start()
        self.baton.to_drv.acquire()
        self.stopped = False

    # ---------------------------------------------------------------- ids and time
    def now(self):
        return self.vt.us // 100

    def aid(self, addr):
        k = addr[0] if addr[1] == 0 else addr
        if k not in self.addrids:
            self.addrids[k] = len(self.addrids) + 1
        return self.addrids[k]

    def oid(self, obj):
        if obj is None:
            return 0
        if id(obj) not in self.objids:
            self.objids[id(obj)] = (len(self.objids) + 1, obj)      # keep the object alive so that ids are not re-used
        return self.objids[id(obj)][0]

    # ---------------------------------------------------------------- recording
    def hev(self, what, client, msg=b""):
        tag = int.from_bytes(msg[:4], "big") if len(msg) >= 4 else 0
        cause = ""
        if what == "disconnect":
            cause = "other" if (self.stopped_req or client.addr in self.goodbye) else "silence"
            self.goodbye.discard(client.addr)
        rep = 0
        if what == "msg":
            # how often this very message (same connection object, same bytes) was handed to the handler before: the drivers never send the same bytes twice
            key = (self.oid(client), bytes(msg))
            rep = self.handed.get(key, 0)
            self.handed[key] = rep + 1
        self.ev.append(dict(ev="h", now=self.now(), what=what, cause=cause, obj=self.oid(client), a=self.aid(client.addr) if client is not None else 0,
                            token=(client.token if client is not None else 0) % 1000003, tid=threading.get_ident() % 1000003, raised=0, tag=tag if tag < 2 ** 31 else 0,
                            n=len(msg), rep=rep))

    def sealed_for(self, d, addr):
        """1 if the datagram opens under the session key of the connection at that address (harness's own AES-GCM), 2 if it is a plain CRC datagram, 0 otherwise"""
        import struct as st
        self.note_keys()
        from cryptography.hazmat.primitives.ciphers.aead import AESGCM
        for key in self.keys.get(addr, ()):
            try:
                AESGCM(key).decrypt(d[:12], d[20:], d[:20])
                return 1
            except Exception:
                pass
        try:
            ln = st.unpack(">H", d[13:15])[0]
            body = d[:20 + ln]
            if st.unpack(">L", d[20 + ln:24 + ln])[0] == impl.mod("crypto").crc32(body):
                return 2
        except Exception:
            pass
        return 0

    def note_keys(self):
        """the session keys ever agreed for an address (key material only; the final DISCONNECT is sent after the connection left the pool)"""
        for pool in (self.ctxt.connections, self.ctxt.temp_connections):
            for a, conn in list(pool.items()):
                k = getattr(conn, "session_key_bytes", None)
                if k:
                    self.keys.setdefault(a, set()).add(bytes(k))

    def server_out(self, d, addr):
        self.ev.append(dict(ev="tx", now=self.now(), a=self.aid(addr), n=len(d), ptype=d[12] if len(d) > 12 else -1, count=d[15] if len(d) > 15 else -1,
                            sealed=self.sealed_for(d, addr), blocked=int(addr[0] in self.blocked_now())))      # (the block list as the operator configured it, NOW)
        self.sent_to[addr].append(d)
        for c in self.clients.values():
            if c["addr"] == addr and not c["deaf"]:
                if c.get("delay"):
                    self.delayed_out.append((self.tickno + c["delay"], d, addr))
                else:
                    c["sock"].inbox.append(d)

    def client_out(self, cid, d):
        c = self.clients[cid]
        # how the client's datagram is protected, by the harness's own reading: 1 = opens under the client's session key, 2 = plain with a valid CRC, 0 = neither
        sealed = 0
        conn = c["cl"].conn
        key = getattr(conn, "session_key_bytes", None) if conn is not None else None
        if key:
            try:
                from cryptography.hazmat.primitives.ciphers.aead import AESGCM
                AESGCM(key).decrypt(d[:12], d[20:], d[:20])
                sealed = 1
            except Exception:
                pass
        if not sealed:
            try:
                import struct as st
                ln = st.unpack(">H", d[13:15])[0]
                body = d[:20 + ln]
                if st.unpack(">L", d[20 + ln:24 + ln])[0] == impl.mod("crypto").crc32(body):
                    sealed = 2
            except Exception:
                pass
        self.ev.append(dict(ev="csend", now=self.now(), c=cid, a=self.aid(c["addr"]), n=len(d), ptype=d[12] if len(d) > 12 else -1, count=d[15] if len(d) > 15 else -1, sealed=sealed))
        self.seen_from[c["addr"]].append(d)
        self.producer[d] = cid
        if not c["cut"]:
            if c.get("delay"):
                self.delayed_in.append((self.tickno + c["delay"], d, c["addr"], "client", cid))
            else:
                self.to_server.append((d, c["addr"], "client", cid))

    # ---------------------------------------------------------------- environment actions
    def add_client(self, cid, addr, keepalive=None, conn_timeout=None, msg_timeout=None, callback=None, pubkey="server", setters_after=()):
        CL = self.CL
        key = self.ctxt.server_root_key.getPublicKey() if pubkey == "server" else pubkey
        cl = CL.UdpClient(key)
        sock = FSock(self, cid)
        cl._make_socket = lambda a: sock
        if keepalive is not None:
            cl.setKeepAliveInterval(keepalive)
        if conn_timeout is not None:
            cl.setConnectionTimeout(conn_timeout)
        if msg_timeout is not None:
            cl.setMessageTimeout(msg_timeout)
        self.clients[cid] = dict(cl=cl, addr=addr, sock=sock, cut=False, deaf=False, tag=cid, status=None, got=[], cb=[],
                                 conf=dict(ka=keepalive if keepalive is not None else 0.1, ct=conn_timeout if conn_timeout is not None else 2.0,
                                           mt=msg_timeout if msg_timeout is not None else 1.0), hascb=bool(callback))
        world = self

        class Sel:
            @staticmethod
            def select(r, w, x, t):
                s = r[0]
                return ([s] if s.inbox else [], w, [])
        CL.select = Sel
        conf = self.clients[cid]["conf"]       # what the user configured (the harness's own record, not the library's attributes)
        self.ev.append(dict(ev="cnew", now=self.now(), c=cid, a=self.aid(addr), connTimeout=int(round(conf["ct"] * 1e4)), hascb=int(bool(callback)),
                            ka=int(round(conf["ka"] * 1e4)), mt=int(round(conf["mt"] * 1e4)), period=int(self.tick_us * self.client_every // 100)))
        if callback == "login":
            # the usual pattern: the application sends its first request from inside the connect callback - it travels in the same datagram as the challenge response
            def cb(ok):
                world.clients[cid]["cb"].append(bool(ok))
                if ok:
                    world.request(cid, 900000 + cid)
        else:
            cb = (lambda ok: world.clients[cid]["cb"].append(bool(ok))) if callback else None
        cl.connect(("srv", 1), cb) if callback else cl.connect(("srv", 1))
        if cl.conn is not None:
            cl.conn.clock = self.vt.time
        return cl

    def set_client(self, cid, what, v):
        """what: ka | mt | ct  (keep-alive interval, message time-out, connection time-out), through the public setters"""
        cl = self.clients[cid]["cl"]
        err = ""
        try:
            {"ka": cl.setKeepAliveInterval, "mt": cl.setMessageTimeout, "ct": cl.setConnectionTimeout}[what](v)
        except Exception as e:
            err = type(e).__name__
        self.clients[cid]["conf"][what] = v
        self.ev.append(dict(ev="cset", now=self.now(), c=cid, what=what, v=int(round(v * 1e4)), err=err))

    def reconnect(self, cid):
        """connect() again on the same UdpClient (the usual retry after a failed attempt): the configured settings must govern the new attempt"""
        c = self.clients[cid]
        c["cb"] = []
        cb = (lambda ok: c["cb"].append(bool(ok))) if c["hascb"] else None
        conf = c["conf"]
        self.ev.append(dict(ev="cnew", now=self.now(), c=cid, a=self.aid(c["addr"]), connTimeout=int(round(conf["ct"] * 1e4)), hascb=int(c["hascb"]),
                            ka=int(round(conf["ka"] * 1e4)), mt=int(round(conf["mt"] * 1e4)), period=int(self.tick_us * self.client_every // 100)))
        c["status"] = None
        c["cl"].connect(("srv", 1), cb) if cb else c["cl"].connect(("srv", 1))
        if c["cl"].conn is not None:
            c["cl"].conn.clock = self.vt.time

    def client_send(self, cid, payload, retry=0, report=False):
        """send through the public API; with report=True the callback becomes a ccb event (C12 message time-out)"""
        c = self.clients[cid]
        sent = self.now()
        cb = (lambda ok: self.ev.append(dict(ev="ccb", now=self.now(), c=cid, val=int(bool(ok)), sent=sent))) if report else None
        c["cl"].send(payload, retry=retry, callback=cb)

    def request(self, cid, rid):
        """canary request: a guaranteed message that the echo handler sends back"""
        c = self.clients[cid]
        self.ev.append(dict(ev="req", now=self.now(), c=cid, id=rid))
        c["cl"].send(self.aid(c["addr"]).to_bytes(4, "big") + b"GUAR" + rid.to_bytes(4, "big"), retry=-1)

    block_cfg = None      # the operator's own record of what was configured through the setter (None: read the context's attribute)

    def set_blocklist(self, entries):
        """through the public setter; the harness remembers the operator's strings - the transport reports peers in exactly these spellings"""
        self.block_cfg = set(entries)
        self.ctxt.setBlockList(set(entries))

    def blocked_now(self):
        return self.block_cfg if self.block_cfg is not None else self.ctxt.blocklist

    client_every = 1        # the application polls its client every n-th world tick ...
    one_update = False      # ... with exactly one update() per poll (the documented "once per game frame"), instead of once per arrived datagram plus one

    def cut_client(self, cid):
        """the environment silences the link of this client in both directions from now on"""
        c = self.clients[cid]
        c["cut"] = True
        c["deaf"] = True
        self.ev.append(dict(ev="ccut", now=self.now(), c=cid, period=int(self.tick_us * self.client_every // 100)))

    def resend_challenge(self, cid):
        """an honest client transmits its challenge response again, as a FRESH message (new datagram and message numbers, sealed under the session key,
        the right token) - what a client does that is not sure its first one arrived.  The handshake is long over: nothing may happen twice."""
        C = self.C
        conn = self.clients[cid]["cl"].conn
        if conn is None or not conn.session_key_bytes:
            return False
        reply = C.HandshakeClientChallengeResponseMessage()
        reply.token = conn.token
        conn._send_type(C.PacketType.CHALLENGE_RESP, reply.dumpb(), C.RetryMode.NONE, None)
        self.ev.append(dict(ev="rechal", now=self.now(), c=cid))
        return True

    def inner_hello(self, cid):
        """a connected peer (it completed the handshake honestly - that needs no credentials) sends ONE sealed datagram that bundles an application message
        with a CLIENT_HELLO-typed message carrying a fresh public key.  The datagram is genuine and must be accepted; the hello inside it is not a handshake."""
        C = self.C
        c = self.clients[cid]
        conn = c["cl"].conn
        if conn is None or not conn.session_key_bytes:
            return False
        self.uniq += 1
        conn._send_type(C.PacketType.APP, self.aid(c["addr"]).to_bytes(4, "big") + b"DATA" + self.uniq.to_bytes(4, "big"), C.RetryMode.NONE, None)      # (12 bytes: both messages fit one datagram)
        hello = C.HandshakeClientHelloMessage()
        hello.client_pubkey = impl.mod("crypto").EllipticCurvePrivateKey.new().getPublicKey()
        hello.client_version = conn.version
        conn._send_type(C.PacketType.CLIENT_HELLO, hello.dumpb(), C.RetryMode.NONE, None)
        self.ev.append(dict(ev="innerhello", now=self.now(), c=cid))
        return True

    def remove_client(self, cid):
        self.ev.append(dict(ev="cgone", now=self.now(), c=cid))
        del self.clients[cid]

    def client_disconnect(self, cid):
        c = self.clients[cid]
        self.goodbye.add(c["addr"])
        c["cl"].disconnect()

    def inject(self, d, addr, kind="garbage", genuine=0):
        self.to_server.append((bytes(d), addr, kind, genuine))

    def client_tick(self, cid):
        c = self.clients[cid]
        cl = c["cl"]
        err = ""
        nin = len(c["sock"].inbox)
        r0 = cl.stats().received
        try:
            for _ in range(1 if self.one_update else len(c["sock"].inbox) + 1):
                cl.update()
        except Exception as e:
            err = type(e).__name__
        if nin:
            self.ev.append(dict(ev="crx", now=self.now(), c=cid, n=nin, acc=cl.stats().received - r0))
        for _, m in cl.getMessages():
            m = bytes(m)
            c["got"].append(m)
            if m[4:8] == b"GUAR" and len(m) == 12:
                self.ev.append(dict(ev="rsp", now=self.now(), c=cid, id=int.from_bytes(m[8:12], "big")))
        st = cl.status().value
        if st != c["status"] or err:
            c["status"] = st
            # asked: the application (either side) closed this connection, the server is being shut down, or the link was cut by the environment
            asked = int(c["addr"] in self.everbye or self.stopped_req or bool(c.get("leaving")) or bool(c["cut"]) or bool(c["deaf"]))
            self.ev.append(dict(ev="cstat", now=self.now(), c=cid, a=self.aid(c["addr"]), status=st, err=err, cbs=len(c["cb"]), cbtrue=sum(c["cb"]), asked=asked))

    def tick(self, deliver=True, loss=0.0):
        """Advance one server interval: clients update, their datagrams reach datagramReceived, one server loop iteration runs."""
        k = max(1, int(getattr(self, "client_substeps", 1)))      # a game client runs at its frame rate, whatever the server's tick is
        self.tickno += 1
        for sub in range(k):
            self.vt.us += self.tick_us // k + (self.tick_us % k if sub == k - 1 else 0)
            if sub == 0:
                for x in [x for x in self.delayed_out if x[0] <= self.tickno]:
                    for c in self.clients.values():
                        if c["addr"] == x[2] and not c["deaf"]:
                            c["sock"].inbox.append(x[1])
                self.delayed_out = [x for x in self.delayed_out if x[0] > self.tickno]
            if self.tickno % self.client_every == 0:
                for cid in list(self.clients):
                    self.client_tick(cid)
        self.to_server += [x[1:] for x in self.delayed_in if x[0] <= self.tickno]
        self.delayed_in = [x for x in self.delayed_in if x[0] > self.tickno]
        pend = self.to_server
        self.to_server = []
        if deliver:
            for d, addr, kind, genuine in pend:
                if loss and kind == "client" and self.rnd.random() < loss:
                    continue
                q0 = len(self.srv.thread.queue)
                blocked = int(addr[0] in self.blocked_now())
                self.srv.datagramReceived(d, addr)
                dupe = int((d, addr) in self.delivered_before)      # these exact bytes reached the server from this address before: a true duplicate
                self.delivered_before.add((d, addr))
                self.ev.append(dict(ev="rx", now=self.now(), a=self.aid(addr), n=len(d), blocked=blocked, kind=kind, dupe=dupe, genuine=int(kind == "client"), c=int(genuine) if kind == "client" else self.producer.get(d, 0), q=len(self.srv.thread.queue) - q0,
                                    ptype=d[12] if len(d) > 12 else -1))
        self.note_keys()
        if not self.stopped:
            self.baton.drv_step()
        self.note_keys()
        self.ev.append(dict(ev="tick", now=self.now(), alive=int(self.th.is_alive()), conns=sorted(self.aid(a) for a in self.ctxt.connections),
                            temps=sorted(self.aid(a) for a in self.ctxt.temp_connections)))

    def shutdown(self):
        self.ev.append(dict(ev="stop", now=self.now()))
        self.stopped = True
        self.stopped_req = True
        self.ctxt.shutdown()
        self.baton.to_srv.release()
        self.th.join(10)
        self.ev.append(dict(ev="end", now=self.now(), alive=int(self.th.is_alive())))

    def close(self):
        if not self.stopped:
            try:
                self.shutdown()
            except Exception:
                pass
        import time as _t
        self.C.time = _t
        self.S.time = _t
        self.CL.time = _t
        self.S.sleep = self._saved["sleep"]
        self.Tw.reactor = self._saved["reactor"]
        self.CL.select = self._saved["select"]
        self.X.os = os
        self.C.Packet.setMTU(1500)

"""Parser for TLA+ values as printed by TLC (state dumps, -simulate files, dot labels).

Values map to Python: ints, bools, str, tuple (sequences), frozenset (sets),
dict (records and functions; record keys are str), ModelValue (bare identifiers).
"""
import re


class ModelValue(str):
    def __repr__(self):
        return "MV(%s)" % str.__repr__(self)


_tok = re.compile(r'''\s*(?:
    (?P<int>-?\d+)|
    (?P<str>"(?:[^"\\]|\\.)*")|
    (?P<op><<|>>|\|->|:>|@@|\.\.|[\[\]{}(),])|
    (?P<id>[A-Za-z_][A-Za-z0-9_!]*)
)''', re.X)


def _tokens(s):
    pos = 0
    out = []
    n = len(s)
    while pos < n:
        m = _tok.match(s, pos)
        if not m:
            if s[pos:].strip() == "":
                break
            raise ValueError("bad TLA value at %r" % s[pos:pos + 40])
        pos = m.end()
        k = m.lastgroup
        out.append((k, m.group(k)))
    return out


def _unescape(s):
    return s[1:-1].replace('\\"', '"').replace('\\\\', '\\').replace('\\n', '\n').replace('\\t', '\t')


class _P:
    def __init__(self, toks):
        self.t = toks
        self.i = 0

    def peek(self):
        return self.t[self.i] if self.i < len(self.t) else (None, None)

    def take(self, v=None):
        k, x = self.peek()
        if v is not None and x != v:
            raise ValueError("expected %r got %r" % (v, x))
        self.i += 1
        return k, x

    def value(self):
        v = self.atom()
        k, x = self.peek()
        if x == "..":
            self.take()
            hi = self.atom()
            return frozenset(range(v, hi + 1))
        return v

    def atom(self):
        k, x = self.take()
        if k == "int":
            return int(x)
        if k == "str":
            return _unescape(x)
        if k == "id":
            if x == "TRUE":
                return True
            if x == "FALSE":
                return False
            return ModelValue(x)
        if x == "<<":
            out = []
            while self.peek()[1] != ">>":
                out.append(self.value())
                if self.peek()[1] == ",":
                    self.take()
            self.take(">>")
            return tuple(out)
        if x == "{":
            out = []
            while self.peek()[1] != "}":
                out.append(self.value())
                if self.peek()[1] == ",":
                    self.take()
            self.take("}")
            return frozenset(_freeze(v) for v in out)
        if x == "[":
            d = {}
            while self.peek()[1] != "]":
                _, name = self.take()
                self.take("|->")
                d[name] = self.value()
                if self.peek()[1] == ",":
                    self.take()
            self.take("]")
            return d
        if x == "(":
            d = {}
            while True:
                key = self.value()
                self.take(":>")
                d[_freeze(key)] = self.value()
                if self.peek()[1] == "@@":
                    self.take()
                    continue
                break
            self.take(")")
            return d
        raise ValueError("unexpected token %r" % x)


class FrozenDict(dict):
    def __hash__(self):
        return hash(frozenset(self.items()))


def _freeze(v):
    if isinstance(v, dict):
        return FrozenDict((k, _freeze(x)) for k, x in v.items())
    if isinstance(v, (list, tuple)):
        return tuple(_freeze(x) for x in v)
    if isinstance(v, (set, frozenset)):
        return frozenset(_freeze(x) for x in v)
    return v


def parse_value(s):
    p = _P(_tokens(s))
    v = p.value()
    if p.i != len(p.t):
        raise ValueError("trailing tokens in %r" % s[:80])
    return v


_conj = re.compile(r'^\s*(?:/\\\s*)?([A-Za-z_][A-Za-z0-9_]*)\s*=\s*', re.M)


def parse_state(text):
    """Parse '/\\ x = v\n/\\ y = w' (values may span lines) into a dict."""
    out = {}
    ms = list(re.finditer(r'(?:^|\n)\s*/\\\s*([A-Za-z_][A-Za-z0-9_]*)\s*=', text))
    if not ms:
        m = _conj.match(text)
        if not m:
            raise ValueError("not a state: %r" % text[:80])
        out[m.group(1)] = parse_value(text[m.end():])
        return out
    for i, m in enumerate(ms):
        end = ms[i + 1].start() if i + 1 < len(ms) else len(text)
        out[m.group(1)] = parse_value(text[m.end():end])
    return out


def to_json(v):
    """Convert a parsed value into something json.dumps accepts (sets -> sorted lists)."""
    if isinstance(v, dict):
        return {str(k): to_json(x) for k, x in v.items()}
    if isinstance(v, tuple):
        return [to_json(x) for x in v]
    if isinstance(v, frozenset):
        try:
            return sorted(to_json(x) for x in v)
        except TypeError:
            return [to_json(x) for x in v]
    return v

"""Generic driver for trace specifications that report one "ACCEPT ..."/"REJECT ..." line per trace (Trace_Server, Trace_Conn style)."""
import json, os, shutil
from concurrent.futures import ThreadPoolExecutor
import tlc as T
from tlaval import to_json, parse_value
from core import Machinery


def judge(ctx, module, cfg, traces, label, per_jvm=15000, heap="3g"):
    wd = T.workdir("tj")
    try:
        order = sorted(range(len(traces)), key=lambda i: -len(traces[i]))
        nproc = max(1, min(10, len(traces), (sum(len(t) for t in traces) // per_jvm) + 1))
        chunks = [[] for _ in range(nproc)]
        load = [0] * nproc
        for i in order:
            k = load.index(min(load))
            chunks[k].append(i)
            load[k] += len(traces[i]) + 500
        paths = []
        for k, ch in enumerate(chunks):
            path = os.path.join(wd, "traces%d.json" % k)
            open(path, "w").write(json.dumps([traces[i] for i in ch]))
            paths.append(path)

        def one(k):
            return T.run(module, cfg, env=dict(TRACE_FILE=paths[k]), heap=heap, workers=1, timeout=3000, parse_states="last", gcthreads=2, coverage=False)
        with ThreadPoolExecutor(nproc) as ex:
            results = list(ex.map(one, range(nproc)))
        rej, acc = [], []
        gen = dist = 0
        wall = 0.0
        for k, r in enumerate(results):
            gen += r.generated
            dist += r.distinct
            wall = max(wall, r.wall_s)
            if r.violation:
                raise Machinery("%s judge failed: %s" % (module, r.violation["text"][:2000]))
            if not r.ok:
                raise Machinery("%s judge did not finish: %s" % (module, r.out[-1500:]))
            verdicts = 0
            for line in r.printed:
                if line.startswith('"REJECT '):
                    st = to_json(parse_value(parse_value(line)[7:]))
                    verdicts += 1
                    st["tid"] = chunks[k][st["tid"] - 1] + 1
                    rej.append(st)
                elif line.startswith('"ACCEPT '):
                    st = to_json(parse_value(parse_value(line)[7:]))
                    verdicts += 1
                    st["tid"] = chunks[k][st["tid"] - 1] + 1
                    acc.append(st)
            if verdicts != len(chunks[k]):
                raise Machinery("%s judge: %d verdict lines for %d traces" % (module, verdicts, len(chunks[k])))
        ctx.tlc_runs.append(dict(module=module, label=label, jvms=nproc, generated=gen, distinct=dist, wall_s=round(wall, 2)))
        ctx.states += dist
        ctx.transitions += gen
        return rej, acc
    finally:
        shutil.rmtree(wd, ignore_errors=True)

"""Access to the implementation under test (always the current working tree of $VERIF_REPO)."""
import os, sys, importlib, logging

REPO = os.environ.get("VERIF_REPO", "/repo")
if REPO not in sys.path[:1]:
    sys.path.insert(0, REPO)
logging.disable(logging.CRITICAL)

MISSING = object()


def mod(name):
    m = importlib.import_module("mpgameserver." + name)
    f = os.path.abspath(getattr(m, "__file__", ""))
    if not f.startswith(os.path.abspath(REPO) + os.sep):
        raise RuntimeError("mpgameserver.%s imported from %s, not from %s" % (name, f, REPO))
    return m


def offsets(bits, nbits):
    """int bitmap -> sorted offsets d (1 = newest-but-one) with bit (onehot >> (d-1)) set."""
    onehot = 1 << (nbits - 1)
    return [d for d in range(1, nbits + 1) if bits & (onehot >> (d - 1))]


def from_offsets(offs, nbits):
    onehot = 1 << (nbits - 1)
    v = 0
    for d in offs:
        v |= onehot >> (d - 1)
    return v

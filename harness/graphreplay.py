"""Replay every transition of a TLC state graph into a real object (state-equality binding).

The specification may be nondeterministic (several successors for the same operation): the real
object must land on one of them.  Each state is reached by the shortest operation path from Init on
a fresh object; then every outgoing operation of that state is tried once on a fresh replay.
"""
from collections import defaultdict, deque
from tlaval import _freeze


def replay_graph(states, edges, init, make, apply_op, op_of, canon, max_paths=None, on_case=None):
    """
    op_of(dst_state)        -> hashable operation descriptor (taken from the spec's `last` variable)
    apply_op(obj, op)       -> canonical observation of the real object after the operation
    canon(dst_state)        -> canonical observation expected by the specification
    Returns (n_transitions_checked, mismatches[list of dict]).
    """
    succ = defaultdict(lambda: defaultdict(list))   # src -> op -> [dst]
    for s, _lab, d in edges:
        succ[s][op_of(states[d])].append(d)
    # shortest paths
    path = {}
    dq = deque()
    for i in init:
        path[i] = []
        dq.append(i)
    while dq:
        s = dq.popleft()
        for op, dsts in succ[s].items():
            for d in dsts:
                if d not in path:
                    path[d] = path[s] + [(op, d)]
                    dq.append(d)
    mismatches = []
    n = 0
    for s in path:
        for op, dsts in succ[s].items():
            obj = make()
            ok = True
            cur = None
            for pop, pd in path[s]:
                obs = apply_op(obj, pop)
                cur = pd
                if obs != canon(states[pd]):
                    # the path itself diverged; it is reported when that transition is the one under test
                    ok = False
                    break
            if not ok:
                continue
            obs = apply_op(obj, op)
            n += 1
            allowed = [canon(states[d]) for d in dsts]
            if on_case:
                on_case(s, op)
            if obs not in allowed:
                mismatches.append(dict(path=[_j(p[0]) for p in path[s]], op=_j(op), observed=_j(obs),
                                       allowed=[_j(a) for a in allowed[:4]]))
            if max_paths and n >= max_paths:
                return n, mismatches
    return n, mismatches


def _j(x):
    if isinstance(x, (tuple, list)):
        return [_j(y) for y in x]
    if isinstance(x, (set, frozenset)):
        return sorted((_j(y) for y in x), key=repr)
    if isinstance(x, dict):
        return {str(k): _j(v) for k, v in x.items()}
    return x

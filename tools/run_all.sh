#!/bin/sh
# tools/run_all.sh [quick|thorough] [ids...] : run the registered checks, one line per check
cd "$(dirname "$0")/.."
TIER=${1:-quick}; shift 2>/dev/null
IDS="$@"
[ -z "$IDS" ] && IDS=$(/venv/bin/python -c "import json; print(' '.join(c['property_id'] for c in json.load(open('MANIFEST.json'))['checks']))")
for id in $IDS; do
  s=$(date +%s)
  out=$(./check $id --tier $TIER 2>&1); rc=$?
  e=$(date +%s)
  echo "$id rc=$rc $((e-s))s $(echo "$out" | grep -E '^(OK|VIOLATION|KNOWN-FINDING|MACHINERY)' | cut -c1-160 | tr '\n' '|')"
done

#!/venv/bin/python
"""Regenerate /verif/MANIFEST.json from the table below (one entry per claimed property)."""
import json, os, sys
HERE = os.path.dirname(os.path.dirname(os.path.abspath(__file__)))
sys.path.insert(0, os.path.join(HERE, "tools"))
from manifest_data import CHECKS, NOT_APPLICABLE, HOOK_COMMITS, NOTES

props = [json.loads(l) for l in open(os.path.join(HERE, "properties.jsonl"))]
ids = [p["id"] for p in props]
checks = []
for pid in ids:
    if pid not in CHECKS:
        continue
    c = CHECKS[pid]
    checks.append(dict(
        property_id=pid,
        quick_cmd="./check %s --tier quick" % pid,
        thorough_cmd="./check %s --tier thorough" % pid,
        evidence_file="/verif/evidence/%s.json" % pid,
        replay_cmd_template="./check %s --replay {path}" % pid,
        engine="tlc",
        level_claimed=dict(category=c["level"], text=c["text"], design_ref=c.get("design_ref", "DESIGN.md section 3, " + pid)),
        level_note=c["note"],
        technique=c["technique"]))
na = [dict(property_id=pid, reason=NOT_APPLICABLE.get(pid, "check not built yet in this round; planned (DESIGN.md section 3)"))
      for pid in ids if pid not in CHECKS]
man = dict(
    version=1,
    setup_cmd="sh ./setup.sh",
    hooks=dict(guard="MPGAMESERVER_VERIF",
               enable="no source hooks are needed: the harness wraps public calls and rebinds module attributes (time, select, crypto.encrypt_gcm) from outside; MPGAMESERVER_VERIF is reserved",
               baseline_off_cmd="cd /repo && /venv/bin/python -m pytest -ra -q -p no:cacheprovider --timeout=900 --continue-on-collection-errors",
               source_commits=HOOK_COMMITS, add_only=True),
    engines=[dict(name="tlc", path="/verif/check", serves_properties=[c["property_id"] for c in checks],
                  kind_free_text="explicit TLA+ specifications (specs/) model-checked with TLC, bound to the code by replaying TLC-generated transitions/behaviours into the real objects and by validating traces / observation tables recorded from the real code against the specifications"),
             dict(name="apalache", path="/verif/check", serves_properties=["C08"],
                  kind_free_text="symbolic check (apalache-mc, length 0) of the SeqRing laws for all positions of the real 65535-ring (specs/ApaSeqRing.tla); one step of the C08 check"),
             dict(name="tlc-extensions", path="/verif/check", serves_properties=[],
                  kind_free_text="extension specifications beyond the listed properties (DESIGN.md section 8): ./check X01..X12 --tier quick|thorough - TaskPool.tla (thread interleaving at access grain), RateLimit.tla/Lru.tla, Http.tla/HttpConn.tla, Input.tla, HttpClient.tla, ClientLife.tla, Entities.tla/EventQ.tla, Animation.tla, StatsOps.tla/Stats.tla/Trace_Stats.tla (connection statistics), InputDevice.tla, Crypto.tla, DummyLink.tla; same exit-code contract, evidence/X0n.json")],
    checks=checks,
    notes=NOTES,
    not_applicable=na)
json.dump(man, open(os.path.join(HERE, "MANIFEST.json"), "w"), indent=1)
print("MANIFEST.json: %d checks, %d not_applicable" % (len(checks), len(na)))

#!/bin/bash
# tools/benign_eval.sh <worktree with a behaviour-preserving change applied> <name> <check ids...>
# Runs quick checks against a tree that differs from /repo only by maintenance changes that keep every property: any VIOLATION here is a false alarm,
# any exit code 2 a check that depends on incidental structure of the code.
W=$1; NAME=$2; shift 2
cd /verif
mkdir -p benign/$NAME
( cd $W && git diff -- mpgameserver ) > benign/$NAME/patch.diff
if [ -n "$SKIP_SUITE" ]; then T="(not re-run)"; else T=$(cd $W && /venv/bin/python -m pytest -q -p no:cacheprovider --timeout=900 2>&1 | tail -1); fi
echo "suite: $T" | tee benign/$NAME/result.txt
for c in "$@"; do
  s=$(date +%s)
  out=$(VERIF_REPO=$W VERIF_EVIDENCE_DIR=/var/tmp/seed-evidence/b-$NAME VERIF_REPLAY_DIR=/var/tmp/seed-replays/b-$NAME ./check $c --tier quick 2>&1); rc=$?
  e=$(date +%s)
  echo "check $c rc=$rc $((e-s))s $(echo "$out" | grep -m1 -E '^  clause|^MACHINERY' | cut -c1-300)" | tee -a benign/$NAME/result.txt
done
rm -rf /var/tmp/seed-evidence/b-$NAME /var/tmp/seed-replays/b-$NAME

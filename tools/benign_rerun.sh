#!/bin/bash
# tools/benign_rerun.sh [names...] - applies each recorded behaviour-preserving patch (benign/<name>/patch.diff) to a fresh scratch worktree of /repo's HEAD and runs
# the checks listed in its result.txt again (SKIP_SUITE=1 keeps the recorded suite line).  Used after the checks were strengthened: every line must stay rc=0.
cd /verif
NAMES=${@:-$(ls benign)}
for n in $NAMES; do
  [ -f benign/$n/patch.diff ] || continue
  W=/var/tmp/benign-$n
  git -C /repo worktree remove --force $W 2>/dev/null
  git -C /repo worktree add --detach $W HEAD -q || continue
  cp benign/$n/patch.diff /var/tmp/benign-$n.diff
  suite=$(grep -m1 '^suite:' benign/$n/result.txt)
  checks=$(grep '^check ' benign/$n/result.txt | awk '{print $2}' | tr '\n' ' ')
  if ( cd $W && git apply --whitespace=nowarn /var/tmp/benign-$n.diff 2>/dev/null || git apply --3way --whitespace=nowarn /var/tmp/benign-$n.diff 2>/dev/null ); then
    SKIP_SUITE=1 tools/benign_eval.sh $W $n $checks > /dev/null
    cp /var/tmp/benign-$n.diff benign/$n/patch.diff
    sed -i "1s/.*/$(echo "$suite" | sed 's/[\/&]/\\&/g')/" benign/$n/result.txt
    echo "== $n"; cat benign/$n/result.txt
  else
    echo "== $n: patch no longer applies to HEAD"
  fi
  git -C /repo worktree remove --force $W
  rm -f /var/tmp/benign-$n.diff
done

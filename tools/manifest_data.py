HOOK_COMMITS = []
NOTES = ("Every check is `./check <ID> --tier quick|thorough`; exit 0 held, 1 VIOLATION, 2 machinery failure. "
         "Specifications are in specs/, drivers in harness/props/. Known findings are listed in KNOWN_FINDINGS.txt.")
NOT_APPLICABLE = {}
CHECKS = {
 "C08": dict(
    level="model_checking",
    technique="TLC exhaustive model checking of SeqRing/BitWindow + replay of every TLC transition into BitField + TLC trace validation of recorded BitField histories + TLC-judged SeqNum table",
    text=("Ring laws checked by TLC on every pair of positions for small rings; the window structure checked against a set-arithmetic ghost for "
          "every insertion history within the bound (small rings and the real ring with W=8). Bound to the code three ways: every transition TLC "
          "explored at M=65535/W=8 is replayed into the real BitField, TLC simulation walks at W=16..256 are replayed step by step, long random "
          "histories of the real BitField are validated by Trace_BitWindow, and a table of real SeqNum results is judged by TLC. Model checking is the "
          "right level: the structure is a small state machine and the property quantifies over its histories."),
    note=("Exhaustive only within the stated bounds (positions within W+3 of the newest, W=8 at the real ring); larger widths are sampled by walks and "
          "recorded traces. TLC, the JSON bridge and the projection of BitField.bits to offset sets are trusted. <=/>= on SeqNum are not constrained.")),
}

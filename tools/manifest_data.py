HOOK_COMMITS = []
NOTES = ("Every check is `./check <ID> --tier quick|thorough`; exit 0 held, 1 VIOLATION, 2 machinery failure. "
         "Specifications are in specs/, drivers in harness/props/. Known findings are listed in KNOWN_FINDINGS.txt.")
NOT_APPLICABLE = {}
CHECKS = {
 "C08": dict(
    level="model_checking",
    technique="TLC exhaustive model checking of SeqRing/BitWindow + replay of every TLC transition into BitField + TLC trace validation of recorded BitField histories + TLC-judged SeqNum table",
    text=("Ring laws checked by TLC on every pair of positions for small rings; the window structure checked against a set-arithmetic ghost for "
          "every insertion history within the bound (small rings and the real ring with W=8). Bound to the code three ways: every transition TLC "
          "explored at M=65535/W=8 is replayed into the real BitField, TLC simulation walks at W=16..256 are replayed step by step, long random "
          "histories of the real BitField are validated by Trace_BitWindow, and a table of real SeqNum results is judged by TLC. Model checking is the "
          "right level: the structure is a small state machine and the property quantifies over its histories."),
    note=("Exhaustive only within the stated bounds (positions within W+3 of the newest, W=8 at the real ring); larger widths are sampled by walks and "
          "recorded traces. TLC, the JSON bridge and the projection of BitField.bits to offset sets are trusted. <=/>= on SeqNum are not constrained.")),
 "C20": dict(
    level="model_checking",
    technique="TLC exhaustive model checking of Dispatch + replay of every transition of the TLC state graph into both real dispatchers (state equality)",
    text=("The dispatcher is a small table machine; TLC explores every register/unregister/dispatch sequence over three resources with shared "
          "classes (7 operations deep in the thorough tier) and checks the routing and inverse laws; the complete labelled state graph is then replayed "
          "transition by transition into ServerMessageDispatcher and ClientMessageDispatcher, comparing the table, the outcome and the handler "
          "actually invoked (with its arguments) against the specification state."),
    note=("Three fixture resources, four classes, one unknown class; class vs postponed string annotations are mixed in the fixtures. What a refused "
          "register leaves behind and whether unregister of a non-owner raises are left unspecified.")),
}

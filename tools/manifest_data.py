HOOK_COMMITS = []
NOTES = ("Every check is `./check <ID> --tier quick|thorough`; exit 0 held, 1 VIOLATION, 2 machinery failure. "
         "Specifications are in specs/, drivers in harness/props/. Known findings are listed in KNOWN_FINDINGS.txt. "
         "Extension checks X01..X05 (not listed properties) run the same way; seeded changes and what catches them are under seeded/ (MATRIX.tsv).")
NOT_APPLICABLE = {}
CHECKS = {
 "C08": dict(
    level="model_checking",
    technique="TLC exhaustive model checking of SeqRing/BitWindow + replay of every TLC transition into BitField + TLC trace validation of recorded BitField histories + TLC-judged SeqNum table",
    text=("Ring laws checked by TLC on every pair of positions for small rings; the window structure checked against a set-arithmetic ghost for "
          "every insertion history within the bound (small rings and the real ring with W=8). Bound to the code three ways: every transition TLC "
          "explored at M=65535/W=8 is replayed into the real BitField, TLC simulation walks at W=16..256 are replayed step by step, long random "
          "histories of the real BitField are validated by Trace_BitWindow, and a table of real SeqNum results is judged by TLC. Model checking is the "
          "right level: the structure is a small state machine and the property quantifies over its histories."),
    note=("Exhaustive only within the stated bounds (positions within W+3 of the newest, W=8 at the real ring); larger widths are sampled by walks and "
          "recorded traces. TLC, the JSON bridge and the projection of BitField.bits to offset sets are trusted. <= and >= on SeqNum are judged too (since the second build session).")),
 "C20": dict(
    level="model_checking",
    technique="TLC exhaustive model checking of Dispatch + replay of every transition of the TLC state graph into both real dispatchers (state equality)",
    text=("The dispatcher is a small table machine; TLC explores every register/unregister/dispatch sequence over three resources with shared "
          "classes (7 operations deep in the thorough tier) and checks the routing and inverse laws; the complete labelled state graph is then replayed "
          "transition by transition into ServerMessageDispatcher and ClientMessageDispatcher, comparing the table, the outcome and the handler "
          "actually invoked (with its arguments) against the specification state."),
    note=("Three fixture resources, four classes, one unknown class; class vs postponed string annotations are mixed in the fixtures. What a refused "
          "register leaves behind and whether unregister of a non-owner raises are left unspecified.")),
 "C16": dict(
    level="exploration",
    technique="TLC-enumerated bounded grammar (patterns x paths, route tables x requests); real Router observed on every element; TLC judges the table against Router!Matches / FirstMatch",
    text=("The documented pattern grammar is transcribed into TLA+ (Router!Matches, FirstMatch). TLC enumerates every admissible pattern (<= 4 segments) and every "
          "path (<= 5 segments over an alphabet with prefixes/extensions of literals, a regex metacharacter, empty segments and trailing slashes) and every ordered "
          "route table; the real Router answers every pair (getRoute / dispatch) and TLC judges each answer and the completeness of the table. Exhaustive within the bound; "
          "exploration level because the router is a pure function and the specification supplies the oracle and the input space, not a state-space argument."),
    note=("Bound: alphabets and lengths in harness/props/c16.py; empty segments inside multi-segment captures and suffix operators in non-final position are not judged. "
          "The JSON bridge and the concretisation of abstract patterns/paths to strings are trusted.")),
 "C17": dict(
    level="exploration",
    technique="TLC-enumerated adversarial name space; real path_join_safe observed on every (root, name); TLC judges containment (PathJoin!Safe)",
    text=("Names are assembled by TLC from an adversarial segment alphabet, both separators and absolute-looking prefixes (up to 4 segments over 9 symbols, 6 over a reduced "
          "alphabet); the real function is called for every (root, name) and for names captured by the real router from hostile URLs and random unicode; TLC judges each outcome: "
          "ValueError, or a path whose components extend the normalised root and contain no '..'."),
    note="POSIX path semantics of this platform; the root is normalised with os.path.abspath by the harness (trusted)."),
 "C18": dict(
    level="model_checking",
    technique="TLC-judged RFC 6455 header table (WsFrame) + TLC exhaustive model checking of WsStream with every graph behaviour replayed into the real handler + TLC trace validation of recorded runs at real frame sizes",
    text=("WsFrame!Header is the RFC's header rule; the library's serialised header and its parse-back are tabulated for every opcode x mask x length (all of 0..70000 in the "
          "thorough tier) and judged by TLC. WsStream models frames cut into arbitrary TCP reads and is checked exhaustively (prefix / no-lag / all-when-drained); every path of its "
          "state graph, i.e. every (frame lengths, cut set) within the bound, is replayed into WebSocketTemporaryHandler and the endpoint's deliveries compared after each read; "
          "runs with 126-/127-class frames and random cuts are recorded and validated by Trace_WsStream."),
    note="Payload bytes and masking are exercised with random content by the harness and compared for equality there; fragmented (FIN=0) messages are out of scope (the library does not build them)."),
 "C19": dict(
    level="exploration",
    technique="TLC model checking of the thin Auth model; its operation space written out by TLC, concretised and executed on the real scrypt functions; TLC judges every outcome (Obs_Auth)",
    text=("Auth.tla (records remember password and a fresh salt; corrupted records never verify) is model-checked; TLC writes out every abstract operation (password-class pairs, "
          "corruption kinds); the harness concretises each kind to many strings (truncation at every position, field removal, base64 damage, parameter edits, method/version edits) "
          "and calls the real functions in a process pool; TLC judges each outcome (true / false / ValueError|TypeError|False, never True, never another exception) and that every abstract operation was covered."),
    note="Cryptographic strength of scrypt/SHA-256 is assumed. Strings that parse to identical fields are not corruptions. Parameter edits capped at 64 MiB of scrypt memory."),
 "C04": dict(
    level="model_checking",
    technique="TLC exhaustive model checking of specs/Conn.tla (replay budget, control configuration) + TLC trace validation (specs/Trace_Conn.tla) of recorded adversarial executions of two real endpoints + scripted replay of the model's counterexample",
    text='Design level: every schedule of 4 plain messages with loss and attacker replay of any recorded datagram (small windows so that copies fall out of them) is explored by TLC; the control configuration with the stale-datagram drop removed must be refuted. Code level: seeded adversarial executions of two real endpoints (duplication, long delays, replays up to 400 datagrams back, wrap crossing) are recorded event by event and TLC checks each to be a behaviour of Trace_Conn: accept/duplicate decisions, drop-whole, message-level de-duplication and the at-most-once ghost are clauses evaluated at every event.',
    note="Trusted: TLC, the JSON bridge, the recorder (harness/connworld.py: wraps public calls from outside, decodes every datagram with its own AES-GCM), the virtual clock. Two ConnectionBase endpoints with a preset session key (the handshake is C02's); exhaustive model results hold for the small constants of each configuration (listed in evidence), the real constants (65535/32/256) are covered by recorded executions, i.e. sampled. Named deviations of KNOWN_FINDINGS.txt are admitted by the judge and reported when used."),
 "C05": dict(
    level="model_checking",
    technique='TLC liveness checking of specs/Conn.tla under fairness (no state constraint) + TLC trace validation of recorded lossy executions with end-of-run obligations (healed network => every guaranteed payload delivered, nothing left queued)',
    text="Design level: Delivery and Quiesce are checked by TLC under weak fairness with fault budgets in the state (the same datagram can be lost twice; round trips longer than the resend interval). Code level: guaranteed-heavy lossy executions at several MTUs with boundary payload sizes are recorded, the network is healed and left to settle, and Trace_Conn's end clauses require every guaranteed payload delivered and nothing left queued or unsent (K_notstuck/S_fit catch sizes that can never be packed).",
    note="Trusted: TLC, the JSON bridge, the recorder (harness/connworld.py: wraps public calls from outside, decodes every datagram with its own AES-GCM), the virtual clock. Two ConnectionBase endpoints with a preset session key (the handshake is C02's); exhaustive model results hold for the small constants of each configuration (listed in evidence), the real constants (65535/32/256) are covered by recorded executions, i.e. sampled. Named deviations of KNOWN_FINDINGS.txt are admitted by the judge and reported when used."),
 "C06": dict(
    level="model_checking",
    technique='TLC trace validation (specs/Trace_Conn.tla) of recorded fragment-heavy executions: split/reassembly clauses and byte-exactness at every event',
    text='Fragment-heavy executions (boundary lengths around the datagram capacity and multiples of the fragment size, several MTUs, duplication/reordering, several fragmented messages in flight) are recorded; Trace_Conn requires: not fragmented up to the limit, slices add up, every delivered payload byte-identical to a sent one and delivered through a reassembly the specification can explain, refusal above the limit.',
    note="Trusted: TLC, the JSON bridge, the recorder (harness/connworld.py: wraps public calls from outside, decodes every datagram with its own AES-GCM), the virtual clock. Two ConnectionBase endpoints with a preset session key (the handshake is C02's); exhaustive model results hold for the small constants of each configuration (listed in evidence), the real constants (65535/32/256) are covered by recorded executions, i.e. sampled. Named deviations of KNOWN_FINDINGS.txt are admitted by the judge and reported when used."),
 "C07": dict(
    level="model_checking",
    technique='TLC exhaustive model checking of specs/Conn.tla (callback history, safety + eventually under fairness, control configuration) + TLC trace validation where the user callbacks are recorded events',
    text="Design level: at-most-once / truthful / eventually-once callbacks are checked on every schedule incl. round trips longer than the resend interval; the control with the RetrySender guard removed must be refuted. Code level: the bag of user callbacks of every recorded event must equal the bag the specification derives from its own state (acked / timed-out datagrams, retry modes, fragment bookkeeping); time-outs only after the time-out has elapsed; success only after the peer's ghost accepted the whole message; every callback owed has fired once the healed run settles.",
    note="Trusted: TLC, the JSON bridge, the recorder (harness/connworld.py: wraps public calls from outside, decodes every datagram with its own AES-GCM), the virtual clock. Two ConnectionBase endpoints with a preset session key (the handshake is C02's); exhaustive model results hold for the small constants of each configuration (listed in evidence), the real constants (65535/32/256) are covered by recorded executions, i.e. sampled. Named deviations of KNOWN_FINDINGS.txt are admitted by the judge and reported when used."),
 "C09": dict(
    level="model_checking",
    technique='TLC trace validation (specs/Trace_Conn.tla) of recorded executions with bursts of hundreds of tiny messages at several MTUs: size / count / length / packing clauses at every build event',
    text='Executions with bursts of 40-300 empty and 1-byte messages per tick, mixed sizes and MTUs 512/1096/1500 are recorded; Trace_Conn requires for every built datagram: at most MTU-28 bytes, count = number of messages <= 255, length field = payload area, nothing left queued that would have fitted, construction never raises, and nothing is left unsent at the end.',
    note="Trusted: TLC, the JSON bridge, the recorder (harness/connworld.py: wraps public calls from outside, decodes every datagram with its own AES-GCM), the virtual clock. Two ConnectionBase endpoints with a preset session key (the handshake is C02's); exhaustive model results hold for the small constants of each configuration (listed in evidence), the real constants (65535/32/256) are covered by recorded executions, i.e. sampled. Named deviations of KNOWN_FINDINGS.txt are admitted by the judge and reported when used."),
 "C03": dict(
    level="model_checking",
    technique="TLC model checking of specs/Nonce.tla (with a control configuration that must fail) + TLC validation of every emission of the real endpoints against the premises (Trace_Nonce, Trace_Conn clauses) on histories that wrap the counter + TLC-judged grouped (key, nonce) table observed at the crypto boundary",
    text=("The argument (rate cap + clock that does not go back => fresh (direction, second, seq)) is model-checked exhaustively on a small ring, and the control configuration in which the ring wraps "
          "within one second must refute it. On the code, crypto.encrypt_gcm is wrapped from outside: every seal of both endpoints over histories that wrap the 16-bit counter is checked by TLC for each premise "
          "(next seq on the ring, never 0; rate cap; time field = clock second; direction byte; exactly one seal with nonce = first 12 and AAD = all 20 header bytes; sealed under the session key as verified by the "
          "harness's own AES-GCM; no payload bytes in clear), and the table of all (key, nonce) pairs grouped by sequence number is judged pairwise distinct."),
    note=("Non-decreasing clock and 32-bit seconds assumed (as stated). Cryptographic strength of AES-GCM assumed. Preset session key: handshake datagrams are C02's; the quick tier wraps the counter once per direction, the thorough tier three times.")),
 "C01": dict(
    level="model_checking",
    technique="TLC model checking of specs/Gate.tla (decision rule + action properties) + every (situation, datagram class) of the TLC-enumerated table concretised into real forged bytes and injected into real endpoints + byte-level tamper sweep of genuine datagrams, all judged by TLC (Obs_Gate)",
    text=("Gate!Outcome is the rule (keyed: only datagrams sealed under the key; un-keyed: only the single hello of the right direction). TLC checks the rule's action properties and writes every "
          "(situation, class) pair with the prescribed outcome; the harness builds real endpoints through the real handshake into a rich situation (pending acks with callbacks, half-received fragments, "
          "undelivered genuine datagrams), concretises each class (valid-CRC plaintext of every type x count x inner types, wrong-key AES-GCM, recorded genuine datagrams fresh/duplicate/stale, trailing bytes, "
          "random) and compares a before/after snapshot of everything an accepted datagram may change; every single-bit flip, truncation, extension and header-field rewrite (with and without a recomputed CRC) of "
          "genuine datagrams, delivered and undelivered, is injected too. TLC judges every observation."),
    note=("Unforgeability of AES-GCM is assumed. The snapshot reads internal attributes through a tolerant projection (a missing attribute downgrades that comparison). Server-loop level injection "
          "(pool gate, other clients untouched) is C11's check; what the pre-key hello itself may do is C02's.")),
 "C10": dict(
    level="model_checking",
    technique='TLC trace validation (specs/Trace_Server.tla, clauses L_x) of recorded executions of the real server loop in lock-step with real UdpClients: many-client interleavings, handler exceptions, shutdown at every tick of a range, forced token collisions',
    text="Every handler event of the recorded runs is checked by TLC: connect exactly once per client object and only after a genuine challenge response from that address reached the server, messages only while connected and only payloads of the client that owns the address, disconnect exactly once, all events on one thread, events keep flowing after handler exceptions (2-3 % of all events raise), the connected pool equals the clients between connect and disconnect, simultaneously connected clients carry distinct tokens (the token generator's randomness is fed from a four-value space so that equal draws happen), shutdown disconnects everyone and is the last event.",
    note='Trusted: TLC, the JSON bridge, the lock-step harness (harness/srvworld.py: real UdpServerThread.run behind TwistedServer.datagramReceived, real UdpClients with fake sockets, module attributes time/sleep/select/reactor rebound from outside, virtual clock). Real sockets, the Twisted reactor and TLS are replaced. Runs are seeded samples of the stated scenario families.'),
 "C11": dict(
    level="model_checking",
    technique='TLC trace validation (specs/Trace_Server.tla, clauses A_x and L_x) of recorded executions of the real server loop under hostile floods (every length, every type, valid-CRC undecodable hellos, spoofed hello replays, block lists, MTUs) with canary clients',
    text="Per event TLC checks: the loop thread is alive after every tick, a datagram from a block-listed IP leaves the queue untouched and is never answered, the bytes sent to an address that has not completed the handshake never exceed the bytes received from it, canary requests of established clients are echoed within the deadline throughout the attack, and the honest clients' lifecycle stays intact.",
    note='Trusted: TLC, the JSON bridge, the lock-step harness (harness/srvworld.py: real UdpServerThread.run behind TwistedServer.datagramReceived, real UdpClients with fake sockets, module attributes time/sleep/select/reactor rebound from outside, virtual clock). Real sockets, the Twisted reactor and TLS are replaced. Runs are seeded samples of the stated scenario families.'),
 "C12": dict(
    level="model_checking",
    technique='TLC trace validation (specs/Trace_Server.tla, clauses T_x) of recorded executions of real UdpClient + real server loop under virtual time over timer configurations, cut moments, unanswered connects and every setter order',
    text='Per event TLC checks: idle links stay up (no silence disconnect before connection_timeout of silence, no DROPPED before 5 s without an accepted server datagram) and both sides emit within keep-alive + tick; after a cut the server drops the client within connection_timeout + 2 ticks and the client reports DROPPED within 5 s + 2 ticks; an unanswered connect ends DISCONNECTED at the configured time-out with the callback (if any) called once with False; setters never raise and the governed behaviour (client keep-alive cadence, message time-out of an unacknowledged send) uses the value set, for every order of the three setters relative to connect.',
    note='Trusted: TLC, the JSON bridge, the lock-step harness (harness/srvworld.py: real UdpServerThread.run behind TwistedServer.datagramReceived, real UdpClients with fake sockets, module attributes time/sleep/select/reactor rebound from outside, virtual clock). Real sockets, the Twisted reactor and TLS are replaced. Runs are seeded samples of the stated scenario families.'),
 "C02": dict(
    level="model_checking",
    technique="TLC exhaustive model checking of the symbolic Dolev-Yao model specs/Handshake.tla + replay of every explored transition, concretised with real P-256/ECDSA/HKDF/AES-GCM, into a real UdpClient and the real server loop (state equality after each step) + TLC-judged byte-level mutation sweep of the genuine server hello",
    text=("Handshake.tla models the three datagrams as terms, the honest endpoints with their error paths, and an attacker that sees everything, replays/redirects any datagram from any address, composes hellos from known values, "
          "signs only with its own root key, garbles fields, and derives keys only where it owns a private half; ClientAuth, NoKeyOnReject, KeySecret, Promotion, ConnectEvent and Agreement are checked for every behaviour with up to 3-4 attacker datagrams. "
          "Every transition TLC explores (all with 1 attacker datagram, a seeded sample with 2) is executed on a fresh real client and server loop along the shortest path to its source state, with real keys, signatures copied / re-signed / damaged exactly "
          "as the term says, and the real status, key bytes, token, server pools and connect events must equal the specification state. Every single-bit flip and truncation of the genuine server hello, and one flip per byte with a recomputed CRC, is "
          "judged by TLC: connected and keyed only if the signed parameters and signature are verbatim, otherwise no key."),
    note=("Unforgeability of ECDSA and secrecy of ECDH/HKDF are assumed (symbolic abstraction). Fresh random key pairs each run (sampled). Two server sessions, one client. "
          "The lock-step server harness is trusted.")),
 "C13": dict(
    level="exploration",
    technique="TLC-enumerated value grammar and channel sequences (specs/Codec.tla, Obs_Codec); real serialize_value/deserialize_value/dumpb/loadb observed on every term; TLC judges normal form, exact consumption and refusal",
    text=("Codec.tla states the abstract contract (domain, normal form: tuples -> lists except where only a tuple can exist, floats at float32 precision; a FIFO channel of values). TLC enumerates atoms at every integer-width and float boundary, "
          "strings and bytes incl. over-long ones, containers of them, containers of containers, fixture objects, enum members, unsupported types, and sequences written one after another; the harness encodes and decodes each with the real module and "
          "abstracts the result back into a term; TLC judges: in the domain -> decoded equals the normal form and exactly the produced bytes were consumed (trailing bytes untouched); outside -> refused with an error."),
    note="Bounded grammar (depth 2, <= 2 elements per container) plus random deep values in the thorough tier. The abstraction function is trusted. Byte layout is not constrained."),
 "C14": dict(
    level="exploration",
    technique="TLC model checking of the pushdown transcription specs/Decoder.tla (bounded work) whose token strings, concretised with the live type ids, plus truncations / bit flips / crafted lengths / deep nesting / random bytes are fed to the real decoder under instrumentation; TLC judges every observation (Obs_Decoder)",
    text=("Decoder.tla is a token grammar of adversarial inputs and a small transcription of the decoder for which TLC checks that the number of invocations is bounded by the input size whatever lengths the input announces. "
          "Every token string of the model, every truncation and single-bit flip of valid encodings (incl. a genuine client hello), crafted maximal / negative / non-integer length fields, wide collections of tiny elements, nesting beyond the recursion limit and random bytes "
          "go to Serializable.loadb and to the server's _recvClientHello; measured per input: outcome, deserialize_value invocations, tracemalloc peak, watchdog. TLC judges: value of supported/registered types or ordinary exception, invocations <= n/2 + 8, peak <= 64 n + 1 MiB."),
    note="Resource bounds are measured, Python-level allocations only; constants in specs/Obs_Decoder.tla. loadz (gzip) out of scope."),
 "C15": dict(
    level="exploration",
    technique="TLC-enumerated field assignments (every single choice and every pair) of a fixture class with one field per documented annotated shape; real fromJson/toJson/loads/dumps observed; TLC judges field-for-field equality (Obs_Json)",
    text=("The fixture class has 19 fields covering basic types, enum, nested Serializable, List/Set/Dict/Tuple of basic / enum / Serializable with int, str and enum keys; TLC enumerates every value choice per field (empty containers, None for container fields, "
          "negative and > 2^53 ints, unicode) and every pair of choices; the harness runs fromJson(toJson(x)), loads(dumps(x)) and json.dumps(toJson(x)); TLC judges that both round trips reproduce every overridden field as a term of the same type "
          "(sets stay sets, tuples tuples, int and enum keys keep their type) and leave the other fields at their defaults."),
    note="One level of generic containers as documented; Tuple fields hold tuples of the annotated length; the abstraction function is trusted."),
}

# ---- later additions to the deciding methods (kept as appendices so that the entries above stay readable)
_ADD = {
 "C01": (" + TLC trace validation (Trace_Conn clauses F_noeffect / F_window) of forged and damaged datagrams injected at random points of recorded connection histories",
         " Forged datagrams are also injected into long recorded histories of two real endpoints and judged by Trace_Conn."),
 "C02": (" + TLC-judged byte-level mutation sweeps of the client hello and the challenge response, each followed by the honest rest of the exchange on a fresh real client + server loop",
         " The two client-to-server datagrams are swept too: a mutated client hello followed by the honest rest of the exchange (the server reports the client only if both ends agree on key and token), a mutated challenge response (never a connect), and the genuine response replayed from another address."),
 "C03": (" + Trace_Server clause A_sealed (every server emission sealed once under the key in force) on slow-handshake executions of the real server",
         " Server emissions during delayed handshakes are judged by Trace_Server!A_sealed."),
 "C04": (" + TLC-enumerated network schedules (specs/Net.tla) executed on the real endpoints + lateness sweep across the window boundary",
         " Every schedule of a small bounded space enumerated by TLC (Net.tla) and a sweep of datagram lateness across the 32-datagram boundary are executed on the real endpoints and judged by Trace_Conn."),
 "C05": (" + TLC-enumerated network schedules (specs/Net.tla) executed on the real endpoints",
         " Both sending APIs are driven over a grid of payload lengths and MTUs (Obs_Packing) and over TLC-enumerated schedules."),
 "C06": (" + link-outage scenarios (total loss in one direction for longer than the ack time-out) + packing model and grid (specs/Packing.tla)",
         " Scenarios include link outages longer than the resend interval and the ack time-out for every retry mode."),
 "C07": (" + every schedule of a bounded space enumerated by TLC (specs/Net.tla) executed on the real endpoints and judged by Trace_Conn",
         " TLC enumerates every fate assignment (deliver / lose / delay / duplicate ...) of the first datagrams of each side times six send plans; each schedule is executed on the real endpoints."),
 "C08": (" + Apalache symbolic check of the ring laws at the real ring size (ApaSeqRing) + Trace_Conn ack-field clauses on recorded executions incl. datagrams damaged in transit (F_window) and a lateness sweep",
         " The ring laws are also discharged symbolically by Apalache for all positions of the real 65535-ring; ack fields of real endpoints are judged by Trace_Conn on histories that cross the wrap, including damaged and forged datagrams, which must never enter the windows."),
 "C09": (" + Packet.setMTU call histories judged by TLC (Obs_Packing!LimitsOK) + frame-hitch scenarios (more than 255 retries due in one frame)",
         " setMTU is observed over call histories (the limits must be a function of the last call only)."),
 "C10": (" + duplicate-delivering world with zombie scenarios (replays of a silent client's datagrams) + TLC exhaustive model checking of specs/Server.tla (token uniqueness, lifecycle) with a control configuration",
         ""),
 "C11": (" incl. well-formed headers spoofed from a live client's address (clause A_echo) and the no-amplification clause A_noamplify over half-open addresses",
         ""),
 "C12": (" + reconnect scenarios judged against a harness-owned record of the configured values + duplicate-delivering zombie scenarios (clause T_srvdrops)",
         ""),
 "C14": ("; the corpus includes nested collections that each announce the maximal length (amplification by nesting)", ""),
 "C15": ("; the value alphabet includes ints beyond 2^53 as dictionary keys and container elements", ""),
 "C16": ("", " Since round 3 of the seeded changes ':name+' against a path with an empty segment is specified as no match; '?' and '*' stay unspecified there."),
 "C17": (" + call histories across working-directory changes with relative roots", " The function is also observed over call histories in which the working directory changes between calls with the same relative root."),
 "C19": ("; the second hash of every password is made from exactly the application-visible PRNG state the first one started in", ""),
}
for _k, (_t, _x) in _ADD.items():
    CHECKS[_k]["technique"] += _t
    CHECKS[_k]["text"] += _x

# ---- additions after seeded rounds 4-6
_ADD2 = {
 "C01": " + injections through the real server loop (half-open and established connections)",
 "C02": " + the session under test is the second session of the same UdpClient object (earlier signatures known to the attacker and seen by the pinned key object)",
 "C03": " + Trace_Server clause A_clisealed (every client emission but the single hello opens under the client's key) with an application that sends before the handshake finished",
 "C04": " + Trace_Server clause L_once on recorded server-loop executions with raising handlers (a message reaches the handler at most once)",
 "C05": " + link outages longer than two ack time-outs, bursts wider than the message window (clause V_nolost), clause V_ctxage",
 "C06": " + transfers of hundreds of fragments over normal and sub-frame round trips (clause V_ctxage: no reassembly context given up before the code's own allowance)",
 "C07": " + ack-lateness sweep (return path dark for exactly L ticks, L across the ack window) + bursts wider than the message window",
 "C08": " + ack-lateness sweep + message-lateness sweep (nine messages per datagram: message window exercised apart from the datagram window)",
 "C10": " + match-over scenario (clients closed from inside a disconnect event, shutdown k ticks later) + first request sent from the connect callback with a raising connect event (A_echo) + clause L_once",
 "C11": " + block list set after the server object was built and replaced mid-run + short but otherwise well-formed hellos",
 "C12": " + settings re-applied every frame + context configured after the server object was built",
 "C13": " + dumpb as a history of calls with refusals in between + a fixture class hierarchy used base-first",
 "C14": " + record-aligned chains of client hellos + self-signed server hellos with mistyped signed fields decoded the way a client does + every fourth input decoded twice (stability)",
 "C15": " + fixture class re-declares the fields of a base class that is converted first + a string-valued enum whose member names are each other's values",
 "C16": " + dispatched requests with percent-encoded slashes",
 "C18": " + frames built by the library's constructors (multi-byte text across the length boundaries), processed in shuffled batches of frames that are alive together",
 "C19": " + every question asked twice in one process + 10 KiB near-identical password pairs",
 "C20": " + bystander dispatchers (two registered ones asked first, an empty one asked afterwards) at every replayed transition",
}
for _k, _t in _ADD2.items():
    CHECKS[_k]["technique"] += _t
NOTES += (" Judges (Trace_Conn, Trace_Server) take a constant Skip: a trace rejected only at clauses of other properties is judged again without them, so "
          "that the rest of it is examined for the property being decided.")

_ADD3 = {
 "C02": " + challenge responses carrying relatives of the issued token (t +- 2^31, t + 2^32, -t)",
 "C03": " + a history that polls faster than the send-rate cap with keep-alive interval 0",
 "C04": " + gap sweep (exactly G datagrams lost, then a replay from before the gap, G across the window and twice beyond)",
 "C05": " + application callbacks that raise, several sends per frame across outages",
 "C06": " + fragmented messages under bursts wider than the message window",
 "C07": " + callables that compare equal handed to different sends",
 "C10": " + forced raw token draws with every pair of top bits",
 "C11": " + a hostile peer that holds a session key (honest key exchange, no challenge answer, CHALLENGE_RESP-typed DISCONNECT, refreshes)",
 "C12": " + 20x asymmetric keep-alive configurations",
 "C13": " + strings starting with U+FEFF",
 "C14": " + enum-keyed containers whose members carry unhashable values",
 "C15": " + strings with quotes, backslashes and comment look-alikes",
 "C16": " + tables built after a request history and a registration batch refused at its end",
 "C17": " + the root's own path in the other letter case as a segment",
 "C18": " + an endpoint that answers and closes while the same read holds further frames",
 "C19": " + fault injection into the key derivation",
}
for _k, _t in _ADD3.items():
    CHECKS[_k]["technique"] += _t

# second build session (rounds 8 and 9, audit of the unchanged tree)
_ADD4 = {
 "C01": " + injections through the public client API (UdpClient.update, connection established / DROPPED / DISCONNECTING, status read between two updates) + floods of forged datagrams through the server loop + extensions of genuine datagrams judged strictly",
 "C02": " + the attacker may send its challenge response unsealed + refused-hello histories (the client polled past every clock, further copies under fresh datagram numbers) + extended challenge responses",
 "C04": " + scripted histories in which the receiving application calls disconnect() and retransmissions keep arriving",
 "C07": " + damaged copies of lost datagrams put in front of the peer (success only for what it accepted)",
 "C08": " + <= / >= columns in the SeqNum table + the message window across disconnect()",
 "C09": " + the MTU configured while the connection objects exist (every second cell of the both-API grid)",
 "C05": " + the MTU configured while the connection objects exist + a scripted starvation history (open finding large-message-starved-by-retries)",
 "C10": " + connected clients that transmit their challenge response again + a connected peer that bundles a CLIENT_HELLO-typed message with application data (clause L_token)",
 "C11": " + block lists in the spellings a dual-stack transport reports, judged against the operator's own record; the lock-stepped world is total when the server loop dies + bytes in / bytes out at the small end of the MTU range (open finding hello-amplification-at-small-mtu)",
 "C12": " + clause T_stayup (a CONNECTED client over a healthy link stays CONNECTED) + first answer slower than the client's message time-out with the client at its own frame rate + a server that sends state to every client on every tick + clause T_clisilent with an application that polls its client more slowly than the server sends (one update() per frame)",
 "C13": " + objects with container-annotated fields set to None / empty / filled + a subclass that adds a field to a Serializable base class + a class with a read-only property",
 "C14": " (the observation loop stops after three watchdog hits)",
 "C15": " + a Set of nested objects",
 "C16": " + bindings compared exactly as reported + a literal followed by a line feed in the path alphabet",
 "C18": " + the bytes written by the library's own writers on a recording socket against the RFC 6455 encoding, for random masking keys + a scripted fragmented client message (open finding ws-continuation-frame-desync)",
 "C19": " + the two length bytes edited together, digests truncated together with their length byte, damage that a lenient base64 reader skips",
}
for _k, _t in _ADD4.items():
    CHECKS[_k]["technique"] += _t
NOTES = NOTES.replace("Extension checks X01..X05", "Extension checks X01..X12")
NOTES += (" audit/ holds demonstration programs written by independent sub-agents that audited the unchanged tree against the property texts (DESIGN 7.6); "
          "the defects among them that were repaired are the `fixed:` lines D22..D32 of KNOWN_FINDINGS.txt.")

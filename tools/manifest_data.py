HOOK_COMMITS = []
NOTES = ("Every check is `./check <ID> --tier quick|thorough`; exit 0 held, 1 VIOLATION, 2 machinery failure. "
         "Specifications are in specs/, drivers in harness/props/. Known findings are listed in KNOWN_FINDINGS.txt.")
NOT_APPLICABLE = {}
CHECKS = {
 "C08": dict(
    level="model_checking",
    technique="TLC exhaustive model checking of SeqRing/BitWindow + replay of every TLC transition into BitField + TLC trace validation of recorded BitField histories + TLC-judged SeqNum table",
    text=("Ring laws checked by TLC on every pair of positions for small rings; the window structure checked against a set-arithmetic ghost for "
          "every insertion history within the bound (small rings and the real ring with W=8). Bound to the code three ways: every transition TLC "
          "explored at M=65535/W=8 is replayed into the real BitField, TLC simulation walks at W=16..256 are replayed step by step, long random "
          "histories of the real BitField are validated by Trace_BitWindow, and a table of real SeqNum results is judged by TLC. Model checking is the "
          "right level: the structure is a small state machine and the property quantifies over its histories."),
    note=("Exhaustive only within the stated bounds (positions within W+3 of the newest, W=8 at the real ring); larger widths are sampled by walks and "
          "recorded traces. TLC, the JSON bridge and the projection of BitField.bits to offset sets are trusted. <=/>= on SeqNum are not constrained.")),
 "C20": dict(
    level="model_checking",
    technique="TLC exhaustive model checking of Dispatch + replay of every transition of the TLC state graph into both real dispatchers (state equality)",
    text=("The dispatcher is a small table machine; TLC explores every register/unregister/dispatch sequence over three resources with shared "
          "classes (7 operations deep in the thorough tier) and checks the routing and inverse laws; the complete labelled state graph is then replayed "
          "transition by transition into ServerMessageDispatcher and ClientMessageDispatcher, comparing the table, the outcome and the handler "
          "actually invoked (with its arguments) against the specification state."),
    note=("Three fixture resources, four classes, one unknown class; class vs postponed string annotations are mixed in the fixtures. What a refused "
          "register leaves behind and whether unregister of a non-owner raises are left unspecified.")),
 "C16": dict(
    level="exploration",
    technique="TLC-enumerated bounded grammar (patterns x paths, route tables x requests); real Router observed on every element; TLC judges the table against Router!Matches / FirstMatch",
    text=("The documented pattern grammar is transcribed into TLA+ (Router!Matches, FirstMatch). TLC enumerates every admissible pattern (<= 4 segments) and every "
          "path (<= 5 segments over an alphabet with prefixes/extensions of literals, a regex metacharacter, empty segments and trailing slashes) and every ordered "
          "route table; the real Router answers every pair (getRoute / dispatch) and TLC judges each answer and the completeness of the table. Exhaustive within the bound; "
          "exploration level because the router is a pure function and the specification supplies the oracle and the input space, not a state-space argument."),
    note=("Bound: alphabets and lengths in harness/props/c16.py; empty segments inside multi-segment captures and suffix operators in non-final position are not judged. "
          "The JSON bridge and the concretisation of abstract patterns/paths to strings are trusted.")),
 "C17": dict(
    level="exploration",
    technique="TLC-enumerated adversarial name space; real path_join_safe observed on every (root, name); TLC judges containment (PathJoin!Safe)",
    text=("Names are assembled by TLC from an adversarial segment alphabet, both separators and absolute-looking prefixes (up to 4 segments over 9 symbols, 6 over a reduced "
          "alphabet); the real function is called for every (root, name) and for names captured by the real router from hostile URLs and random unicode; TLC judges each outcome: "
          "ValueError, or a path whose components extend the normalised root and contain no '..'."),
    note="POSIX path semantics of this platform; the root is normalised with os.path.abspath by the harness (trusted)."),
 "C18": dict(
    level="model_checking",
    technique="TLC-judged RFC 6455 header table (WsFrame) + TLC exhaustive model checking of WsStream with every graph behaviour replayed into the real handler + TLC trace validation of recorded runs at real frame sizes",
    text=("WsFrame!Header is the RFC's header rule; the library's serialised header and its parse-back are tabulated for every opcode x mask x length (all of 0..70000 in the "
          "thorough tier) and judged by TLC. WsStream models frames cut into arbitrary TCP reads and is checked exhaustively (prefix / no-lag / all-when-drained); every path of its "
          "state graph, i.e. every (frame lengths, cut set) within the bound, is replayed into WebSocketTemporaryHandler and the endpoint's deliveries compared after each read; "
          "runs with 126-/127-class frames and random cuts are recorded and validated by Trace_WsStream."),
    note="Payload bytes and masking are exercised with random content by the harness and compared for equality there; fragmented (FIN=0) messages are out of scope (the library does not build them)."),
 "C19": dict(
    level="exploration",
    technique="TLC model checking of the thin Auth model; its operation space written out by TLC, concretised and executed on the real scrypt functions; TLC judges every outcome (Obs_Auth)",
    text=("Auth.tla (records remember password and a fresh salt; corrupted records never verify) is model-checked; TLC writes out every abstract operation (password-class pairs, "
          "corruption kinds); the harness concretises each kind to many strings (truncation at every position, field removal, base64 damage, parameter edits, method/version edits) "
          "and calls the real functions in a process pool; TLC judges each outcome (true / false / ValueError|TypeError|False, never True, never another exception) and that every abstract operation was covered."),
    note="Cryptographic strength of scrypt/SHA-256 is assumed. Strings that parse to identical fields are not corruptions. Parameter edits capped at 64 MiB of scrypt memory."),
}

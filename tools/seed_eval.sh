#!/bin/bash
# tools/seed_eval.sh <PROPERTY-ID> <source dir with patch.diff + demo.py> <name> [check ids...]
# Confirms a seeded change (applies, suite passes, demo fails with / passes without), runs the quick checks against it, stores it under seeded/<name>/.
set -u
PID=$1; SRC=$2; NAME=$3; shift 3
CHECKS=${@:-$PID}
V=/verif
W=/var/tmp/seed-$NAME
OUT=$V/seeded/$NAME
mkdir -p $OUT
git -C /repo worktree remove --force $W 2>/dev/null
git -C /repo worktree add --detach $W HEAD -q || exit 2
cp $SRC/demo.py $W/demo.py
cd $W
( /venv/bin/python demo.py > $OUT/demo_without.log 2>&1 ); D0=$?
git apply --whitespace=nowarn $SRC/patch.diff || { echo "patch does not apply"; exit 2; }
( /venv/bin/python demo.py > $OUT/demo_with.log 2>&1 ); D1=$?
T=$(/venv/bin/python -m pytest -q -p no:cacheprovider --timeout=900 2>&1 | tail -1)
cp $SRC/patch.diff $OUT/patch.diff; cp $SRC/demo.py $OUT/demo.py
echo "demo without=$D0 with=$D1 ; suite: $T"
RES=""
for c in $CHECKS; do
  s=$(date +%s)
  out=$(cd $V && VERIF_REPO=$W VERIF_EVIDENCE_DIR=/var/tmp/seed-evidence/$NAME VERIF_REPLAY_DIR=/var/tmp/seed-replays/$NAME ./check $c --tier quick 2>&1); rc=$?
  e=$(date +%s)
  first=$(echo "$out" | grep -m1 -A1 '^VIOLATION' | tail -1 | cut -c1-400)
  echo "check $c rc=$rc $((e-s))s $first"
  RES="$RES $c:rc=$rc"
  echo "$out" | grep -E '^(VIOLATION|  clause|OK|KNOWN|MACH)' | head -12 > $OUT/check_$c.log
done
echo "{\"demo_without\": $D0, \"demo_with\": $D1, \"suite\": \"$T\", \"checks\": \"$RES\"}" > $OUT/result.json
cd /; git -C /repo worktree remove --force $W

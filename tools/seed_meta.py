#!/venv/bin/python
"""tools/seed_meta.py - (re)writes seeded/<name>/meta.json from the confirmation record left by tools/seed_eval.sh
(result.json, check_<ID>.log) and the descriptive table below.  Nothing here is consulted by any check."""
import json, os, sys, subprocess

V = os.path.dirname(os.path.dirname(os.path.abspath(__file__)))

# name -> (property, change, needs_to_manifest, result)
TABLE = {
 "C01-b": ("C01", "the AEAD associated data covers only the first 8 header bytes (magic+ctime), no longer seq/ack/bits",
           "a genuine datagram whose seq/ack header bytes are altered in flight",
           "detected as built by C01 (Obs_Gate mutation rows) and C03 (premise N_aad); the harness's independent reader had to be made total first (it raised on the mutant's garbage, a machinery failure, not a miss)"),
 "C03-b": ("C03", "the server retransmits its SERVER_HELLO through the RETRY path before the session key is installed (sealed under the handshake key twice)",
           "a slow handshake: the client's challenge response is delayed past the resend interval",
           "missed as built; detected by C03 after the slow-handshake scenario and clause A_sealed (every emission sealed exactly once under the current key) were added to Trace_Server"),
 "C04-b": ("C04", "BitField.insert handles an older number only when diff < nbits and otherwise falls through: a number older than the window is accepted silently instead of raising",
           "a datagram or message older than the whole duplicate window (32 datagrams / 256 messages behind)",
           "detected as built by C04 (V_accept / lateness sweep) and C08 (Trace_BitWindow)"),
 "C05-b": ("C05", "acknowledgement decoding computes the bit position with a plain subtraction near the wrap (off by one across 65535 -> 1)",
           "traffic whose ack window straddles the sequence wrap while some datagrams are lost",
           "C08 as built (lateness sweep started at 65530); C05 after clauses V_acked / B_ack were attributed to C05 and C07 as well (the judge had rejected the trace but reported it under C08 only)"),
 "C07-b": ("C07", "FragmentSender lets the final fragment use MAX_PAYLOAD_SIZE without subtracting the fragment overhead, so for some lengths the last fragment exceeds the datagram budget and can never be sent",
           "BEST_EFFORT/guaranteed messages whose length leaves a remainder within a few bytes of the fragment size",
           "missed as built; detected by C07 (clause S_fit / K_notstuck) after fragment-boundary lengths were added to the C07 scenarios, and by C05"),
 "C09-b": ("C09", "the resend loop appends queued retries to the outgoing datagram without the 255-message cap",
           "more than 255 small messages due for retry in one frame (a frame hitch after loss)",
           "missed as built; detected by C09 (clauses B_count / S_ok) after the frame-hitch burst scenario was added"),
 "C10-b": ("C10", "last_recv_time is refreshed by duplicate (replayed) datagrams before the duplicate test",
           "an attacker replaying an old datagram of a client that has gone silent",
           "missed as built; detected by C10 and C12 (clause T_srvdrops) after the world learned to deliver duplicates (dupe flag) and zombie scenarios were added"),
 "C12-b": ("C12", "last_recv_time is refreshed only when the wall-clock second changes (inside the once-per-second statistics branch) instead of on every accepted datagram; the ack timeout uses the local time",
           "a connection timeout configured near the traffic period",
           "detected as built by C12 (clause T_srvdrop: drop time against the configured timeout)"),
}

HOW = ("tools/seed_eval.sh: fresh scratch worktree of /repo outside /repo and /verif, demo run before and after git apply, full pytest suite "
       "with the change, then ./check <id> --tier quick with VERIF_REPO pointing at the scratch worktree; worktree removed afterwards")


def main():
    head = subprocess.run(["git", "-C", "/repo", "rev-parse", "--short", "HEAD"], capture_output=True, text=True).stdout.strip()
    names = sys.argv[1:] or sorted(TABLE)
    for name in names:
        d = os.path.join(V, "seeded", name)
        res = json.load(open(os.path.join(d, "result.json")))
        meta_path = os.path.join(d, "meta.json")
        old = json.load(open(meta_path)) if os.path.exists(meta_path) else {}
        if name in TABLE:
            prop, change, needs, result = TABLE[name]
        else:
            prop, change, needs, result = old["breaks_property"], old["change"], old["needs_to_manifest"], old["result"]
        checks = [c.split(":")[0] for c in res["checks"].split()]
        first = {}
        for c in checks:
            p = os.path.join(d, "check_%s.log" % c)
            if os.path.exists(p):
                first[c] = [l.rstrip("\n")[:600] for l in open(p).readlines()[:2]]
        meta = {
            "name": name, "breaks_property": prop,
            "produced_by": old.get("produced_by", "independent sub-agent given only the property text and its own worktree"),
            "change": change, "needs_to_manifest": needs,
            "confirmed": {"patch_applies_to": "repo HEAD " + head, "suite_with_change": res["suite"],
                          "demo_exit_without_change": res["demo_without"], "demo_exit_with_change": res["demo_with"], "how": HOW},
            "checks_run": checks,
            "check_exit_codes": {c.split(":")[0]: int(c.split("=")[1]) for c in res["checks"].split()},
            "result": result, "first_lines_of_check_output": first,
        }
        with open(meta_path, "w") as f:
            f.write(json.dumps(meta, indent=1))
        print(name, meta["check_exit_codes"])


if __name__ == "__main__":
    main()

#!/venv/bin/python
"""tools/seed_meta.py - (re)writes seeded/<name>/meta.json from the confirmation record left by tools/seed_eval.sh
(result.json, check_<ID>.log) and the descriptive table below.  Nothing here is consulted by any check."""
import json, os, sys, subprocess

V = os.path.dirname(os.path.dirname(os.path.abspath(__file__)))

# name -> (property, change, needs_to_manifest, result)
TABLE = {
 "C01-b": ("C01", "the AEAD associated data covers only the first 8 header bytes (magic+ctime), no longer seq/ack/bits",
           "a genuine datagram whose seq/ack header bytes are altered in flight",
           "detected as built by C01 (Obs_Gate mutation rows) and C03 (premise N_aad); the harness's independent reader had to be made total first (it raised on the mutant's garbage, a machinery failure, not a miss)"),
 "C03-b": ("C03", "the server retransmits its SERVER_HELLO through the RETRY path before the session key is installed (sealed under the handshake key twice)",
           "a slow handshake: the client's challenge response is delayed past the resend interval",
           "missed as built; detected by C03 after the slow-handshake scenario and clause A_sealed (every emission sealed exactly once under the current key) were added to Trace_Server"),
 "C04-b": ("C04", "BitField.insert handles an older number only when diff < nbits and otherwise falls through: a number older than the window is accepted silently instead of raising",
           "a datagram or message older than the whole duplicate window (32 datagrams / 256 messages behind)",
           "detected as built by C04 (V_accept / lateness sweep) and C08 (Trace_BitWindow)"),
 "C05-b": ("C05", "acknowledgement decoding computes the bit position with a plain subtraction near the wrap (off by one across 65535 -> 1)",
           "traffic whose ack window straddles the sequence wrap while some datagrams are lost",
           "C08 as built (lateness sweep started at 65530); C05 after clauses V_acked / B_ack were attributed to C05 and C07 as well (the judge had rejected the trace but reported it under C08 only)"),
 "C07-b": ("C07", "FragmentSender lets the final fragment use MAX_PAYLOAD_SIZE without subtracting the fragment overhead, so for some lengths the last fragment exceeds the datagram budget and can never be sent",
           "BEST_EFFORT/guaranteed messages whose length leaves a remainder within a few bytes of the fragment size",
           "missed as built; detected by C07 (clause S_fit / K_notstuck) after fragment-boundary lengths were added to the C07 scenarios, and by C05"),
 "C09-b": ("C09", "the resend loop appends queued retries to the outgoing datagram without the 255-message cap",
           "more than 255 small messages due for retry in one frame (a frame hitch after loss)",
           "missed as built; detected by C09 (clauses B_count / S_ok) after the frame-hitch burst scenario was added"),
 "C10-b": ("C10", "last_recv_time is refreshed by duplicate (replayed) datagrams before the duplicate test",
           "an attacker replaying an old datagram of a client that has gone silent",
           "missed as built; detected by C10 and C12 (clause T_srvdrops) after the world learned to deliver duplicates (dupe flag) and zombie scenarios were added"),
 "C12-b": ("C12", "last_recv_time is refreshed only when the wall-clock second changes (inside the once-per-second statistics branch) instead of on every accepted datagram; the ack timeout uses the local time",
           "a connection timeout configured near the traffic period",
           "detected as built by C12 (clause T_srvdrop: drop time against the configured timeout)"),
 "C02-b": ("C02", "ServerContext._validateChallengeResponse accepts any token currently in use by some client instead of the token issued to this connection",
           "a second client alive on the server; the first answers the challenge with the second client's token (which travels in clear)",
           "detected as built by C02 (Handshake.tla attacker action atk-challenge with a foreign token, replayed into the real server)"),
 "C06-b": ("C06", "RetrySender re-queues a timed-out message as PacketType.APP, so a retransmitted fragment goes out typed as a whole message",
           "a fragmented RETRY_ON_TIMEOUT message while every datagram of one direction is lost for more than the 1 s ack time-out",
           "C05 and C07 as built (clause B_known: a built datagram carries a message the sender never queued in that form); missed by C06 as built - its scenarios had iid loss only; detected by C06 after link outages (0.5-2.5 s of total loss in one direction) were added to the world and to a C06 scenario"),
 "C08-b": ("C08", "_recv_datagram inserts the header's sequence number into the duplicate window before the datagram is authenticated (same mechanism as C11-a, produced independently)",
           "a datagram with a well-formed header that fails authentication (bit flip in transit, forged header) carrying a not-yet-received sequence number",
           "C01 and C11 as built; missed by C08 as built - its histories contained genuine datagrams only; detected by C08 after a scenario with datagrams damaged in transit was added together with clause F_window (a datagram that fails authentication never enters the windows)"),
 "C11-b": ("C11", "the server queues its SERVER_HELLO as BEST_EFFORT, so a half-open address is sent about nine copies",
           "one well-formed CLIENT_HELLO from an address that never answers, and half a second of server time",
           "detected as built by C11 (clause A_noamplify: bytes sent to an address that has not completed the handshake never exceed the bytes received from it)"),
 "C13-b": ("C13", "serialize_int encodes ints above 2**63-1 with the type id uint64_t, which collides with float32_t in the decoder table",
           "an int in 2**63 .. 2**64-1 anywhere in a value",
           "detected as built by C13 (Codec.tla int boundary terms: outcome ok, decoded float, consumed 6 of 10 bytes)"),
 "C14-b": ("C14", "deserialize_seq preallocates the list from the announced length before reading any item",
           "nested sequences each announcing the maximal length (1.4 kB of input -> 31 MB)",
           "missed as built (the corpus nested only honest lengths and announced large lengths only at depth one); detected by C14 after nested maximal announced lengths were added to the hostile corpus (Obs_Decoder!MemBound)"),
 "C15-b": ("C15", "_fromJsonBasic casts string dictionary keys to int through float()",
           "a Dict[int, X] field with a key a double cannot hold (beyond 2**53), after a real JSON string trip",
           "missed as built (int keys of the fixture were 1 and -1); detected by C15 after keys 2**53, 2**53+1, 2**63-1 and -(2**53+1) and large list/set elements were added to Obs_Json!FieldChoices"),
 "C16-b": ("C16", "the regular expression generated for ':name+' becomes lazy '/([^/].*?)' and so accepts empty segments after the first one",
           "a ':name+' route and a request path with an empty segment (double slash) after the first bound segment",
           "missed as built: Router.tla left ':n+' against a path with empty segments unspecified; the specification now says no match (':n+' repeats what ':n' binds, a non-empty segment), which the repaired tree satisfies; '?' and '*' stay unspecified there"),
 "C17-b": ("C17", "path_join_safe caches abspath(root) per root string in a module-level dict",
           "a relative root, an earlier call with the same root string, and a change of working directory in between",
           "missed as built (the function was observed as a pure function of its arguments); detected by C17 after call histories across working-directory changes with relative roots were added (the root is what the argument denotes when the call is made)"),
 "C18-b": ("C18", "WebSocketTemporaryHandler.__call__ keeps a local count of buffered bytes and subtracts only payload lengths, not header bytes",
           "one TCP read holding a complete frame followed by a frame cut within its last few bytes",
           "detected as built by C18 (Trace_WsStream: every segmentation of a frame sequence)"),
 "C19-b": ("C19", "hash_password draws the salt from the global random PRNG instead of os.urandom",
           "the application re-seeding / restoring the global PRNG state between two hash_password calls",
           "missed as built; detected by C19 after the second round of hashes was made from exactly the PRNG state the first round started in (fresh salts must not depend on application-visible generator state)"),
 "C20-b": ("C20", "register_function tests for an existing handler before normalising a class annotation to its name, so the test never matches for class annotations",
           "a second resource handling an already-handled message class, annotated with the class object",
           "detected as built by C20 (Dispatch.tla graph replay: instance r1b of the same class)"),
 # ---- round 4 (protocol properties, third change each; "prefer a subtle one")
 "C01-c": ("C01", "the server loop marks a half-open (keyed) connection DISCONNECTED when _recv_datagram returns False for a CHALLENGE_RESP-typed datagram",
           "a forged datagram typed CHALLENGE_RESP from the client's address while the connection is half-open, through the real server loop",
           "C02 as built (attacker challenge in Handshake.tla); missed by C01 as built - it injected into connection objects, not through the server loop; detected by C01 after server-loop-level injections (half-open and established) were added"),
 "C02-c": ("C02", "ClientServerConnection._sendClientHello resets the handshake state including the configured server public key, so the hello's embedded root key is trusted",
           "the documented call order (public key set before connect) and an attacker answering with a hello signed by its own root key",
           "detected as built by C02 (re-signed hello in Handshake.tla replayed into a real UdpClient)"),
 "C03-c": ("C03", "ConnectionBase.send accepts messages while CONNECTING, so they leave in clear (CRC only) before a key exists",
           "an application that calls send() right after connect() without waiting for the callback",
           "missed as built (connection-level worlds use a preset key; server-world clause A_sealed judged server emissions only); detected by C03 after clause A_clisealed (every client emission but the single hello opens under the client's key) and an impatient application were added to the slow-handshake scenario"),
 "C04-c": ("C04", "_recv_message hands APP_FRAGMENT messages to reassembly before the message-level duplicate test",
           "a fragmented BEST_EFFORT / RETRY message whose fragments are all retransmitted after the receiver completed it (RTT above the resend delay, few fragments)",
           "the judge rejected the traces at V_mcur (a C08 clause) and stopped there, so C04, C06 and C07 said nothing; detected by C04 and C06 (V_dropwhole / V_deliver) after the judges learned to judge a trace again without the clauses of other properties (Skip) instead of abandoning it"),
 "C05-c": ("C05", "_recv_message silently drops a message more than 256 sequence numbers behind the newest (copied from the datagram-level rule), although its datagram is acknowledged",
           "a lost guaranteed message whose retransmission arrives behind a burst of more than 256 newer messages",
           "missed as built (no bursts in the C05 scenarios; and the model's own delivery hid the loss once V_deliver was skipped); detected by C05 after the scenario guaranteed-under-bursts and the directional clause V_nolost (nothing the specification delivers is withheld) were added"),
 "C06-c": ("C06", "FragmentReceiver.expired scales the allowance with the measured latency instead of 0.5 s per fragment",
           "a transfer of 65+ fragments over a link whose round trip is shorter than a frame",
           "missed as built (payloads up to 7 kB; and context loss was admitted wholesale as the known finding); detected by C06 after large transfers over a fast link (sub-frame polling) and clause V_ctxage (a partly filled context is not given up before the code's own allowance of 1 s + 0.5 s per fragment) were added - the known finding keeps its own, later, expiry"),
 "C07-c": ("C07", "the same mechanism as C05-c (produced independently): messages older than the 256-wide message window are dropped after their datagram was acknowledged",
           "as C05-c: the callback reports True for a message the peer never accepted",
           "missed as built; detected by C07 after callbacks-under-bursts and V_nolost"),
 "C08-c": ("C08", "SeqNum.__lt__ / __gt__ compare as plain integers",
           "two numbers on both sides of the 65535 -> 1 wrap",
           "detected as built by C08 (SeqNum table judged by TLC against SeqRing)"),
 "C09-c": ("C09", "FragmentSender.build lets the final fragment be as large as MAX_PAYLOAD_SIZE (<=), forgetting the 6-byte fragment header",
           "payload lengths k*MAX_FRAGMENT_SIZE + r with r within 5 bytes of MAX_PAYLOAD_SIZE",
           "detected as built by C09, C05, C06 (both-API grid over boundary lengths)"),
 "C10-c": ("C10", "the shutdown section of the server loop reports disconnect only for clients whose status is still CONNECTED",
           "a client closed by the server (kicked from inside another client's disconnect event) that is still in the pool when the loop ends",
           "missed as built (kicks came from handle_message only); detected by C10 (clause L_alldisc) after the match-over scenario was added: the handler closes the remaining players inside a disconnect event and the server is shut down k ticks later, for every k"),
 "C11-c": ("C11", "TwistedServer keeps a reference to ctxt.blocklist taken at construction",
           "ServerContext.setBlockList called after the server object was built (it re-binds the attribute)",
           "missed as built (the world configured the block list before building the server); detected by C11 (clause A_blocked) after a scenario sets the block list after construction and replaces it mid-run"),
 "C12-c": ("C12", "UdpClient.setKeepAliveInterval restarts the connection's keep-alive timer",
           "an application that re-applies its settings every frame on an idle connection",
           "missed as built (each setter was called once); detected by C12 (clause T_clicadence) after the scenario idle, settings re-applied every frame was added"),
 # ---- round 5 (C13-C20, third change each)
 "C13-c": ("C13", "Serializable.dumpb writes into one module-level scratch buffer that is emptied only after a successful call",
           "a refused (out-of-domain) object followed by a valid one in the same process",
           "missed as built (every value was encoded on its own fresh stream); detected by C13 after dumpb was exercised as a history of calls in which refused objects precede valid ones"),
 "C14-c": ("C14", "HandshakeClientHelloMessage.deserialize seeks over the padding instead of reading it; a negative padding length seeks backwards",
           "a chain of oversized client hellos, each exactly one record length after the previous, inside sequences that announce more items than they hold (work doubles per level)",
           "missed as built; detected by C14 (invocation bound of Obs_Decoder) after record-aligned and misaligned client-hello chains were added to the hostile corpus"),
 "C15-c": ("C15", "a per-class cache of annotation shapes created with hasattr(), which finds the base class's table",
           "a subclass re-declaring a field with another generic shape, converted after its base class",
           "missed as built; detected by C15 after the fixture class became a subclass that re-declares the fields of a base class which is converted first"),
 "C16-c": ("C16", "Router.__init__ takes a shallow copy of a class-level route table: all routers share the route lists",
           "two Router objects in one process",
           "detected as built by C16 (the harness builds a router per table, in one process)"),
 "C17-c": ("C17", "containment judged with os.path.relpath(...).startswith('../'): a result of exactly '..' passes",
           "an absolute name that resolves to exactly the parent of the root",
           "detected as built by C17 (placeholder %P: the root's parent path)"),
 "C18-c": ("C18", "WebSocketFrame.__init__ assigns a flags CLASS instead of an instance: all frames share opcode / fin / mask / 7-bit length",
           "two frames alive at the same time (build A, build or parse B, then write A)",
           "missed as built (each frame was built, written and parsed on its own); detected by C18 after the frame table was processed in shuffled batches of frames that are alive together"),
 "C19-c": ("C19", "verify_password caches (hash string -> last password checked) whether or not the check succeeded",
           "the same wrong password (or a damaged hash) submitted twice in a row",
           "missed as built (each question was asked once, in a process pool); detected by C19 after every question was asked twice in the same process"),
 "C20-c": ("C20", "the handler lookup is memoised in a class attribute shared by every dispatcher in the process",
           "two live dispatchers; A dispatches class E, then B dispatches E with no (un)register in between",
           "missed as built (one dispatcher at a time); detected by C20 after bystander dispatchers (two registered ones asked first, an empty one asked afterwards) were added to every replayed transition"),
}

HOW = ("tools/seed_eval.sh: fresh scratch worktree of /repo outside /repo and /verif, demo run before and after git apply, full pytest suite "
       "with the change, then ./check <id> --tier quick with VERIF_REPO pointing at the scratch worktree; worktree removed afterwards")


def main():
    head = subprocess.run(["git", "-C", "/repo", "rev-parse", "--short", "HEAD"], capture_output=True, text=True).stdout.strip()
    names = sys.argv[1:] or sorted(TABLE)
    for name in names:
        d = os.path.join(V, "seeded", name)
        res = json.load(open(os.path.join(d, "result.json")))
        meta_path = os.path.join(d, "meta.json")
        old = json.load(open(meta_path)) if os.path.exists(meta_path) else {}
        if name in TABLE:
            prop, change, needs, result = TABLE[name]
        else:
            prop, change, needs, result = old["breaks_property"], old["change"], old["needs_to_manifest"], old["result"]
        checks = [c.split(":")[0] for c in res["checks"].split()]
        first = {}
        for c in checks:
            p = os.path.join(d, "check_%s.log" % c)
            if os.path.exists(p):
                first[c] = [l.rstrip("\n")[:600] for l in open(p).readlines()[:2]]
        meta = {
            "name": name, "breaks_property": prop,
            "produced_by": old.get("produced_by", "independent sub-agent given only the property text and its own worktree"),
            "change": change, "needs_to_manifest": needs,
            "confirmed": {"patch_applies_to": "repo HEAD " + head, "suite_with_change": res["suite"],
                          "demo_exit_without_change": res["demo_without"], "demo_exit_with_change": res["demo_with"], "how": HOW},
            "checks_run": checks,
            "check_exit_codes": {c.split(":")[0]: int(c.split("=")[1]) for c in res["checks"].split()},
            "result": result, "first_lines_of_check_output": first,
        }
        with open(meta_path, "w") as f:
            f.write(json.dumps(meta, indent=1))
        print(name, meta["check_exit_codes"])


if __name__ == "__main__":
    main()

#!/venv/bin/python
"""Binary-safe exact replacement in a repository source file that uses CRLF line endings.
usage: repo_edit.py FILE  < edits   where edits is a Python literal: [(old, new), ...] written with \n newlines."""
import sys, ast
path = sys.argv[1]
edits = ast.literal_eval(sys.stdin.read())
data = open(path, "rb").read()
crlf = b"\r\n" in data
for old, new in edits:
    o = old.encode(); n = new.encode()
    if crlf:
        o = o.replace(b"\n", b"\r\n"); n = n.replace(b"\n", b"\r\n")
    if data.count(o) != 1:
        sys.exit("edit does not apply exactly once (%d): %r" % (data.count(o), old[:60]))
    data = data.replace(o, n)
open(path, "wb").write(data)
print("edited", path)

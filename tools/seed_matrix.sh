#!/bin/bash
# tools/seed_matrix.sh <out.tsv> <seed-name> <check ids...>
# Runs the named quick checks against one confirmed seeded change (scratch worktree outside /repo and /verif, removed afterwards)
# and appends one line per check: seed, check, exit code, seconds, first clause.  Exit code 2 here means a check could not judge the
# changed code at all - a machinery defect to fix, never a detection.
set -u
OUT=$1; NAME=$2; shift 2
V=/verif
W=/var/tmp/seedm-$NAME
git -C /repo worktree remove --force $W 2>/dev/null
git -C /repo worktree add --detach $W HEAD -q || exit 2
( cd $W && git apply --whitespace=nowarn $V/seeded/$NAME/patch.diff ) || { echo "patch does not apply"; exit 2; }
for c in "$@"; do
  s=$(date +%s)
  out=$(cd $V && VERIF_REPO=$W VERIF_EVIDENCE_DIR=/var/tmp/seed-evidence/m-$NAME VERIF_REPLAY_DIR=/var/tmp/seed-replays/m-$NAME ./check $c --tier quick 2>&1); rc=$?
  e=$(date +%s)
  first=$(echo "$out" | grep -m1 -E '^  clause|^MACHINERY' | cut -c1-300 | tr '\t' ' ')
  printf "%s\t%s\t%s\t%s\t%s\n" "$NAME" "$c" "$rc" "$((e-s))" "$first" >> $OUT
done
cd /; git -C /repo worktree remove --force $W
rm -rf /var/tmp/seed-evidence/m-$NAME /var/tmp/seed-replays/m-$NAME

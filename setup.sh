#!/bin/sh
# Offline setup: nothing to build.  Verifies the tools the checks need are present.
set -e
test -x /venv/bin/python
test -f /opt/veriftools/tla/tla2tools.jar
java -version >/dev/null 2>&1
mkdir -p /var/tmp/verif-work /verif/evidence /verif/replays
echo setup ok
